(* Positive-definite Hermitian Toeplitz forms and the Levinson recursion, in an abstract
   ordered *-field (Laws + OrdLaws): the LDL^H reading of the recursion.
     P_m = [1,a_m]^H T_m [1,a_m]              (herm_inv / pd_stage)
     PD  =>  every stage error is positive, every |k_m|^2 < 1, no stage raises   (lev_iter_pd)
     PD  =>  the normal equations have one solution                              (pd_unique)
     PD  =>  [1,a] minimises the form over monic vectors                         (pd_minimum)
     PD  =>  every root z (in the field) of z^p + a_1 z^(p-1) + .. + a_p has |z|^2 < 1   (pd_root_inside)
     the lag sequence is determined by (a, P): step-down                         (in lev_iter_pd)  *)
Require Import Spectrum.Theory.Ops Spectrum.Theory.Sum Spectrum.Theory.Vec Spectrum.Theory.Order
               Spectrum.Model.Levinson Spectrum.Proofs.LevinsonTheory.

Section PD.
Context {F : Type} {OF : Ops F} {L : Laws OF} {OL : OrdLaws OF}.
Local Open Scope F_scope.
Add Field FFy : (fth (O:=OF)).

Lemma pos_eq a b : a = b -> pos a -> pos b. Proof. intros ->; auto. Qed.

Fixpoint fpow (z : F) (n : nat) : F := match n with O => 1 | S k => z * fpow z k end.
(* value at z of  a_0 z^p + a_1 z^(p-1) + ... + a_p  (numpy.roots convention) *)
Definition polyval (a : nat -> F) (p : nat) (z : F) : F := sumf (S p) (fun j => a j * fpow z (p - j)).

(* u^H T_p v with T[i][j] = r(i-j), r(-d) = conj r(d) *)
Definition herm (r : list F) (p : nat) (u v : nat -> F) : F :=
  sumf (S p) (fun i => sumf (S p) (fun j => conj (u i) * rr r i j * v j)).
Definition tform (r : list F) (p : nat) (c : nat -> F) : F := herm r p c c.
Definition PD (r : list F) (p : nat) : Prop :=
  forall c : nat -> F, (exists i, (i <= p)%nat /\ c i <> 0) -> pos (tform r p c).

Section Fixed_r.
Variable r : list F.
Hypothesis r0_real : isreal (nthF r O).

Lemma rr_conj i j : conj (rr r i j) = rr r j i.
Proof. unfold rr. rewrite (rz_conj r r0_real). f_equal. lia. Qed.
Lemma rr_shift i j : rr r (S i) (S j) = rr r i j.
Proof. unfold rr. f_equal. lia. Qed.

Lemma herm_row p u v : herm r p u v = sumf (S p) (fun i => conj (u i) * row r p v i).
Proof.
  unfold herm, row. apply sumf_ext; intros i _. rewrite <- sumf_scale. apply sumf_ext; intros j _. ring.
Qed.
Lemma herm_ext p u u' v v' : (forall i, (i <= p)%nat -> u i = u' i) -> (forall i, (i <= p)%nat -> v i = v' i) ->
  herm r p u v = herm r p u' v'.
Proof.
  intros Hu Hv. unfold herm. apply sumf_ext; intros i Hi. apply sumf_ext; intros j Hj.
  rewrite Hu, Hv by lia. reflexivity.
Qed.
Lemma herm_lin_r p u v w z :
  herm r p u (fun j => v j - z * w j) = herm r p u v - z * herm r p u w.
Proof.
  unfold herm.
  transitivity (sumf (S p) (fun i => sumf (S p) (fun j => conj (u i) * rr r i j * v j)
                                     - z * sumf (S p) (fun j => conj (u i) * rr r i j * w j))).
  { apply sumf_ext; intros i _. rewrite <- sumf_scale, <- sumf_sub. apply sumf_ext; intros j _. ring. }
  rewrite sumf_sub, sumf_scale. reflexivity.
Qed.
Lemma herm_add_r p u v w : herm r p u (fun j => v j + w j) = herm r p u v + herm r p u w.
Proof.
  unfold herm. rewrite <- sumf_add. apply sumf_ext; intros i _. rewrite <- sumf_add.
  apply sumf_ext; intros j _. ring.
Qed.
Lemma herm_add_l p u t v : herm r p (fun i => u i + t i) v = herm r p u v + herm r p t v.
Proof.
  unfold herm. rewrite <- sumf_add. apply sumf_ext; intros i _. rewrite <- sumf_add.
  apply sumf_ext; intros j _. rewrite conj_add. ring.
Qed.
Lemma herm_sym p u v : herm r p u v = conj (herm r p v u).
Proof.
  unfold herm. rewrite sumf_conj.
  rewrite (sumf_ext (S p) (fun i => conj (sumf (S p) (fun j => conj (v i) * rr r i j * u j)))
                          (fun i => sumf (S p) (fun j => conj (u j) * rr r j i * v i))).
  2:{ intros i _. rewrite sumf_conj. apply sumf_ext; intros j _.
      rewrite !conj_mul, conj_conj, rr_conj. ring. }
  apply sumf_exch.
Qed.
(* zero padding and the Toeplitz shift *)
Definition padf (p : nat) (u : nat -> F) : nat -> F := fun i => if (i <=? p)%nat then u i else 0.
Definition shiftf (u : nat -> F) : nat -> F := fun i => match i with O => 0 | S i' => u i' end.
Lemma herm_pad p q u v : (p <= q)%nat -> herm r q (padf p u) (padf p v) = herm r p u v.
Proof.
  intros Hpq. unfold herm.
  rewrite (sumf_le_ext (S p) (S q)); [|lia|].
  2:{ intros i Hi. apply sumf_zero_ext; intros j _. unfold padf at 1.
      destruct (Nat.leb_spec i p); [lia|]. rewrite conj_0. ring. }
  apply sumf_ext; intros i Hi.
  rewrite (sumf_le_ext (S p) (S q)); [|lia|].
  2:{ intros j Hj. unfold padf at 2. destruct (Nat.leb_spec j p); [lia|]. ring. }
  apply sumf_ext; intros j Hj. unfold padf.
  destruct (Nat.leb_spec i p); [|lia]. destruct (Nat.leb_spec j p); [|lia]. reflexivity.
Qed.
Lemma herm_shift p u v : herm r (S p) (shiftf u) (shiftf v) = herm r p u v.
Proof.
  unfold herm. rewrite sumf_shift.
  rewrite (sumf_zero_ext (S (S p)) (fun j => conj (shiftf u 0) * rr r 0 j * shiftf v j)).
  2:{ intros j _. cbn [shiftf]. rewrite conj_0. ring. }
  transitivity (sumf (S p) (fun i => sumf (S p) (fun j => conj (u i) * rr r i j * v j))); [|reflexivity].
  transitivity (0 + sumf (S p) (fun i => sumf (S p) (fun j => conj (u i) * rr r i j * v j))); [f_equal|ring].
  apply sumf_ext; intros i _. rewrite sumf_shift. cbn [shiftf].
  transitivity (0 + sumf (S p) (fun j => conj (u i) * rr r i j * v j)); [f_equal; [ring|]|ring].
  apply sumf_ext; intros j _. rewrite rr_shift. reflexivity.
Qed.

(* the normal equations  T_p a = [P, 0 .. 0]  as a statement about rows *)
Definition NormalEq (p : nat) (a : nat -> F) (P : F) : Prop :=
  forall i, (i <= p)%nat -> row r p a i = if (i =? 0)%nat then P else 0.
Lemma Inv_NormalEq p a P : Inv r p a P -> NormalEq p a P.
Proof.
  intros (_ & _ & H0 & Hi) i Hle. destruct (Nat.eqb_spec i O) as [->|Hne]; [exact H0|apply Hi; lia].
Qed.
Lemma herm_normal p a P u : NormalEq p a P -> herm r p u a = conj (u O) * P.
Proof.
  intros HN. rewrite herm_row, sumf_shift. rewrite (HN O) by lia. cbn [Nat.eqb].
  rewrite sumf_zero_ext. { ring. }
  intros i Hi. rewrite (HN (S i)) by lia. cbn [Nat.eqb]. ring.
Qed.
(* LDL^H reading: the stage error is the quadratic form at the predictor polynomial *)
Lemma tform_inv p a P : a O = 1 -> NormalEq p a P -> tform r p a = P.
Proof. intros Ha HN. unfold tform. rewrite (herm_normal p a P a HN), Ha, conj_1. ring. Qed.

Lemma PD_mono p q : (q <= p)%nat -> PD r p -> PD r q.
Proof.
  intros Hq HP c (i & Hi & Hc). unfold tform. rewrite <- (herm_pad q p c c Hq).
  apply HP. exists i. split; [lia|]. unfold padf. destruct (Nat.leb_spec i q); [exact Hc|lia].
Qed.
Lemma pd_stage p a P : PD r p -> a O = 1 -> NormalEq p a P -> pos P.
Proof.
  intros HP Ha HN. rewrite <- (tform_inv p a P Ha HN). apply HP. exists O. split; [lia|].
  rewrite Ha. apply one_neq_0.
Qed.

(* contrapositive of PD with the decidable zero test *)
Lemma pd_zero p c : PD r p -> tform r p c = 0 -> forall i, (i <= p)%nat -> c i = 0.
Proof.
  intros HP E i Hi. destruct (eq0_dec (c i)) as [Hz|Hnz]; [exact Hz|]. exfalso.
  destruct (HP c) as [_ Hne]; [exists i; split; assumption|]. apply Hne. exact E.
Qed.
Lemma pd_unique p c : PD r p -> c O = 0 -> (forall i, (1 <= i <= p)%nat -> row r p c i = 0) ->
  forall i, (i <= p)%nat -> c i = 0.
Proof.
  intros HP Hc0 Hrows. apply pd_zero; [exact HP|]. unfold tform. rewrite herm_row, sumf_shift, Hc0, conj_0.
  rewrite sumf_zero_ext. { ring. } intros i Hi. rewrite Hrows by lia. ring.
Qed.
Lemma row_sub p a b i : row r p (fun j => a j - b j) i = row r p a i - row r p b i.
Proof. unfold row. rewrite <- sumf_sub. apply sumf_ext; intros j _. ring. Qed.
Theorem pd_unique_solution p a P b Q : PD r p -> a O = 1 -> b O = 1 ->
  NormalEq p a P -> NormalEq p b Q -> (forall i, (i <= p)%nat -> a i = b i) /\ P = Q.
Proof.
  intros HP Ha Hb HNa HNb.
  assert (E : forall i, (i <= p)%nat -> a i = b i).
  { intros i Hi. assert (D : a i - b i = 0).
    { apply (pd_unique p (fun j => a j - b j) HP); [rewrite Ha, Hb; ring| |exact Hi].
      intros l Hl. rewrite row_sub, (HNa l), (HNb l) by lia.
      destruct (Nat.eqb_spec l O); [lia|ring]. }
    transitivity (b i + (a i - b i)); [ring|rewrite D; ring]. }
  split; [exact E|].
  assert (Pa : row r p a O = P) by (apply (HNa O); lia).
  assert (Pb : row r p b O = Q) by (apply (HNb O); lia).
  rewrite <- Pa, <- Pb. apply row_ext. intros j Hj. apply E. exact Hj.
Qed.

(* [1,a] minimises the form over monic vectors: form(b) = P + form(b - a) *)
Theorem pd_minimum p a P b : a O = 1 -> b O = 1 -> NormalEq p a P ->
  tform r p b = P + tform r p (fun j => b j - a j).
Proof.
  intros Ha Hb HN. set (d := fun j => b j - a j).
  assert (Hd0 : d O = 0) by (unfold d; rewrite Ha, Hb; ring).
  unfold tform.
  rewrite (herm_ext p b (fun j => a j + d j) b (fun j => a j + d j)) by (intros; unfold d; ring).
  rewrite herm_add_l, !herm_add_r.
  assert (E1 : herm r p d a = 0) by (rewrite (herm_normal p a P d HN), Hd0, conj_0; ring).
  assert (E2 : herm r p a d = 0) by (rewrite herm_sym, E1; apply conj_0).
  rewrite E1, E2, (herm_normal p a P a HN), Ha, conj_1. ring.
Qed.

(* every root (in the field) of the predictor polynomial lies strictly inside the unit circle *)
Theorem pd_root_inside p a P z : PD r p -> a O = 1 -> NormalEq p a P ->
  polyval a p z = 0 -> lt (nrm2 z) 1.
Proof.
  intros HP Ha HN Hz. destruct p as [|q].
  { exfalso. unfold polyval in Hz. cbn in Hz. rewrite Ha in Hz. apply one_neq_0. rewrite <- Hz. ring. }
  set (b := fun j => sumf (S j) (fun i => a i * fpow z (j - i))).
  assert (Hb0 : b O = 1). { unfold b. cbn. rewrite Ha. ring. }
  assert (HbS : forall j, b (S j) = a (S j) + z * b j).
  { intros j. unfold b. rewrite (sumf_S (S j)). rewrite Nat.sub_diag. cbn [fpow].
    rewrite <- sumf_scale.
    rewrite (sumf_ext (S j) (fun i => a i * fpow z (S j - i)) (fun i => z * (a i * fpow z (j - i)))).
    2:{ intros i Hi. replace (S j - i)%nat with (S (j - i)) by lia. cbn [fpow]. ring. }
    ring. }
  assert (Hroot : a (S q) + z * b q = 0). { rewrite <- HbS. exact Hz. }
  clearbody b.
  set (b1 := padf q b). set (b2 := shiftf b).
  assert (Ea : forall j, (j <= S q)%nat -> a j = b1 j - z * b2 j).
  { intros j Hj. unfold b1, b2, padf, shiftf. destruct j as [|j'].
    - cbn. rewrite Hb0, Ha. ring.
    - destruct (Nat.leb_spec (S j') q) as [Hle|Hgt].
      + rewrite HbS. ring.
      + assert (j' = q) by lia. subst j'. transitivity (a (S q) - (a (S q) + z * b q)); [rewrite Hroot|]; ring. }
  set (beta := herm r q b b).
  assert (B1 : herm r (S q) b1 b1 = beta). { unfold b1. apply herm_pad. lia. }
  assert (B2 : herm r (S q) b2 b2 = beta). { unfold b2. apply herm_shift. }
  assert (Hbeta : pos beta).
  { rewrite <- B1. apply (HP b1). exists O. split; [lia|]. unfold b1, padf. cbn. rewrite Hb0. apply one_neq_0. }
  assert (Hbr : conj beta = beta) by (apply pos_real; exact Hbeta).
  assert (E1 : herm r (S q) b2 b1 - z * beta = 0).
  { rewrite <- B2, <- herm_lin_r.
    rewrite (herm_ext (S q) b2 b2 (fun j => b1 j - z * b2 j) a) by (intros; first [symmetry; apply Ea; assumption|reflexivity]).
    rewrite (herm_normal (S q) a P b2 HN). unfold b2. cbn [shiftf]. rewrite conj_0. ring. }
  assert (E2 : beta - z * herm r (S q) b1 b2 = P).
  { rewrite <- B1 at 1. rewrite <- herm_lin_r.
    rewrite (herm_ext (S q) b1 b1 (fun j => b1 j - z * b2 j) a) by (intros; first [symmetry; apply Ea; assumption|reflexivity]).
    rewrite (herm_normal (S q) a P b1 HN). unfold b1, padf. cbn. rewrite Hb0, conj_1. ring. }
  assert (G : herm r (S q) b2 b1 = z * beta). { transitivity (herm r (S q) b2 b1 - z * beta + z * beta); [ring|rewrite E1; ring]. }
  rewrite (herm_sym (S q) b1 b2), G, conj_mul, Hbr in E2.
  assert (HPp : pos P) by (apply (pd_stage (S q) a P HP Ha HN)).
  unfold lt. apply (pos_eq (P / beta)).
  - unfold nrm2. rewrite <- E2. field. apply Hbeta.
  - apply pos_div; assumption.
Qed.
End Fixed_r.
End PD.

(* ---------- the recursion under positive definiteness ---------- *)
Section LevPD.
Context {F : Type} {OF : Ops F} {L : Laws OF} {OL : OrdLaws OF}.
Local Open Scope F_scope.
Add Field FFy2 : (fth (O:=OF)).

(* step-down: the order-(m+1) equations for the stepped-up polynomial give back the order-m ones *)
Lemma step_down (rho : list F) (Hr : isreal (nthF rho O)) m a k P' :
  a O = 1 -> 1 - k * conj k <> 0 ->
  Inv rho (S m) (step_a m a k) P' -> Inv rho m a (P' / (1 - k * conj k)).
Proof.
  intros Ha Hk (_ & HPr & H0 & Hi).
  set (u := fun i => row rho m a i).
  assert (RS : forall i, (i <= S m)%nat -> row rho (S m) (step_a m a k) i = u i + k * conj (u (S m - i)%nat)).
  { intros i Hle. apply (row_step rho Hr m a k i Ha Hle). }
  assert (U0 : u O + k * conj (u (S m)) = P'). { rewrite <- H0, RS by lia. rewrite Nat.sub_0_r. reflexivity. }
  assert (Um : u (S m) + k * conj (u O) = 0). { rewrite <- (Hi (S m)) by lia. rewrite RS by lia. rewrite Nat.sub_diag. reflexivity. }
  assert (Ui : forall i, (1 <= i <= m)%nat -> u i = 0).
  { intros i Hle.
    assert (A1 : u i + k * conj (u (S m - i)%nat) = 0) by (rewrite <- (Hi i) by lia; rewrite RS by lia; reflexivity).
    assert (A2 : u (S m - i)%nat + k * conj (u i) = 0).
    { rewrite <- (Hi (S m - i)%nat) by lia. rewrite RS by lia. replace (S m - (S m - i))%nat with i by lia. reflexivity. }
    assert (C2 : conj (u (S m - i)%nat) = - (conj k * u i)).
    { transitivity (conj (u (S m - i)%nat + k * conj (u i)) - conj k * u i).
      - rewrite conj_add, conj_mul, conj_conj. ring.
      - rewrite A2, conj_0. ring. }
    rewrite C2 in A1.
    apply (mul_cancel_l (1 - k * conj k) (u i)); [|exact Hk].
    rewrite <- A1. ring. }
  assert (CU : conj (u (S m)) = - (conj k * u O)).
  { transitivity (conj (u (S m) + k * conj (u O)) - conj k * u O).
    - rewrite conj_add, conj_mul, conj_conj. ring.
    - rewrite Um, conj_0. ring. }
  rewrite CU in U0.
  assert (E0 : u O = P' / (1 - k * conj k)). { rewrite <- U0. field. exact Hk. }
  unfold Inv. split; [exact Ha|]. split; [|split].
  - rewrite conj_div by exact Hk. rewrite HPr, conj_1mkk. reflexivity.
  - exact E0.
  - exact Ui.
Qed.

Section Fixed_r.
Variable r : list F.
Hypothesis r0_real : isreal (nthF r O).

(* what a positive-definite run looks like after m stages *)
Definition GoodL (m : nat) (st : lev_state) : Prop :=
  let '(A, P, ks) := st in
  length A = m /\ length ks = m /\ Inv r m (afun A) P /\ pos P /\ P = nthF r O * prodk ks
  /\ (forall j, (j < m)%nat -> lt (nrm2 (nthF ks j)) 1)
  /\ (1 <= m -> nthF A (m - 1) = nthF ks (m - 1))%nat
  /\ (forall rho : list F, isreal (nthF rho O) -> Inv rho m (afun A) P ->
        forall d, (d <= m)%nat -> nthF rho d = nthF r d).

Lemma rr_lag (rho : list F) i j : (j <= i)%nat -> rr rho i j = nthF rho (i - j).
Proof.
  intros H. unfold rr, rz. destruct (Z.leb_spec 0 (Z.of_nat i - Z.of_nat j)); [|lia]. f_equal. lia.
Qed.

Lemma lev_iter_pd allow p : PD r p -> forall m, (m <= p)%nat ->
  exists st, lev_iter (tl r) allow (nthF r O) m = Some st /\ GoodL m st.
Proof.
  intros HP. induction m as [|m IH]; intros Hm.
  - exists ([], nthF r O, []). split; [reflexivity|].
    assert (I0 : Inv r O (afun []) (nthF r O)).
    { unfold Inv. repeat split; auto; try (intros; lia). unfold row. cbn. unfold rr, rz. cbn. ring. }
    cbn. repeat split; auto; try (intros; lia); try (apply I0); try ring.
    + apply (pd_stage r O (afun []) (nthF r O)); [apply (PD_mono r p O); [lia|exact HP]|reflexivity|apply Inv_NormalEq; exact I0].
    + apply (pd_stage r O (afun []) (nthF r O)); [apply (PD_mono r p O); [lia|exact HP]|reflexivity|apply Inv_NormalEq; exact I0].
    + intros rho Hrho (_ & _ & Hrow & _) d Hd. replace d with O by lia.
      unfold row in Hrow. cbn in Hrow. unfold rr, rz in Hrow. cbn in Hrow. rewrite <- Hrow. ring.
  - destruct (IH ltac:(lia)) as ([[A P] ks] & Hrun & HA & Hks & HI & HPp & HPk & Hkl & Hlast & Hmatch).
    set (k := - lev_delta (tl r) A m / P).
    set (P' := P * (1 - k * conj k)).
    assert (HP0 : P <> 0) by apply HPp.
    assert (Hk : k * P = - row r m (afun A) (S m)).
    { unfold k. rewrite delta_is_row by exact HA. field. exact HP0. }
    pose proof (levinson_step r r0_real m (afun A) P k HI Hk) as HI'.
    assert (EXT : forall rho i, row rho (S m) (afun (stepup A k)) i = row rho (S m) (step_a m (afun A) k) i).
    { intros rho i. apply row_ext. intros j Hj. apply afun_stepup; [exact HA|lia]. }
    assert (HI2 : Inv r (S m) (afun (stepup A k)) P').
    { destruct HI' as (Ha & Hc & Hr & Hz). unfold Inv. split; [reflexivity|]. split; [exact Hc|]. split.
      - rewrite EXT. exact Hr.
      - intros i Hi. rewrite EXT. apply Hz. exact Hi. }
    assert (HP'p : pos P').
    { apply (pd_stage r (S m) (afun (stepup A k)) P'); [apply (PD_mono r p (S m)); [lia|exact HP]|reflexivity|apply Inv_NormalEq; exact HI2]. }
    assert (Hk1 : pos (1 - k * conj k)).
    { apply (pos_eq (P' / P)); [unfold P'; field; exact HP0|apply pos_div; assumption]. }
    exists (stepup A k, P', ks ++ [k]). split.
    { cbn [lev_iter]. rewrite Hrun. unfold lev_step. fold k. fold P'.
      rewrite (pos_not_le0 P' HP'p). reflexivity. }
    unfold GoodL. split; [|split; [|split; [|split; [|split; [|split; [|split]]]]]].
    + rewrite stepup_length. lia.
    + rewrite app_length. cbn. lia.
    + exact HI2.
    + exact HP'p.
    + transitivity (nthF r O * prodk ks * (1 - k * conj k)); [unfold P'; rewrite <- HPk; reflexivity|rewrite prodk_app; ring].
    + intros j Hj. destruct (Nat.eq_dec j m) as [->|Hne].
      * rewrite nthF_app_last' by exact Hks. exact Hk1.
      * rewrite nthF_app_l by lia. apply Hkl. lia.
    + intros _. replace (S m - 1)%nat with m by lia.
      unfold stepup. rewrite !nthF_app_last' by (rewrite ?mk_length; assumption). reflexivity.
    + intros rho Hrho HIrho d Hd.
      assert (HIs : Inv rho (S m) (step_a m (afun A) k) P').
      { destruct HIrho as (Ha & Hc & Hr & Hz). unfold Inv. split; [reflexivity|]. split; [exact Hc|]. split.
        - rewrite <- EXT. exact Hr.
        - intros i Hi. rewrite <- EXT. apply Hz. exact Hi. }
      assert (Hne1 : 1 - k * conj k <> 0) by apply Hk1.
      pose proof (step_down rho Hrho m (afun A) k P' eq_refl Hne1 HIs) as HIm.
      replace (P' / (1 - k * conj k)) with P in HIm by (unfold P'; field; exact Hne1).
      pose proof (Hmatch rho Hrho HIm) as Hlow.
      destruct (Nat.eq_dec d (S m)) as [->|Hdne]; [|apply Hlow; lia].
      destruct HIrho as (_ & _ & _ & Hzr). destruct HI2 as (_ & _ & _ & Hz).
      pose proof (Hzr (S m) ltac:(lia)) as Z1. pose proof (Hz (S m) ltac:(lia)) as Z2.
      unfold row in Z1, Z2. rewrite sumf_shift in Z1, Z2.
      rewrite rr_lag in Z1, Z2 by lia. rewrite Nat.sub_0_r in Z1, Z2.
      assert (TL : sumf (S m) (fun i => afun (stepup A k) (S i) * rr rho (S m) (S i))
                 = sumf (S m) (fun i => afun (stepup A k) (S i) * rr r (S m) (S i))).
      { apply sumf_ext; intros i Hi. rewrite !rr_lag by lia. rewrite Hlow by lia. reflexivity. }
      rewrite TL in Z1. change (afun (stepup A k) O) with 1 in Z1, Z2.
      transitivity (1 * nthF rho (S m) + sumf (S m) (fun i => afun (stepup A k) (S i) * rr r (S m) (S i))
                    - sumf (S m) (fun i => afun (stepup A k) (S i) * rr r (S m) (S i))); [ring|].
      rewrite Z1, <- Z2. ring.
Qed.
End Fixed_r.

(* ---------- the executable [levinson] ---------- *)
Theorem levinson_pd_thm (r : list F) (p : nat) (allow : bool) :
  isreal (nthF r O) -> (p <= length r - 1)%nat -> PD r p ->
  exists a P k, levinson r p allow = Some (a, P, k)
    /\ length a = p /\ length k = p
    /\ pos P /\ le0 P = false
    /\ (forall j, (j < p)%nat -> lt (nrm2 (nthF k j)) 1)
    /\ (forall i, (i <= p)%nat -> toeplitz_row r p a i = if (i =? 0)%nat then P else 0)
    /\ P = nthF r O * prodk k
    /\ (1 <= p -> nthF a (p - 1) = nthF k (p - 1))%nat
    /\ (forall q, (q <= p)%nat -> exists a' P', levinson r q allow = Some (a', P', firstn q k) /\ pos P')
    /\ (forall rho : list F, isreal (nthF rho O) ->
          (forall i, (i <= p)%nat -> toeplitz_row rho p a i = if (i =? 0)%nat then P else 0) ->
          forall d, (d <= p)%nat -> nthF rho d = nthF r d).
Proof.
  intros Hr Hp HP.
  destruct (lev_iter_pd r Hr allow p HP p (Nat.le_refl p)) as ([[A P] ks] & Hrun & HA & Hks & HI & HPp & HPk & Hkl & Hlast & Hmatch).
  exists A, P, ks.
  assert (Hlev : forall q, (q <= p)%nat -> levinson r q allow = lev_iter (tl r) allow (nthF r O) q).
  { intros q Hq. unfold levinson. destruct (Nat.leb_spec q (length r - 1)); [|lia]. rewrite (re_real _ Hr). reflexivity. }
  split; [rewrite Hlev by lia; exact Hrun|].
  split; [exact HA|]. split; [exact Hks|]. split; [exact HPp|]. split; [apply pos_not_le0; exact HPp|].
  split; [exact Hkl|]. split.
  { intros i Hi. apply (Inv_NormalEq r p (afun A) P HI i Hi). }
  split; [exact HPk|]. split; [exact Hlast|]. split.
  - intros q Hq.
    destruct (lev_iter_pd r Hr allow p HP q Hq) as ([[A' P'] ks'] & Hrun' & _ & _ & _ & HPp' & _).
    exists A', P'. rewrite Hlev by exact Hq. rewrite Hrun'.
    rewrite (lev_iter_nested r allow _ p q _ _ _ _ _ _ Hq Hrun Hrun'). split; [reflexivity|exact HPp'].
  - intros rho Hrho Hrows. apply (Hmatch rho Hrho).
    destruct HI as (Ha & Hc & _ & _). unfold Inv. split; [exact Ha|]. split; [exact Hc|]. split.
    + apply (Hrows O). lia.
    + intros i Hi. pose proof (Hrows i ltac:(lia)) as Hx. destruct (Nat.eqb_spec i O); [lia|exact Hx].
Qed.
End LevPD.
