(* Shared by the C03 / C04 theorems about Model/ArmaEst.v: the non-degeneracy guard ("some sample is not zero"; for
   arma_estimate: the residual handed to ma is not identically zero -- the hypothesis of C15's arma_rho_pos), what it buys
   (every stage of the two Levinson runs inside ma has a positive error power: nothing divides by zero), and the
   fact that ma's exceptions depend on Q, M and the length of the data only. *)
Require Import Spectrum.Theory.Ops Spectrum.Theory.Sum Spectrum.Theory.Vec Spectrum.Theory.Order
               Spectrum.Model.Levinson Spectrum.Model.Corr Spectrum.Model.ArmaEst
               Spectrum.Proofs.LevinsonTheory Spectrum.Proofs.CorrTheory
               Spectrum.Proofs.ArmaEstTheory Spectrum.Proofs.ArmaEstPos.

Section NondegDefs.
Context {F : Type} {OF : Ops F}.
Local Open Scope F_scope.
Definition nonzero_data (x : list F) : Prop := exists n, (n < length x)%nat /\ nthF x n <> 0.
Definition arma_nondeg (lsm lsq : list F -> nat -> list F) (x : list F) (P Q lag : nat) : Prop :=
  forall a b rho, arma_estimate lsm lsq x P Q lag = inr (a, b, rho) -> nonzero_data (arma_resid x a P).
(* no pivot of the elimination run by the oracle [ls_exact] of C15's correspondence is zero (it has no zero tests and no pivoting) *)
Fixpoint elim_regular (fuel : nat) (rows : list (list F)) : Prop :=
  match fuel, rows with
  | S f, piv :: rest =>
      nthF piv 0 <> 0 /\ elim_regular f (map (fun r => tl (row_sub (nthF r 0 / nthF piv 0) piv r)) rest)
  | _, _ => True
  end.
Definition ls_rows (y : list F) (p : nat) : list (list F) := map (fun i => mk p (cov_gram y p i) ++ [cov_rhs y p i]) (seq 0 p).
Definition ls_exact_regular (y : list F) (p : nat) : Prop := elim_regular p (ls_rows y p).
End NondegDefs.

Section Nondeg.
Context {F : Type} {OF : Ops F} {L : Laws OF}.
Local Open Scope F_scope.

Lemma ma_error_length (x x' : list F) Q M e : length x' = length x -> ma x Q M = inl e -> ma x' Q M = inl e.
Proof.
  intros Hl H. destruct (ma_errors_thm x Q M) as (H1 & H2 & H3). destruct (ma_errors_thm x' Q M) as (H1' & H2' & _).
  destruct e.
  - apply H1'. apply H1. exact H.
  - apply H2'. rewrite Hl. apply H2. exact H.
  - contradiction.
Qed.

Context {OL : OrdLaws OF}.
Lemma one_cons_nonzero_data (a : list F) : nonzero_data (1 :: a).
Proof. exists O. split; [cbn; lia|]. cbn. apply one_neq_0. Qed.
Lemma char0 k : (1 <= k)%nat -> ofnat k <> (0 : F).
Proof. intros Hk. apply (pos_ofnat k Hk). Qed.
(* biased lags of data that are not identically zero: every executed Levinson stage has a non-zero error power *)
Lemma yule_stages_nonzero (x r : list F) order : nonzero_data x -> acorr x order Biased = Some r ->
  length r = S order /\ re (nthF r O) = nthF r O /\
  forall q A P ks, (q < order)%nat -> lev_iter (tl r) true (nthF r O) q = Some (A, P, ks) -> P <> 0.
Proof.
  intros Hx Er.
  assert (Hlen : length r = S order).
  { unfold acorr in Er. destruct (correlation_def_thm _ _ _ _ _ _ Er) as (_ & Hl & _). exact Hl. }
  split; [exact Hlen|]. split; [exact (re_real _ (r0_real x order r Er))|].
  intros q A P ks Hq E.
  destruct (lev_iter_pos x order r Er Hx q ltac:(lia)) as (A' & P' & ks' & E' & _ & _ & _ & HP & _).
  rewrite E in E'. injection E' as _ <- _. apply HP.
Qed.
End Nondeg.
