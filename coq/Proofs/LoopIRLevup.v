(* levup: the IR program generated from levinson.py (function levup) computes the hand-written model, for ALL inputs.

   [prog_levup_ref] is the loop-IR program that tools/props/_loopir.py generates from the source of
   spectrum.levinson.levup at the commit this file was written for (kept verbatim below, between the BEGIN/END markers,
   as [prog_levup_gen0]; the two are equal by reflexivity).  The check regenerates the program on every run and
   instantiates the theorems below only when the text is identical.

   Also here (shared with LoopIRLevdown.v): the Python slices used by levup/levdown as [mk] lists
   (a[-1::-1], a[0:-1], a[-2::-1]) and [map2] on [mk] lists.

   PROVED (abstract field with conjugation [Laws]; any array acur with any dtype tag, any knxt, ecur given or omitted):
     levup_ir_run   run prog_levup_ref [acur; knxt; ecur] =
                      acur = []                      -> IndexError          (acur[0])
                      feq acur[0] 1 = false          -> ValueError          (the code's  acur[0] != 1)
                      otherwise                      -> ORet [complex array  fst (levup acur knxt _);
                                                              snd (levup acur knxt ecur)  |  None when ecur is omitted]
     levup_ir_tie   for a reflexive [feq] that decides acur[0] = 1 as the code does: tie_levup = true for every non-empty acur
   NOT PROVED: nothing within the IR semantics (the empty array is outside the tie's domain: the tie expects ValueError there,
   the program -- like numpy -- raises IndexError). *)
From Coq Require Import String ZArith List Lia Bool.
Require Import Spectrum.Theory.Ops Spectrum.Theory.Sum Spectrum.Theory.Vec Spectrum.Model.LoopIR Spectrum.Model.Levinson
               Spectrum.Model.LoopIRTie Spectrum.Proofs.LoopIRLevinson.
Import ListNotations.
Local Open Scope string_scope.

(* ---------------------------------------------------------------- slices and elementwise operations as [mk] lists *)
Section Slices.
Context {F : Type} {OF : Ops F}.
Local Open Scope F_scope.
Local Open Scope list_scope.

Lemma map_range_from_down (g : nat -> F) k n :
  map (fun p => g (Z.to_nat p)) (range_from (Z.of_nat (k + n) - 1) (-1) n) = mk n (fun j => g (k + n - 1 - j)%nat).
Proof.
  revert k. induction n; intros k; [reflexivity|].
  cbn [range_from map]. rewrite mk_S. f_equal.
  - f_equal. lia.
  - replace (Z.of_nat (k + S n) - 1 + -1)%Z with (Z.of_nat (S k + n) - 1 - 1)%Z by lia.
    replace (Z.of_nat (S k + n) - 1 - 1)%Z with (Z.of_nat (k + n) - 1)%Z by lia.
    rewrite IHn. apply mk_ext. intros j _. f_equal. lia.
Qed.

Lemma range_len_down (a b : Z) : (b <= a)%Z -> range_len a b (-1) = Z.to_nat (a - b).
Proof.
  intros H. unfold range_len. change (0 <? -1)%Z with false. cbv iota. change (- -1)%Z with 1%Z.
  rewrite Z.div_1_r. f_equal. lia.
Qed.

(* a[-1::-1]: the whole array reversed *)
Lemma slice_rev_all (l : list F) :
  map (fun p => nthF l (Z.to_nat p)) (slice_positions (length l) (Some (-1)%Z) None (-1))
  = mk (length l) (fun j => nthF l (length l - 1 - j)).
Proof.
  unfold slice_positions. change (0 <? -1)%Z with false. cbv iota. change (-1 <? 0)%Z with true. cbv iota.
  set (n := length l).
  assert (E : Z.max (-1) (Z.min (-1 + Z.of_nat n) (Z.of_nat n - 1)) = (Z.of_nat n - 1)%Z) by lia. rewrite E.
  rewrite range_len_down by lia. replace (Z.to_nat (Z.of_nat n - 1 - -1)) with n by lia.
  exact (map_range_from_down (nthF l) 0 n).
Qed.

(* a[0:-1]: all but the last *)
Lemma slice_front (l : list F) : l <> [] ->
  map (fun p => nthF l (Z.to_nat p)) (slice_positions (length l) (Some 0%Z) (Some (-1)%Z) 1)
  = mk (length l - 1) (nthF l).
Proof.
  intros Hl. assert (Hn : (0 < length l)%nat) by (destruct l; [congruence|cbn [length]; lia]).
  unfold slice_positions. change (0 <? 1)%Z with true. cbv iota. change (0 <? 0)%Z with false. change (-1 <? 0)%Z with true. cbv iota.
  set (n := length l) in *.
  assert (E1 : Z.max 0 (Z.min 0 (Z.of_nat n)) = 0%Z) by lia.
  assert (E2 : Z.max 0 (Z.min (-1 + Z.of_nat n) (Z.of_nat n)) = Z.of_nat (n - 1)) by lia.
  rewrite E1, E2, range_len_up by lia. rewrite Z.sub_0_r, Nat2Z.id.
  change 0%Z with (Z.of_nat 0). rewrite (map_range_from (nthF l) 0 (n - 1)). apply mk_ext. intros i _. reflexivity.
Qed.

(* a[-2::-1]: all but the last, reversed *)
Lemma slice_rev_front (l : list F) : l <> [] ->
  map (fun p => nthF l (Z.to_nat p)) (slice_positions (length l) (Some (-2)%Z) None (-1))
  = mk (length l - 1) (fun j => nthF l (length l - 1 - 1 - j)).
Proof.
  intros Hl. assert (Hn : (0 < length l)%nat) by (destruct l; [congruence|cbn [length]; lia]).
  unfold slice_positions. change (0 <? -1)%Z with false. cbv iota. change (-2 <? 0)%Z with true. cbv iota.
  set (n := length l) in *.
  assert (E : Z.max (-1) (Z.min (-2 + Z.of_nat n) (Z.of_nat n - 1)) = (Z.of_nat (0 + (n - 1)) - 1)%Z) by lia. rewrite E.
  rewrite range_len_down by lia. replace (Z.to_nat (Z.of_nat (0 + (n - 1)) - 1 - -1)) with (n - 1)%nat by lia.
  rewrite (map_range_from_down (nthF l) 0 (n - 1)). apply mk_ext. intros j _. f_equal.
Qed.

Lemma map2_mk (f : F -> F -> F) n (g h : nat -> F) : map2 f (mk n g) (mk n h) = mk n (fun j => f (g j) (h j)).
Proof.
  revert g h. induction n; intros g h; [reflexivity|]. rewrite !mk_S. cbn [map2]. f_equal. apply IHn.
Qed.
Lemma map2_snoc (f : F -> F -> F) (A B : list F) a b : length A = length B ->
  map2 f (A ++ [a]) (B ++ [b]) = map2 f A B ++ [f a b].
Proof.
  revert B. induction A as [|x A IH]; intros [|y B] H; cbn [length] in H; try lia; [reflexivity|].
  cbn [app map2]. f_equal. apply IH. lia.
Qed.
Lemma map_mk (f : F -> F) n (g : nat -> F) : map f (mk n g) = mk n (fun j => f (g j)).
Proof. unfold mk. apply map_map. Qed.
End Slices.

(* ---------------------------------------------------------------- the program *)
Definition levup_main : stmt :=
  SSeq (SIf (ECmp CNe (EIndex (EVar 0) (EInt 0)) (EInt 1)) (SRaise ValueError) SSkip)
  (SSeq (SAssign 0 (ESlice (EVar 0) (Some (EInt 1)) None None))
  (SSeq (SAssign 3 (EBin BAdd (EConcat (EVar 0) (EArrCons (EInt 0) EArrNil))
                              (EBin BMul (EVar 1) (EConcat (EConj (ESlice (EVar 0) (Some (ENeg (EInt 1))) None (Some (ENeg (EInt 1))))) (EArrCons (EInt 1) EArrNil)))))
  (SSeq (SAssign 4 ENone)
  (SSeq (SIf (ENot (EIsNone (EVar 2)))
           (SAssign 4 (EBin BMul (EBin BSub (ELit 1 0) (EDot (EConj (EVar 1)) (EVar 1))) (EVar 2)))
           SSkip)
  (SSeq (SAssign 3 (EInsert (EVar 3) (EInt 0) (EInt 1)))
        (SReturn [(EVar 3); (EVar 4)])))))).
Definition prog_levup_ref : program := mkProgram "levup" 3 [None; None; (Some ENone)] 5 levup_main.

Section Levup.
Context {F : Type} {OF : Ops F} {L : Laws OF}.
Variable feq : F -> F -> bool.
Variable stop : Z -> F -> F -> bool.
Local Open Scope F_scope.
Local Open Scope list_scope.
Add Field FFirup : (fth (O:=OF)).
Notation value := (@value F).
Notation store := (@store F).
Notation exec := (@exec F OF feq stop).

Ltac ev := cbn [LoopIR.exec LoopIR.eval eval_opt get set nth bind try asZ asArr asF ok err fst snd arith arithZ fop compare cmpF cmpZ eqne truthy
                eval_list Z.opp].

Lemma ofZ_1 : @ofZ F OF 1 = 1.
Proof. unfold ofZ. change (Pos.to_nat 1) with 1%nat. cbn [ofnat]. ring. Qed.
Lemma ofZ_0 : @ofZ F OF 0 = 0.
Proof. reflexivity. Qed.

(* the array part of the result *)
Lemma levup_array (a : list F) (k : F) :
  ofZ 1 :: map2 add (a ++ [ofZ 0])
                (map (fun x => k * x) (map conj (mk (length a) (fun j => nthF a (length a - 1 - j))) ++ [ofZ 1]))
  = 1 :: stepup a k.
Proof.
  rewrite ofZ_1. f_equal. unfold stepup.
  rewrite map_app, map_mk, map_mk. cbn [map].
  rewrite (list_eq_mk a) at 1.
  rewrite map2_snoc by (rewrite !mk_length; reflexivity).
  rewrite map2_mk. f_equal. rewrite ?ofZ_0, ?ofZ_1. f_equal. ring.
Qed.

Definition ve_arg (e : option F) : value := match e with Some z => VF z | None => VNone end.

Lemma levup_main_ok t (a0 : F) (a : list F) (k : F) (e : option F) :
  exists s',
    exec levup_main [VArr t (a0 :: a); VF k; ve_arg e; VUnbound; VUnbound]
    = (s', if negb (feq a0 1) then CErr ValueError
           else CRet [VArr false (1 :: stepup a k); match e with Some z => VF ((1 - conj k * k) * z) | None => VNone end]).
Proof.
  unfold levup_main.
  destruct (feq a0 1) eqn:E1; cbn [negb].
  2:{ eexists. apply exec_seq_stop; [|discriminate].
      ev. rewrite norm_index_ok by (cbn [length]; lia). ev. change (Z.to_nat 0) with 0%nat. rewrite nthF_cons0, ofZ_1, E1. reflexivity. }
  erewrite exec_seq.
  2:{ ev. rewrite norm_index_ok by (cbn [length]; lia). ev. change (Z.to_nat 0) with 0%nat. rewrite nthF_cons0, ofZ_1, E1. reflexivity. }
  erewrite exec_seq.
  2:{ ev. change (1 =? 0)%Z with false. cbv iota. rewrite (tl_slice (a0 :: a)) by discriminate. cbn [tl]. reflexivity. }
  erewrite exec_seq.
  2:{ ev. change (-1 =? 0)%Z with false. cbv iota. rewrite slice_rev_all. ev.
      repeat rewrite ?app_length, ?map_length, ?mk_length. rewrite Nat.eqb_refl. cbn [andb try]. rewrite andb_false_r. reflexivity. }
  erewrite exec_seq; [|ev; reflexivity].
  destruct e as [z|]; cbn [ve_arg]; eexists.
  - erewrite exec_seq; [|ev; cbn [negb]; ev; reflexivity].
    erewrite exec_seq.
    2:{ ev. change (0 <? 0)%Z with false. cbv iota. change (0 <=? 0)%Z with true. cbn [andb].
        match goal with |- context [(0 <=? ?n)%Z] => replace (0 <=? n)%Z with true by (symmetry; apply Z.leb_le; lia) end.
        change (Z.to_nat 0) with 0%nat. cbn [firstn skipn app]. rewrite levup_array. reflexivity. }
    ev. rewrite lit_1. reflexivity.
  - erewrite exec_seq; [|ev; cbn [negb]; ev; reflexivity].
    erewrite exec_seq.
    2:{ ev. change (0 <? 0)%Z with false. cbv iota. change (0 <=? 0)%Z with true. cbn [andb].
        match goal with |- context [(0 <=? ?n)%Z] => replace (0 <=? n)%Z with true by (symmetry; apply Z.leb_le; lia) end.
        change (Z.to_nat 0) with 0%nat. cbn [firstn skipn app]. rewrite levup_array. reflexivity. }
    ev. reflexivity.
Qed.

Theorem levup_ir_run t (acur : list F) (k : F) (e : option F) :
  run feq stop prog_levup_ref [Some (VArr t acur); Some (VF k); option_map VF e] =
  match acur with
  | [] => OErr IndexError
  | a0 :: _ =>
      if negb (feq a0 1) then OErr ValueError
      else ORet [VArr false (fst (levup acur k 0));
                 match e with Some z => VF (snd (levup acur k z)) | None => VNone end]
  end.
Proof.
  unfold run, prog_levup_ref. cbn [p_defaults p_body p_nslots p_nparams Nat.sub].
  assert (B : bind_args feq [None; None; Some ENone] [Some (VArr t acur); Some (VF k); option_map VF e]
              = inl [VArr t acur; VF k; ve_arg e]) by (destruct e; reflexivity).
  rewrite B. cbn [app repeat].
  destruct acur as [|a0 a].
  - unfold levup_main.
    rewrite (exec_seq_stop feq stop _ _ _ [VArr t []; VF k; ve_arg e; VUnbound; VUnbound] (CErr IndexError)); [reflexivity| |discriminate].
    ev. reflexivity.
  - destruct (levup_main_ok t a0 a k e) as [s' E]. rewrite E.
    destruct (feq a0 1); cbn [negb]; [|reflexivity]. unfold levup. cbn [fst snd tl]. reflexivity.
Qed.
End Levup.

Section LevupTie.
Context {F : Type} {OF : Ops F} {L : Laws OF}.
Variable feq : F -> F -> bool.
Hypothesis feq_refl : forall a, feq a a = true.
Local Open Scope F_scope.
Local Open Scope list_scope.

Lemma leq_refl' (l : list F) : leq feq l l = true.
Proof.
  unfold leq. rewrite Nat.eqb_refl. cbn [andb]. induction l as [|a l IH]; [reflexivity|].
  cbn [combine forallb fst snd]. rewrite feq_refl, IH. reflexivity.
Qed.

Theorem levup_ir_tie (acur : list F) (k : F) (e : option F) :
  acur <> [] -> tie_levup feq prog_levup_ref acur k e = true.
Proof.
  intros Hne. unfold tie_levup. rewrite (levup_ir_run feq (@nostop F) false acur k e).
  destruct acur as [|a0 a]; [congruence|]. rewrite nthF_cons0.
  destruct (feq a0 1); cbn [negb]; [|reflexivity].
  destruct e as [z|].
  - destruct (levup (a0 :: a) k z) as [a' e'] eqn:E. cbn [fst snd].
    replace (fst (levup (a0 :: a) k 0)) with a' by (unfold levup in *; inversion E; reflexivity).
    rewrite leq_refl', feq_refl. reflexivity.
  - destruct (levup (a0 :: a) k 0) as [a' e'] eqn:E. cbn [fst snd]. apply leq_refl'.
Qed.
End LevupTie.

(* BEGIN GENERATED levup (verbatim output of tools/props/_loopir.py for spectrum.levinson.levup) *)
(* levup: slots 0=acur 1=knxt 2=ecur 3=anxt 4=enxt *)
Definition prog_levup_gen0 : program := mkProgram "levup" 3 [None; None; (Some ENone)] 5
(SSeq (SIf (ECmp CNe (EIndex (EVar 0) (EInt 0)) (EInt 1))
(SRaise ValueError)
(SSkip))
(SSeq (SAssign 0 (ESlice (EVar 0) (Some (EInt 1)) None None))
(SSeq (SAssign 3 (EBin BAdd (EConcat (EVar 0) (EArrCons (EInt 0) EArrNil)) (EBin BMul (EVar 1) (EConcat (EConj (ESlice (EVar 0) (Some (ENeg (EInt 1))) None (Some (ENeg (EInt 1))))) (EArrCons (EInt 1) EArrNil)))))
(SSeq (SAssign 4 ENone)
(SSeq (SIf (ENot (EIsNone (EVar 2)))
(SAssign 4 (EBin BMul (EBin BSub (ELit 1 0) (EDot (EConj (EVar 1)) (EVar 1))) (EVar 2)))
(SSkip))
(SSeq (SAssign 3 (EInsert (EVar 3) (EInt 0) (EInt 1)))
(SReturn [(EVar 3); (EVar 4)]))))))).

(* END GENERATED levup *)
Example prog_levup_ref_is_generated : prog_levup_ref = prog_levup_gen0.
Proof. reflexivity. Qed.
