(* C03 — the subspace-dimension criteria of spectrum/criteria.py (aic_eigen, mdl_eigen), as coded:
       n = len(s);  for k in 0..n-2:
           ak = 1/(n-k) * sum(s[k+1:])                      (n-k-1 terms)
           gk = prod(s[k+1:] ** (1/(n-k)))                  (n-k-1 factors)
           AIC(k) = -2 (n-k) N ln(gk/ak) + 2 k (2n-k)       MDL(k) = -(n-k) N ln(gk/ak) + 0.5 k (2n-k) ln N
   Multiplying every singular value by m > 0 multiplies ak by m and gk by m^((n-k-1)/(n-k)), hence gk/ak by
   m^(-1/(n-k)) and EVERY entry of the criterion by the SAME additive constant (2 N ln m, resp. N ln m): all comparisons
   between entries, hence numpy.argmin, are unchanged.  Real numbers of the standard library. *)
From Coq Require Import Reals Lra List Lia.
Import ListNotations.
Local Open Scope R_scope.

Definition rsum (t : list R) : R := fold_right Rplus 0 t.
Definition rprodpow (t : list R) (e : R) : R := fold_right (fun x acc => Rpower x e * acc) 1 t.
Definition rsumln (t : list R) : R := fold_right (fun x acc => ln x + acc) 0 t.
Definition allpos (t : list R) : Prop := Forall (fun x => 0 < x) t.

Lemma rsum_scale m t : rsum (map (Rmult m) t) = m * rsum t.
Proof. induction t as [|a t IH]; cbn; [lra|]. fold (rsum (map (Rmult m) t)). fold (rsum t). rewrite IH. lra. Qed.
Lemma rsum_pos t : allpos t -> t <> [] -> 0 < rsum t.
Proof.
  intros H Hne. destruct t as [|a t]; [contradiction|]. clear Hne. revert a H. induction t as [|b t IH]; intros a H.
  - cbn. inversion H; subst. lra.
  - inversion H as [|? ? Ha Ht]; subst. specialize (IH b Ht). cbn in *. lra.
Qed.
Lemma rprodpow_pos t e : 0 < rprodpow t e.
Proof. induction t as [|a t IH]; cbn; [lra|]. apply Rmult_lt_0_compat; [apply exp_pos|exact IH]. Qed.
Lemma ln_rprodpow t e : ln (rprodpow t e) = e * rsumln t.
Proof.
  induction t as [|a t IH]; cbn; [rewrite ln_1; lra|].
  fold (rprodpow t e). fold (rsumln t).
  rewrite ln_mult by (first [apply exp_pos|apply rprodpow_pos]). rewrite IH. unfold Rpower. rewrite ln_exp. lra.
Qed.
Lemma rsumln_scale m t : 0 < m -> allpos t -> rsumln (map (Rmult m) t) = INR (length t) * ln m + rsumln t.
Proof.
  intros Hm H. induction H as [|a t Ha Ht IH]; [cbn; lra|].
  cbn [map rsumln fold_right length]. fold (rsumln (map (Rmult m) t)). fold (rsumln t).
  rewrite IH, ln_mult by assumption. rewrite S_INR. lra.
Qed.
Lemma allpos_scale m t : 0 < m -> allpos t -> allpos (map (Rmult m) t).
Proof. intros Hm H. induction H; constructor; [apply Rmult_lt_0_compat; assumption|assumption]. Qed.
Lemma allpos_skipn k t : allpos t -> allpos (skipn k t).
Proof. revert t. induction k; intros t H; [exact H|]. destruct t; [constructor|]. inversion H; subst. apply IHk. assumption. Qed.

(* ln(gk/ak) for the tail t = s[k+1:], d = n-k = len(t)+1 *)
Definition lnratio (t : list R) : R :=
  let d := INR (length t + 1) in ln (rprodpow t (/ d) / (/ d * rsum t)).
Lemma lnratio_scale m t : 0 < m -> allpos t -> t <> [] ->
  lnratio (map (Rmult m) t) = lnratio t - / INR (length t + 1) * ln m.
Proof.
  intros Hm H Hne. unfold lnratio. cbv zeta. rewrite map_length. set (d := INR (length t + 1)).
  assert (Hd : 0 < d) by (unfold d; apply lt_0_INR; lia).
  assert (Hid : 0 < / d) by (apply Rinv_0_lt_compat; exact Hd).
  assert (Hs : 0 < rsum t) by (apply rsum_pos; assumption).
  rewrite rsum_scale.
  unfold Rdiv. rewrite !ln_mult; try apply rprodpow_pos; try (apply Rinv_0_lt_compat; apply Rmult_lt_0_compat; [exact Hid|]);
    try (apply Rmult_lt_0_compat; assumption); try exact Hs.
  rewrite !ln_Rinv by (repeat apply Rmult_lt_0_compat; assumption).
  rewrite !ln_mult by (try apply Rmult_lt_0_compat; assumption).
  rewrite !ln_rprodpow, rsumln_scale by assumption.
  assert (El : INR (length t) = d - 1) by (unfold d; rewrite plus_INR; cbn; lra).
  rewrite El. field. lra.
Qed.

(* criteria.py, entry k (k <= n-2) *)
Definition aic_eigen_at (s : list R) (N : R) (k : nat) : R :=
  let n := length s in let t := skipn (S k) s in
  -2 * INR (n - k) * N * lnratio t + 2 * INR k * (2 * INR n - INR k).
Definition mdl_eigen_at (s : list R) (N : R) (k : nat) : R :=
  let n := length s in let t := skipn (S k) s in
  - INR (n - k) * N * lnratio t + 0.5 * INR k * (2 * INR n - INR k) * ln N.
Definition aic_eigen (s : list R) (N : R) : list R := map (aic_eigen_at s N) (seq 0 (length s - 1)).
Definition mdl_eigen (s : list R) (N : R) : list R := map (mdl_eigen_at s N) (seq 0 (length s - 1)).

Lemma tail_facts (s : list R) k : (k < length s - 1)%nat ->
  skipn (S k) s <> [] /\ (length (skipn (S k) s) + 1 = length s - k)%nat.
Proof.
  intros Hk. assert (L : length (skipn (S k) s) = (length s - S k)%nat) by apply skipn_length.
  split; [|lia]. intros E. rewrite E in L. cbn in L. lia.
Qed.
Lemma eigen_entry_shift m (s : list R) N k : 0 < m -> allpos s -> (k < length s - 1)%nat ->
  aic_eigen_at (map (Rmult m) s) N k = aic_eigen_at s N k + 2 * N * ln m
  /\ mdl_eigen_at (map (Rmult m) s) N k = mdl_eigen_at s N k + N * ln m.
Proof.
  intros Hm Hs Hk. unfold aic_eigen_at, mdl_eigen_at. cbv zeta. rewrite map_length.
  destruct (tail_facts s k Hk) as [Hne Hlen].
  rewrite skipn_map, lnratio_scale by (try assumption; apply allpos_skipn; exact Hs).
  rewrite Hlen.
  assert (Hd : 0 < INR (length s - k)) by (apply lt_0_INR; lia).
  split; field; lra.
Qed.
(* every entry of the criterion is shifted by the same constant *)
Theorem eigen_criteria_shift_thm m (s : list R) N : 0 < m -> allpos s ->
  aic_eigen (map (Rmult m) s) N = map (fun v => v + 2 * N * ln m) (aic_eigen s N)
  /\ mdl_eigen (map (Rmult m) s) N = map (fun v => v + N * ln m) (mdl_eigen s N).
Proof.
  intros Hm Hs. unfold aic_eigen, mdl_eigen. rewrite !map_length, !map_map.
  split; apply map_ext_in; intros k Hk; apply in_seq in Hk;
    destruct (eigen_entry_shift m s N k Hm Hs ltac:(lia)) as [E1 E2]; assumption.
Qed.
(* hence every comparison numpy.argmin makes is unchanged *)
Theorem eigen_criteria_order_thm m (s : list R) N k j : 0 < m -> allpos s ->
  (k < length s - 1)%nat -> (j < length s - 1)%nat ->
  (aic_eigen_at (map (Rmult m) s) N k < aic_eigen_at (map (Rmult m) s) N j <-> aic_eigen_at s N k < aic_eigen_at s N j)
  /\ (mdl_eigen_at (map (Rmult m) s) N k < mdl_eigen_at (map (Rmult m) s) N j <-> mdl_eigen_at s N k < mdl_eigen_at s N j).
Proof.
  intros Hm Hs Hk Hj.
  destruct (eigen_entry_shift m s N k Hm Hs Hk) as [A1 M1]. destruct (eigen_entry_shift m s N j Hm Hs Hj) as [A2 M2].
  rewrite A1, A2, M1, M2. split; split; intros H; lra.
Qed.
