(* Lemmas about the pipeline interpreter (Model/PipelineLib.v), valid for EVERY table:
   every step of a pipeline is a uniform scaling of the stored array, so
      stored m p real sbf s Sp = vscale (coef ...) (layout p real NFFT Sp),
   lengths of the layouts, the Range generators scale with the sampling rate, reachable states are
   consistent when the setters update the Range.  The theorems about the code are stated over the
   GENERATED table and re-proved on every run from these lemmas. *)
From Coq Require Import String.
Require Import Spectrum.Theory.Ops Spectrum.Theory.Sum Spectrum.Theory.Vec Spectrum.Model.PipelineLib.

Section PipelineTheory.
Context {F : Type} {OF : Ops F} {L : Laws OF}.
Local Open Scope F_scope.
Add Field FFpipe : (fth (O:=OF)).
Variable twopi : F.

Lemma pdiv_mul_inv (a b : F) : a / b = a * inv b.
Proof. apply (Fdiv_def (fth (O:=OF))). Qed.

(* ---------------- vscale ---------------- *)
Lemma vscale_length c (l : list F) : length (vscale c l) = length l.
Proof. unfold vscale. apply map_length. Qed.
Lemma vscale_vscale a b (l : list F) : vscale a (vscale b l) = vscale (a * b) l.
Proof. unfold vscale. rewrite map_map. apply map_ext. intros x. ring. Qed.
Lemma vscale_1 (l : list F) : vscale 1 l = l.
Proof. unfold vscale. rewrite <- (map_id l) at 2. apply map_ext. intros x. ring. Qed.
Lemma vscale_mk c n (f : nat -> F) : vscale c (mk n f) = mk n (fun j => c * f j).
Proof. unfold vscale, mk. rewrite map_map. reflexivity. Qed.
Lemma vscale_firstn c n (l : list F) : firstn n (vscale c l) = vscale c (firstn n l).
Proof. unfold vscale. apply firstn_map. Qed.
Lemma vscale_rev c (l : list F) : rev (vscale c l) = vscale c (rev l).
Proof. unfold vscale. symmetry. apply map_rev. Qed.
Lemma vscale_ext a b (l : list F) : a = b -> vscale a l = vscale b l.
Proof. intros ->. reflexivity. Qed.
Lemma vscale_eq1 c (l : list F) : c = 1 -> l = vscale c l.
Proof. intros ->. symmetry. apply vscale_1. Qed.

(* ---------------- stores commute with scalings ---------------- *)
Lemma two2one_vscale c (v : list F) : two2one (vscale c v) = vscale c (two2one v).
Proof.
  unfold two2one. rewrite vscale_length, vscale_mk. apply mk_ext; intros j Hj.
  rewrite nthF_vscale.
  destruct (j =? 0)%nat; destruct (Nat.even (length v) && (j =? length v / 2)%nat)%bool; rewrite ?pdiv_mul_inv; ring.
Qed.
Lemma ifftshift_vscale c (v : list F) : ifftshift (vscale c v) = vscale c (ifftshift v).
Proof.
  unfold ifftshift. rewrite vscale_length, vscale_mk. apply mk_ext; intros j Hj.
  destruct (j <? length v - length v / 2)%nat; apply nthF_vscale.
Qed.
Lemma do_store_vscale st NFFT c (v : list F) : do_store st NFFT (vscale c v) = vscale c (do_store st NFFT v).
Proof.
  destruct st as [|he ho fac flip| |]; cbn [do_store].
  - reflexivity.
  - rewrite vscale_firstn, !vscale_vscale.
    rewrite (vscale_ext (ofnat fac * c) (c * ofnat fac)) by ring. rewrite <- vscale_vscale.
    destruct flip; [apply vscale_rev|reflexivity].
  - apply two2one_vscale.
  - apply ifftshift_vscale.
Qed.
Lemma do_store_length st NFFT (v : list F) :
  length (do_store st NFFT v) =
  match st with
  | SAsIs | SCenter2Two => length v
  | SHalf he ho _ _ => Nat.min (if Nat.even NFFT then hi_eval he NFFT else hi_eval ho NFFT) (length v)
  | STwo2One => (length v / 2 + 1)%nat
  end.
Proof.
  destruct st as [|he ho fac flip| |]; cbn [do_store].
  - reflexivity.
  - destruct flip; rewrite ?rev_length, vscale_length, firstn_length; reflexivity.
  - unfold two2one. apply mk_length.
  - unfold ifftshift. apply mk_length.
Qed.

(* ---------------- every step is a scaling ---------------- *)
Lemma fresult_coef p sbf samp NFFT (Sp : list F) :
  fresult twopi p sbf samp NFFT Sp = vscale (fcoef twopi p sbf samp NFFT) Sp.
Proof.
  unfold fresult, fcoef.
  destruct (p_fsamp p), (p_fscale p); try destruct (flag_arg p sbf);
    rewrite ?vscale_vscale; first [apply vscale_ext; ring | apply vscale_eq1; ring].
Qed.
Lemma scale_step_coef m sbf dfv (psd : list F) g :
  scale_step twopi m sbf dfv psd g = vscale (gfac twopi m sbf dfv g) psd.
Proof.
  unfold scale_step, scale_method, gfac.
  destruct g, (negb (m_scale_guarded m) || sbf)%bool, sbf; rewrite ?vscale_1; reflexivity.
Qed.
Lemma run_scales_coef m gs sbf dfv (psd : list F) :
  run_scales twopi m gs sbf dfv psd = vscale (scoef twopi m gs sbf dfv) psd.
Proof.
  unfold run_scales. revert psd. induction gs as [|g gs IH]; intros psd; cbn [fold_left scoef].
  - symmetry. apply vscale_1.
  - rewrite IH, scale_step_coef, vscale_vscale. reflexivity.
Qed.

Theorem stored_coef m p real sbf (s : sstate) (Sp : list F) :
  stored twopi m p real sbf s Sp
  = vscale (coef twopi m p real sbf s (length (layout p real (st_NFFT s) Sp))) (layout p real (st_NFFT s) Sp).
Proof.
  unfold stored, coef, layout.
  rewrite fresult_coef, do_store_vscale, vscale_length, run_scales_coef, vscale_vscale. reflexivity.
Qed.
Lemma stored_length m p real sbf (s : sstate) (Sp : list F) :
  length (stored twopi m p real sbf s Sp) = length (layout p real (st_NFFT s) Sp).
Proof. rewrite stored_coef. apply vscale_length. Qed.

(* two pipelines runs over the same layout agree up to k as soon as their coefficients do *)
Lemma stored_ratio m p real sbf1 sbf2 (s1 s2 : sstate) (Sp : list F) (k : F) :
  st_NFFT s1 = st_NFFT s2 ->
  coef twopi m p real sbf1 s1 (length (layout p real (st_NFFT s2) Sp))
  = k * coef twopi m p real sbf2 s2 (length (layout p real (st_NFFT s2) Sp)) ->
  stored twopi m p real sbf1 s1 Sp = vscale k (stored twopi m p real sbf2 s2 Sp).
Proof.
  intros HN H. rewrite !stored_coef, vscale_vscale, HN. apply vscale_ext. exact H.
Qed.

(* ---------------- reachable states ---------------- *)
Lemma reachable_consistent m (s : @sstate F) :
  m_init_range_sampling m = true -> m_setsampling_updates_range m = true -> m_setnfft_updates_range m = true ->
  reachable m s -> st_range_sampling s = st_sampling s /\ st_range_N s = st_NFFT s.
Proof.
  intros H1 H2 H3 R. induction R as [samp0 samp NFFT|v s R [IH1 IH2]]; cbn; rewrite ?H1, ?H2, ?H3; auto.
Qed.

(* ---------------- the frequency axis ---------------- *)
Lemma df_scale c samp N : df (c * samp) N = c * df samp N.
Proof. unfold df. rewrite !pdiv_mul_inv. ring. Qed.
Lemma run_gen_scale g c samp N : run_gen g (c * samp) N = vscale c (run_gen g samp N).
Proof.
  induction g as [hi y|a IHa b IHb]; cbn [run_gen].
  - rewrite vscale_mk. apply mk_ext; intros j Hj. rewrite df_scale. ring.
  - destruct (Nat.even N); assumption.
Qed.
Lemma ofZ_of_nat (k : nat) : ofZ (Z.of_nat k) = ofnat k.
Proof.
  unfold ofZ. destruct (Z.ltb_spec (Z.of_nat k) 0); [lia|]. rewrite Nat2Z.id. reflexivity.
Qed.
Lemma to_nat_half_plus1 (N : nat) : Z.to_nat (Z.of_nat N / 2 + 1) = (N / 2 + 1)%nat.
Proof. change 2%Z with (Z.of_nat 2). rewrite <- Nat2Z.inj_div. lia. Qed.
Lemma to_nat_half_up (N : nat) : Z.to_nat ((Z.of_nat N + 1) / 2) = ((N + 1) / 2)%nat.
Proof.
  change 2%Z with (Z.of_nat 2). change 1%Z with (Z.of_nat 1). rewrite <- Nat2Z.inj_add, <- Nat2Z.inj_div. apply Nat2Z.id.
Qed.
Lemma of_nat_half (N : nat) : (Z.of_nat N / 2)%Z = Z.of_nat (N / 2).
Proof. change 2%Z with (Z.of_nat 2). symmetry. apply Nat2Z.inj_div. Qed.
End PipelineTheory.
