(* C11, line spectral frequencies: the deconvolutions poly2lsf performs are exact.
   deconvolve(num, d) for monic d returns the quotient q and the remainder num - q*d; the remainder
   can be non-zero only in its last len(d)-1 places; evaluation at z = 1 / z = -1 is multiplicative for
   the convolution, so the known roots of P1 and Q1 (LinPredLsf.v) force those places to vanish:
   P1 = P * d, Q1 = Q * d' exactly, and lsf2poly's algebra applied to the quotients returns a. *)
Require Import Spectrum.Theory.Ops Spectrum.Theory.Sum Spectrum.Theory.Vec Spectrum.Theory.Dft
               Spectrum.Model.Levinson Spectrum.Model.LinPred Spectrum.Proofs.LevinsonTheory Spectrum.Proofs.LinPredLsf.

Section Deconv.
Context {F : Type} {OF : Ops F} {L : Laws OF}.
Local Open Scope F_scope.
Add Field FFdc : (fth (O:=OF)).

Lemma deconv_q_length (num d : list F) n : length (deconv_q num d n) = n.
Proof. induction n; cbn [deconv_q]; [reflexivity|]. rewrite app_length, IHn. cbn. lia. Qed.
Lemma deconv_q_prefix (num d : list F) m : forall n i, (i < n <= m)%nat ->
  nthF (deconv_q num d m) i = nthF (deconv_q num d n) i.
Proof.
  induction m as [|m IH]; intros n i H; [lia|].
  destruct (Nat.eq_dec n (S m)) as [->|Hne]; [reflexivity|].
  cbn [deconv_q]. rewrite nthF_app_l by (rewrite deconv_q_length; lia). apply IH. lia.
Qed.
Lemma deconv_q_last (num d : list F) n :
  nthF (deconv_q num d (S n)) n
  = nthF num n - sumf n (fun i => nthF (deconv_q num d n) i * nthF d (n - i)).
Proof.
  cbn [deconv_q]. rewrite nthF_app_last' by apply deconv_q_length. rewrite sumL_mk. reflexivity.
Qed.
Lemma conv_length (x y : list F) : length (conv x y) = (length x + length y - 1)%nat.
Proof. apply mk_length. Qed.
Lemma conv_nth (x y : list F) n : (n < length x + length y - 1)%nat ->
  nthF (conv x y) n = sumf (S n) (fun i => nthF x i * nthF y (n - i)).
Proof. intros H. unfold conv. rewrite nth_mk by exact H. apply sumL_mk. Qed.

(* the quotient reproduces the leading coefficients of the numerator *)
Lemma conv_leading (num d : list F) nq m : nthF d 0 = 1 -> (1 <= length d)%nat -> (m < nq)%nat ->
  nthF (conv (deconv_q num d nq) d) m = nthF num m.
Proof.
  intros Hd Hld Hm. rewrite conv_nth by (rewrite deconv_q_length; lia).
  rewrite sumf_S, Nat.sub_diag, Hd.
  rewrite (deconv_q_prefix num d nq (S m) m) by lia. rewrite deconv_q_last.
  rewrite (sumf_ext m _ (fun i => nthF (deconv_q num d m) i * nthF d (m - i))).
  2:{ intros i Hi. f_equal. apply deconv_q_prefix. lia. }
  ring.
Qed.

(* evaluation with a multiplicative weight (w n = z^n) is multiplicative for the convolution *)
Lemma weighted_conv (w : nat -> F) (x y : list F) :
  (forall i j, w (i + j)%nat = w i * w j) -> (1 <= length x)%nat -> (1 <= length y)%nat ->
  sumf (length x + length y - 1) (fun n => w n * nthF (conv x y) n)
  = sumf (length x) (fun i => w i * nthF x i) * sumf (length y) (fun j => w j * nthF y j).
Proof.
  intros Hw Hx Hy. set (N := (length x + length y - 1)%nat).
  rewrite (sumf_ext N _ (fun n => sumf (S n) (fun i => w n * (nthF x i * nthF y (n - i))))).
  2:{ intros n Hn. rewrite conv_nth by exact Hn. rewrite sumf_scale. reflexivity. }
  rewrite (tri_exch N (fun n i => w n * (nthF x i * nthF y (n - i)))).
  rewrite (sumf_ext N _ (fun i => (w i * nthF x i) * sumf (N - i) (fun j => w j * nthF y j))).
  2:{ intros i Hi. rewrite <- sumf_scale. apply sumf_ext. intros j Hj.
      rewrite Hw. replace (j + i - i)%nat with j by lia. ring. }
  rewrite (sumf_le_ext (length x) N) by (unfold N; try lia; intros i Hi; rewrite (nthF_overflow x i) by lia; ring).
  rewrite <- sumf_scale_r. apply sumf_ext. intros i Hi. f_equal.
  apply sumf_le_ext; [unfold N; lia|]. intros j Hj. rewrite (nthF_overflow y j) by lia. ring.
Qed.

Lemma sgn_add i j : sgn (F:=F) (i + j) = sgn i * sgn j.
Proof. unfold sgn. rewrite Nat.even_add. destruct (Nat.even i), (Nat.even j); cbn; ring. Qed.
Lemma sgn_neq0 j : sgn (F:=F) j <> 0.
Proof.
  assert (H1 : (1 : F) <> 0) by exact (F_1_neq_0 (fth (O:=OF))).
  unfold sgn. destruct (Nat.even j); [exact H1|]. intros E. apply H1. transitivity (- - (1 : F)); [ring|rewrite E; ring].
Qed.
Lemma eval_p1_conv (x y : list F) : (1 <= length x)%nat -> (1 <= length y)%nat ->
  eval_p1 (conv x y) = eval_p1 x * eval_p1 y.
Proof.
  intros Hx Hy. unfold eval_p1. rewrite conv_length.
  assert (Hw1 : forall i j : nat, (1 : F) = 1 * 1) by (intros; ring).
  pose proof (weighted_conv (fun _ => 1) x y Hw1 Hx Hy) as H. cbv beta in H.
  rewrite (sumf_ext _ _ (fun n => 1 * nthF (conv x y) n)) by (intros; ring). rewrite H.
  f_equal; apply sumf_ext; intros; ring.
Qed.
Lemma eval_m1_conv (x y : list F) : (1 <= length x)%nat -> (1 <= length y)%nat ->
  eval_m1 (conv x y) = eval_m1 x * eval_m1 y.
Proof.
  intros Hx Hy. unfold eval_m1. rewrite conv_length. exact (weighted_conv sgn x y sgn_add Hx Hy).
Qed.

(* the remainder of deconv: zero in the leading places, and num = q*d + r *)
Lemma deconv_remainder_leading (num d : list F) j : nthF d 0 = 1 -> (1 <= length d <= length num)%nat ->
  (j < length num - length d + 1)%nat -> nthF (snd (deconv num d)) j = 0.
Proof.
  intros Hd Hl Hj. unfold deconv. cbn [snd]. rewrite nth_mk by lia. rewrite conv_leading by (assumption || lia). ring.
Qed.
Lemma deconv_split (num d : list F) j : (1 <= length d <= length num)%nat ->
  nthF num j = nthF (conv (fst (deconv num d)) d) j + nthF (snd (deconv num d)) j.
Proof.
  intros Hl. unfold deconv. cbn [fst snd].
  destruct (Nat.lt_ge_cases j (length num)) as [Hj|Hj].
  - rewrite nth_mk by exact Hj. ring.
  - rewrite nth_mk_ge by exact Hj. rewrite (nthF_overflow num j) by exact Hj.
    rewrite nthF_overflow by (rewrite conv_length, deconv_q_length; lia). ring.
Qed.
Lemma deconv_lengths (num d : list F) : (1 <= length d <= length num)%nat ->
  length (fst (deconv num d)) = (length num - length d + 1)%nat /\ length (snd (deconv num d)) = length num
  /\ length (conv (fst (deconv num d)) d) = length num.
Proof.
  intros Hl. unfold deconv. cbn [fst snd]. rewrite conv_length, deconv_q_length, mk_length. lia.
Qed.

Lemma eval_p1_add (x y z : list F) : length y = length x -> length z = length x ->
  (forall j, nthF x j = nthF y j + nthF z j) -> eval_p1 x = eval_p1 y + eval_p1 z.
Proof. intros Hy Hz H. unfold eval_p1. rewrite Hy, Hz, <- sumf_add. apply sumf_ext. intros; apply H. Qed.
Lemma eval_m1_add (x y z : list F) : length y = length x -> length z = length x ->
  (forall j, nthF x j = nthF y j + nthF z j) -> eval_m1 x = eval_m1 y + eval_m1 z.
Proof.
  intros Hy Hz H. unfold eval_m1. rewrite Hy, Hz, <- sumf_add. apply sumf_ext. intros j _. rewrite H. ring.
Qed.

Lemma all_zero_list (r : list F) : (forall j, nthF r j = 0) -> r = mk (length r) (fun _ => 0).
Proof.
  intros H. apply list_eq_nth; [rewrite mk_length; reflexivity|]. intros j Hj. rewrite nth_mk by exact Hj. apply H.
Qed.
Lemma conv_eq_of_zero_rem (num d : list F) : (1 <= length d <= length num)%nat ->
  (forall j, nthF (snd (deconv num d)) j = 0) -> conv (fst (deconv num d)) d = num.
Proof.
  intros Hl Hr. destruct (deconv_lengths num d Hl) as (_ & _ & Hc).
  apply list_eq_nth; [exact Hc|]. intros j _. rewrite (deconv_split num d j Hl), Hr. ring.
Qed.

(* division by z - 1: exact when the numerator vanishes at 1 *)
Theorem deconv_m1_exact (num : list F) : (2 <= length num)%nat -> eval_p1 num = 0 ->
  (forall j, nthF (snd (deconv num d_m1)) j = 0) /\ conv (fst (deconv num d_m1)) d_m1 = num.
Proof.
  intros Hlen H1.
  assert (Hl : (1 <= length (d_m1 (F:=F)) <= length num)%nat) by (cbn; lia).
  destruct (deconv_lengths num d_m1 Hl) as (Hq & Hr & Hc). cbn [d_m1 length] in Hq.
  set (q := fst (deconv num d_m1)) in *. set (r := snd (deconv num d_m1)) in *.
  assert (Hr0 : forall j, nthF r j = 0).
  { assert (E : eval_p1 num = eval_p1 (conv q d_m1) + eval_p1 r) by (apply eval_p1_add; [exact Hc|exact Hr|intros j; apply deconv_split; exact Hl]).
    rewrite eval_p1_conv in E by (rewrite ?Hq; cbn [d_m1 length]; lia).
    assert (Ed : eval_p1 (d_m1 (F:=F)) = 0) by (unfold eval_p1; cbn; unfold nthF; cbn; ring).
    rewrite Ed, H1 in E.
    assert (Er : eval_p1 r = nthF r (length num - 1)).
    { unfold eval_p1. rewrite Hr. replace (length num) with (S (length num - 1)) at 1 by lia. rewrite sumf_S.
      rewrite sumf_zero_ext; [ring|]. intros i Hi. apply deconv_remainder_leading; [reflexivity|exact Hl|cbn; lia]. }
    rewrite Er in E.
    assert (Elast : nthF r (length num - 1) = 0) by (transitivity (0 - eval_p1 q * 0); [rewrite E at 1; ring|ring]).
    intros j. destruct (Nat.lt_ge_cases j (length num - 1)) as [Hj|Hj].
    - apply deconv_remainder_leading; [reflexivity|exact Hl|cbn; lia].
    - destruct (Nat.eq_dec j (length num - 1)) as [->|Hne]; [exact Elast|]. apply nthF_overflow. lia. }
  split; [exact Hr0|]. apply conv_eq_of_zero_rem; assumption.
Qed.

(* division by z + 1: exact when the numerator vanishes at -1 *)
Theorem deconv_p1_exact (num : list F) : (2 <= length num)%nat -> eval_m1 num = 0 ->
  (forall j, nthF (snd (deconv num d_p1)) j = 0) /\ conv (fst (deconv num d_p1)) d_p1 = num.
Proof.
  intros Hlen H1.
  assert (Hl : (1 <= length (d_p1 (F:=F)) <= length num)%nat) by (cbn; lia).
  destruct (deconv_lengths num d_p1 Hl) as (Hq & Hr & Hc). cbn [d_p1 length] in Hq.
  set (q := fst (deconv num d_p1)) in *. set (r := snd (deconv num d_p1)) in *.
  assert (Hr0 : forall j, nthF r j = 0).
  { assert (E : eval_m1 num = eval_m1 (conv q d_p1) + eval_m1 r) by (apply eval_m1_add; [exact Hc|exact Hr|intros j; apply deconv_split; exact Hl]).
    rewrite eval_m1_conv in E by (rewrite ?Hq; cbn [d_p1 length]; lia).
    assert (Ed : eval_m1 (d_p1 (F:=F)) = 0) by (unfold eval_m1, sgn; cbn; unfold nthF; cbn; ring).
    rewrite Ed, H1 in E.
    assert (Er : eval_m1 r = sgn (length num - 1) * nthF r (length num - 1)).
    { unfold eval_m1. rewrite Hr. replace (length num) with (S (length num - 1)) at 1 by lia. rewrite sumf_S.
      assert (Hlead : forall i, (i < length num - 1)%nat -> nthF r i = 0).
      { intros i Hi. apply deconv_remainder_leading; [reflexivity|exact Hl|cbn; lia]. }
      rewrite sumf_zero_ext by (intros i Hi; rewrite Hlead by exact Hi; ring). ring. }
    rewrite Er in E.
    assert (Elast : nthF r (length num - 1) = 0).
    { apply (mul_cancel_l (sgn (length num - 1))); [|apply sgn_neq0].
      transitivity (0 - eval_m1 q * 0); [rewrite E at 1; ring|ring]. }
    intros j. destruct (Nat.lt_ge_cases j (length num - 1)) as [Hj|Hj].
    - apply deconv_remainder_leading; [reflexivity|exact Hl|cbn; lia].
    - destruct (Nat.eq_dec j (length num - 1)) as [->|Hne]; [exact Elast|]. apply nthF_overflow. lia. }
  split; [exact Hr0|]. apply conv_eq_of_zero_rem; assumption.
Qed.

(* division by z^2 - 1: exact when the numerator vanishes at 1 and at -1 *)
Theorem deconv_pm_exact (num : list F) : (3 <= length num)%nat -> eval_p1 num = 0 -> eval_m1 num = 0 ->
  (forall j, nthF (snd (deconv num d_pm)) j = 0) /\ conv (fst (deconv num d_pm)) d_pm = num.
Proof.
  intros Hlen H1 H2.
  assert (Hl : (1 <= length (d_pm (F:=F)) <= length num)%nat) by (cbn; lia).
  destruct (deconv_lengths num d_pm Hl) as (Hq & Hr & Hc). cbn [d_pm length] in Hq.
  set (q := fst (deconv num d_pm)) in *. set (r := snd (deconv num d_pm)) in *.
  set (n := (length num - 2)%nat).
  assert (Hlead : forall i, (i < n)%nat -> nthF r i = 0).
  { intros i Hi. apply deconv_remainder_leading; [reflexivity|exact Hl|cbn; unfold n in Hi; lia]. }
  assert (Hr0 : forall j, nthF r j = 0).
  { assert (E1 : eval_p1 num = eval_p1 (conv q d_pm) + eval_p1 r) by (apply eval_p1_add; [exact Hc|exact Hr|intros j; apply deconv_split; exact Hl]).
    assert (E2 : eval_m1 num = eval_m1 (conv q d_pm) + eval_m1 r) by (apply eval_m1_add; [exact Hc|exact Hr|intros j; apply deconv_split; exact Hl]).
    rewrite eval_p1_conv in E1 by (rewrite ?Hq; cbn [d_pm length]; lia).
    rewrite eval_m1_conv in E2 by (rewrite ?Hq; cbn [d_pm length]; lia).
    assert (Ed1 : eval_p1 (d_pm (F:=F)) = 0) by (unfold eval_p1; cbn; unfold nthF; cbn; ring).
    assert (Ed2 : eval_m1 (d_pm (F:=F)) = 0) by (unfold eval_m1, sgn; cbn; unfold nthF; cbn; ring).
    rewrite Ed1, H1 in E1. rewrite Ed2, H2 in E2.
    assert (Er1 : eval_p1 r = nthF r n + nthF r (S n)).
    { unfold eval_p1. rewrite Hr. replace (length num) with (S (S n)) by (unfold n; lia). rewrite !sumf_S.
      rewrite sumf_zero_ext by exact Hlead. ring. }
    assert (Er2 : eval_m1 r = sgn n * (nthF r n - nthF r (S n))).
    { unfold eval_m1. rewrite Hr. replace (length num) with (S (S n)) by (unfold n; lia). rewrite !sumf_S.
      rewrite sumf_zero_ext by (intros i Hi; rewrite Hlead by exact Hi; ring).
      replace (S n) with (n + 1)%nat by lia. rewrite sgn_add. unfold sgn at 3. cbn. ring. }
    rewrite Er1 in E1. rewrite Er2 in E2.
    assert (Es : nthF r n + nthF r (S n) = 0) by (transitivity (0 - eval_p1 q * 0); [rewrite E1 at 1; ring|ring]).
    assert (Ed : nthF r n - nthF r (S n) = 0).
    { apply (mul_cancel_l (sgn n)); [|apply sgn_neq0]. transitivity (0 - eval_m1 q * 0); [rewrite E2 at 1; ring|ring]. }
    assert (Ea : nthF r n = 0).
    { apply (mul_cancel_l (1 + 1)); [|apply two_neq_0].
      transitivity ((nthF r n + nthF r (S n)) + (nthF r n - nthF r (S n))); [ring|rewrite Es, Ed; ring]. }
    assert (Eb : nthF r (S n) = 0).
    { transitivity ((nthF r n + nthF r (S n)) - nthF r n); [ring|rewrite Es, Ea; ring]. }
    intros j. destruct (Nat.lt_ge_cases j n) as [Hj|Hj]; [apply Hlead; exact Hj|].
    destruct (Nat.eq_dec j n) as [->|Hn]; [exact Ea|].
    destruct (Nat.eq_dec j (S n)) as [->|Hn']; [exact Eb|]. apply nthF_overflow. unfold n in *. lia. }
  split; [exact Hr0|]. apply conv_eq_of_zero_rem; assumption.
Qed.
End Deconv.

Section LsfExact.
Context {F : Type} {OF : Ops F} {L : Laws OF}.
Local Open Scope F_scope.

(* the deconvolutions of poly2lsf leave no remainder: P1 = P * d and Q1 = Q * d' exactly *)
Theorem lsf_division_exact_thm (a : list F) : (1 <= length a)%nat ->
  let p := (length a - 1)%nat in
  (if Nat.odd p then conv (fst (fst (lsf_PQ a))) d_pm else conv (fst (fst (lsf_PQ a))) d_m1) = lsf_P1 a /\
  (if Nat.odd p then fst (snd (lsf_PQ a)) else conv (fst (snd (lsf_PQ a))) d_p1) = lsf_Q1 a /\
  (forall j, nthF (snd (fst (lsf_PQ a))) j = 0) /\ (forall j, nthF (snd (snd (lsf_PQ a))) j = 0).
Proof.
  intros Hlen p. unfold lsf_PQ. fold p. destruct (Nat.odd p) eqn:Hodd; cbn [fst snd].
  - assert (Hp : (1 <= p)%nat) by (destruct p; [discriminate|lia]).
    destruct (deconv_pm_exact (lsf_P1 a)) as (Hr & Hc).
    + rewrite lsf_P1_length. unfold p in Hp. lia.
    + apply lsf_P1_root_p1_thm.
    + apply lsf_P1_root_m1_thm; [exact Hodd|exact Hlen].
    + repeat split; [exact Hc|exact Hr|]. intros j. destruct j; reflexivity.
  - destruct (deconv_m1_exact (lsf_P1 a)) as (Hr & Hc).
    + rewrite lsf_P1_length. lia.
    + apply lsf_P1_root_p1_thm.
    + destruct (deconv_p1_exact (lsf_Q1 a)) as (Hr' & Hc').
      * rewrite lsf_Q1_length. lia.
      * apply lsf_Q1_root_m1_thm; [exact Hodd|exact Hlen].
      * repeat split; assumption.
Qed.

(* poly2lsf's algebra followed by lsf2poly's algebra is the identity (the root finder and numpy.poly in
   between are assumed to reproduce the same monic polynomials P and Q) *)
Theorem lsf_algebra_roundtrip_thm (a : list F) : (1 <= length a)%nat ->
  lsf_combine (length a - 1) (fst (fst (lsf_PQ a))) (fst (snd (lsf_PQ a))) = a.
Proof.
  intros Hlen. destruct (lsf_division_exact_thm a Hlen) as (HP & HQ & _).
  apply lsf_combine_sumdiff_thm; assumption.
Qed.
End LsfExact.
