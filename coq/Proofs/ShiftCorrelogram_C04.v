(* C04 — CORRELOGRAMPSD (auto-correlogram, both correlation back ends, every normalisation, every lag / NFFT
   the code accepts, overlapping layouts included):
     modulated data  => bins rotated by m
     conjugated data => bins mirrored            (real lag window; characteristic 0; 'coeff': rms product real, nonzero)
     conj(reversed)  => same bins                                                                      *)
Require Import Spectrum.Theory.Ops Spectrum.Theory.Sum Spectrum.Theory.Vec Spectrum.Theory.Dft
               Spectrum.Model.Levinson Spectrum.Model.Corr Spectrum.Model.Periodogram
               Spectrum.Proofs.CorrTheory Spectrum.Proofs.ShiftTheory Spectrum.Proofs.PeriodogramTheory
               Spectrum.Proofs.CorrelogramTheory Spectrum.Proofs.ShiftDft_C04 Spectrum.Proofs.ShiftPeriodogram_C04.

Section CorrPos.
Context {F : Type} {OF : Ops F} {L : Laws OF}.
Local Open Scope F_scope.
Add Field FFsc : (fth (O:=OF)).

(* the value both back ends deliver at lag d >= 0 from the lag sum s *)
Definition cpn (be : backend) (rp : F) (N d : nat) (nm : cnorm) (s : F) : F :=
  match be with
  | BCorrelation =>
      match d, nm with
      | O, Biased | O, Unbiased => s / ofnat N
      | O, NoNorm => s
      | O, Coeff => 1
      | S _, Unbiased => s / ofnat (N - d)
      | S _, Biased => s / ofnat N
      | S _, NoNorm => s
      | S _, Coeff => s / rp / ofnat N
      end
  | BXcorr =>
      match nm with
      | Biased => s / ofnat N
      | Unbiased => s / ofnat (N - d)
      | Coeff => s / rp / ofnat N
      | NoNorm => s
      end
  end.

Lemma corr_pos_nth be rp (x y : list F) lag nm : length y = length x -> (lag < length x)%nat ->
  exists r, corr_pos be rp x y lag nm = Some r /\ length r = S lag /\
    forall d, (d <= lag)%nat -> nthF r d = cpn be rp (length x) d nm (lag_sum (length x) x y d).
Proof.
  intros Hy Hlag. destruct be; unfold corr_pos.
  - unfold xcorr. cbv zeta. rewrite Hy, Nat.eqb_refl. cbn [negb orb].
    destruct (Nat.ltb_spec (length x) lag); [lia|].
    eexists. split; [reflexivity|]. split; [rewrite skipn_length, mk_length; lia|].
    intros d Hd. rewrite nthF_skipn. rewrite nth_mk by lia.
    unfold xlag. replace (Z.of_nat (lag + d) - Z.of_nat lag)%Z with (Z.of_nat d) by lia.
    destruct (Z.leb_spec 0 (Z.of_nat d)); [|lia]. rewrite Z.abs_eq by lia. rewrite !Nat2Z.id. reflexivity.
  - unfold correlation. cbv zeta. rewrite Hy, Nat.max_id.
    destruct (Nat.ltb_spec lag (length x)); [|lia].
    eexists. split; [reflexivity|]. split; [apply mk_length|].
    intros d Hd. rewrite nth_mk by lia. reflexivity.
Qed.

Lemma cpn_scale be rp N d nm (c s : F) : (d = O -> c = 1) -> cpn be rp N d nm (c * s) = c * cpn be rp N d nm s.
Proof.
  intros Hc. unfold cpn. rewrite !(Fdiv_def (fth (O:=OF))).
  destruct be, d, nm; try ring; rewrite Hc by reflexivity; ring.
Qed.
Lemma cpn_conj be rp N d nm (s : F) : (d < N)%nat -> (forall k, (1 <= k)%nat -> ofnat k <> 0) ->
  (nm = Coeff -> isreal rp /\ rp <> 0) ->
  cpn be rp N d nm (conj s) = conj (cpn be rp N d nm s).
Proof.
  intros Hd Hch Hrp. unfold cpn.
  assert (HN : ofnat N <> 0) by (apply Hch; lia).
  assert (HNd : ofnat (N - d) <> 0) by (apply Hch; lia).
  assert (Hc : nm = Coeff -> forall a, conj (a / rp / ofnat N) = conj a / rp / ofnat N).
  { intros E a. destruct (Hrp E) as [Hr Hr0]. rewrite !conj_div, conj_ofnat, Hr by assumption. reflexivity. }
  destruct be, d, nm;
    first [reflexivity | rewrite Hc by reflexivity; reflexivity
          | rewrite conj_div, conj_ofnat by assumption; reflexivity | symmetry; apply conj_1].
Qed.
End CorrPos.

Section Buffer.
Context {F : Type} {OF : Ops F} {L : Laws OF}.
Local Open Scope F_scope.
Add Field FFsb : (fth (O:=OF)).

(* the array that CORRELOGRAMPSD transforms (auto-correlogram: ryx = rxy) *)
Definition cbuf (n lag : nat) (r w : list F) : list F :=
  let p0 := set_nth 0 (nthF r 0) (mk n (fun _ => 0)) in
  let p1 := writes lag (fun t => (1 + t)%nat) (fun t => nthF r (1 + t) * nthF w t) p0 in
  let p2 := writes lag (fun t => (n - 1 - t)%nat) (fun t => conj (nthF r (1 + t)) * nthF w t) p1 in
  if (n <? lag + 1)%nat then p0 else p2.
Lemma cbuf_length n lag (r w : list F) : length (cbuf n lag r w) = n.
Proof. unfold cbuf. cbv zeta. destruct (n <? lag + 1)%nat; rewrite ?writes_length, set_nth_length, mk_length; reflexivity. Qed.

Lemma correlogram_auto_unfold tw rp (x : list F) lag wfull NFFT nm be :
  correlogram tw rp x None lag wfull NFFT nm be =
  let n := resolve NFFT (length x) in
  if negb (lag <? length x)%nat then None
  else if (n =? 0)%nat then None
  else if (n <? lag + 1)%nat && negb (lag =? 1)%nat then None
  else option_map (fun r => map re (dft tw n (cbuf n lag r (skipn (lag + 1) wfull)))) (corr_pos be rp x x lag nm).
Proof.
  unfold correlogram. cbv zeta.
  destruct (negb (lag <? length x)%nat); [reflexivity|].
  destruct (resolve NFFT (length x) =? 0)%nat; [reflexivity|].
  destruct ((resolve NFFT (length x) <? lag + 1)%nat && negb (lag =? 1)%nat); [reflexivity|].
  destruct (corr_pos be rp x x lag nm); reflexivity.
Qed.

Lemma set_nth_ge i v (l : list F) : (length l <= i)%nat -> set_nth i v l = l.
Proof.
  revert i; induction l; intros i H; [destruct i; reflexivity|]. destruct i; cbn in H; [lia|].
  cbn [set_nth]. rewrite IHl by lia. reflexivity.
Qed.
Lemma set_nth_map (g : F -> F) i v (l : list F) : set_nth i (g v) (map g l) = map g (set_nth i v l).
Proof. revert i; induction l; intros i; [destruct i; reflexivity|]. destruct i; cbn [set_nth map]; [reflexivity|]. rewrite IHl. reflexivity. Qed.
Lemma writes_map (g : F -> F) n idx (v v' : nat -> F) (l : list F) : (forall t, (t < n)%nat -> v' t = g (v t)) ->
  writes n idx v' (map g l) = map g (writes n idx v l).
Proof.
  induction n; intros H; [reflexivity|]. cbn [writes]. rewrite IHn by (intros; apply H; lia).
  rewrite H by lia. apply set_nth_map.
Qed.

Section Mod.
Variable phi : Z -> F.
Lemma set_nth_vmod i v (l : list F) : set_nth i (v * phi (Z.of_nat i + 0)) (vmod phi 0 l) = vmod phi 0 (set_nth i v l).
Proof.
  destruct (Nat.lt_ge_cases i (length l)) as [Hi|Hi].
  - apply list_eq_nth; [rewrite set_nth_length, !vmod_length, set_nth_length; reflexivity|].
    intros j Hj. rewrite nth_set_nth by (rewrite vmod_length; exact Hi).
    rewrite !nthF_vmod. rewrite nth_set_nth by exact Hi.
    destruct (Nat.eqb_spec j i) as [->|]; reflexivity.
  - rewrite !set_nth_ge by (rewrite ?vmod_length; exact Hi). reflexivity.
Qed.
Lemma writes_vmod n idx (v v' : nat -> F) (l : list F) : (forall t, (t < n)%nat -> v' t = v t * phi (Z.of_nat (idx t) + 0)) ->
  writes n idx v' (vmod phi 0 l) = vmod phi 0 (writes n idx v l).
Proof.
  induction n; intros H; [reflexivity|]. cbn [writes]. rewrite IHn by (intros; apply H; lia).
  rewrite H by lia. apply set_nth_vmod.
Qed.
Hypothesis phi_0 : phi 0%Z = 1.
Hypothesis phi_cj : forall a : Z, conj (phi a) = phi (- a)%Z.
Lemma zeros_vmod n : mk n (fun _ => (0 : F)) = vmod phi 0 (mk n (fun _ => 0)).
Proof.
  apply list_eq_nth; [rewrite vmod_length; reflexivity|]. intros j Hj. rewrite mk_length in Hj.
  rewrite nthF_vmod, !nth_mk by exact Hj. ring.
Qed.
(* phi is n-periodic: the entry written at n-1-t carries phi(-(1+t)) = phi(n-1-t) *)
Lemma cbuf_vmod n lag (r w : list F) : (forall a, phi (a + Z.of_nat n)%Z = phi a) ->
  cbuf n lag (vmod phi 0 r) w = vmod phi 0 (cbuf n lag r w).
Proof.
  intros Hper. unfold cbuf. cbv zeta.
  assert (E0 : set_nth 0 (nthF (vmod phi 0 r) 0) (mk n (fun _ => 0)) = vmod phi 0 (set_nth 0 (nthF r 0) (mk n (fun _ => 0)))).
  { rewrite (zeros_vmod n) at 1. rewrite nthF_vmod. apply set_nth_vmod. }
  destruct (Nat.ltb_spec n (lag + 1)) as [H|H]; [exact E0|].
  rewrite E0. rewrite (writes_vmod lag (fun t => (1 + t)%nat) (fun t => nthF r (1 + t) * nthF w t)).
  2:{ intros t Ht. rewrite nthF_vmod. ring. }
  apply writes_vmod. intros t Ht. rewrite nthF_vmod, conj_mul, phi_cj.
  replace (Z.of_nat (n - 1 - t) + 0)%Z with (- (Z.of_nat (1 + t) + 0) + Z.of_nat n)%Z by lia. rewrite Hper. ring.
Qed.
End Mod.

Lemma cbuf_conj n lag (r w : list F) : (forall t, isreal (nthF w t)) -> cbuf n lag (vconj r) w = vconj (cbuf n lag r w).
Proof.
  intros Hw. unfold cbuf. cbv zeta.
  assert (Ez : mk n (fun _ => (0 : F)) = vconj (mk n (fun _ => 0))).
  { apply list_eq_nth; [rewrite vconj_length; reflexivity|]. intros j Hj. rewrite mk_length in Hj.
    rewrite nthF_vconj, !nth_mk by exact Hj. symmetry. apply conj_0. }
  assert (E0 : set_nth 0 (nthF (vconj r) 0) (mk n (fun _ => 0)) = vconj (set_nth 0 (nthF r 0) (mk n (fun _ => 0)))).
  { rewrite Ez at 1. rewrite nthF_vconj. apply set_nth_map. }
  destruct (n <? lag + 1)%nat; [exact E0|]. rewrite E0. unfold vconj.
  rewrite (writes_map conj lag _ (fun t => nthF r (1 + t) * nthF w t)).
  2:{ intros t Ht. rewrite conj_mul, (Hw t). fold (vconj r). rewrite nthF_vconj. reflexivity. }
  apply writes_map. intros t Ht. rewrite conj_mul, (Hw t). fold (vconj r). rewrite nthF_vconj. reflexivity.
Qed.
End Buffer.

Section ShiftCor.
Context {F : Type} {OF : Ops F} {L : Laws OF}.
Context (n : nat) (tw : Z -> F) {T : Twiddle n tw} (n_pos : (0 < n)%nat).
Local Open Scope F_scope.
Add Field FFsc2 : (fth (O:=OF)).

Lemma re_conj (z : F) : re (conj z) = re z.
Proof. unfold re. rewrite conj_conj. f_equal. ring. Qed.

Theorem correlogram_shift_thm rp (x : list F) lag wfull NFFT nm be (m : Z) :
  resolve NFFT (length x) = n ->
  correlogram tw rp (vmod (sphase tw m) 0 x) None lag wfull NFFT nm be
  = option_map (rot m) (correlogram tw rp x None lag wfull NFFT nm be).
Proof.
  intros Hres. rewrite !correlogram_auto_unfold. cbv zeta. rewrite vmod_length, Hres.
  destruct (Nat.ltb_spec lag (length x)) as [Hlag|Hlag]; cbn [negb]; [|reflexivity].
  destruct (n =? 0)%nat; [reflexivity|].
  destruct ((n <? lag + 1)%nat && negb (lag =? 1)%nat); [reflexivity|].
  set (phi := sphase tw m).
  destruct (corr_pos_nth be rp x x lag nm eq_refl Hlag) as (r & Hr & Hrl & Hrd).
  destruct (corr_pos_nth be rp (vmod phi 0 x) (vmod phi 0 x) lag nm eq_refl) as (r' & Hr' & Hrl' & Hrd'); [rewrite vmod_length; exact Hlag|].
  rewrite Hr, Hr'. cbn [option_map]. f_equal.
  assert (E : r' = vmod phi 0 r).
  { apply list_eq_nth; [rewrite vmod_length; lia|]. intros d Hd. rewrite Hrl' in Hd.
    rewrite nthF_vmod, Hrd', Hrd by lia. rewrite vmod_length.
    rewrite (lag_sum_mod phi (sphase_add n tw n_pos m) (sphase_cj n tw n_pos m)).
    rewrite cpn_scale; [rewrite Z.add_0_r; ring|]. intros ->. apply (sphase_0 n tw). }
  rewrite E. rewrite (cbuf_vmod phi (sphase_cj n tw n_pos m)) by (apply (sphase_per n tw n_pos)).
  unfold phi. rewrite (dft_list_shift n tw n_pos). symmetry. apply rot_map.
Qed.

Theorem correlogram_mirror_thm rp (x : list F) lag wfull NFFT nm be :
  resolve NFFT (length x) = n -> (forall t, isreal (nthF wfull t)) ->
  (forall k, (1 <= k)%nat -> ofnat k <> 0) -> (nm = Coeff -> isreal rp /\ rp <> 0) ->
  correlogram tw rp (vconj x) None lag wfull NFFT nm be
  = option_map mirror (correlogram tw rp x None lag wfull NFFT nm be).
Proof.
  intros Hres Hw Hch Hrp. rewrite !correlogram_auto_unfold. cbv zeta. rewrite vconj_length, Hres.
  destruct (Nat.ltb_spec lag (length x)) as [Hlag|Hlag]; cbn [negb]; [|reflexivity].
  destruct (n =? 0)%nat; [reflexivity|].
  destruct ((n <? lag + 1)%nat && negb (lag =? 1)%nat); [reflexivity|].
  destruct (corr_pos_nth be rp x x lag nm eq_refl Hlag) as (r & Hr & Hrl & Hrd).
  destruct (corr_pos_nth be rp (vconj x) (vconj x) lag nm eq_refl) as (r' & Hr' & Hrl' & Hrd'); [rewrite vconj_length; exact Hlag|].
  rewrite Hr, Hr'. cbn [option_map]. f_equal.
  assert (E : r' = vconj r).
  { apply list_eq_nth; [rewrite vconj_length; lia|]. intros d Hd. rewrite Hrl' in Hd.
    rewrite nthF_vconj, Hrd', Hrd by lia. rewrite vconj_length.
    rewrite <- cpn_conj by (try assumption; lia). f_equal.
    rewrite !lag_sum_sumf, sumf_conj. apply sumf_ext; intros j _. rewrite !nthF_vconj, conj_mul. reflexivity. }
  rewrite E. rewrite cbuf_conj by (intros t; rewrite nthF_skipn; apply Hw).
  rewrite (dft_list_conj n tw n_pos). unfold vconj. rewrite map_map, mirror_map.
  apply map_ext. intros a. apply re_conj.
Qed.

End ShiftCor.

Section RevCor.
Context {F : Type} {OF : Ops F} {L : Laws OF}.
Local Open Scope F_scope.
Add Field FFsc3 : (fth (O:=OF)).
Theorem correlogram_reversal_thm (tw : Z -> F) rp (x : list F) lag wfull NFFT nm be :
  correlogram tw rp (vrevconj x) None lag wfull NFFT nm be = correlogram tw rp x None lag wfull NFFT nm be.
Proof.
  rewrite !correlogram_auto_unfold. cbv zeta. rewrite vrevconj_length.
  destruct (Nat.ltb_spec lag (length x)) as [Hlag|Hlag]; cbn [negb]; [|reflexivity].
  destruct (resolve NFFT (length x) =? 0)%nat; [reflexivity|].
  destruct ((resolve NFFT (length x) <? lag + 1)%nat && negb (lag =? 1)%nat); [reflexivity|].
  destruct (corr_pos_nth be rp x x lag nm eq_refl Hlag) as (r & Hr & Hrl & Hrd).
  destruct (corr_pos_nth be rp (vrevconj x) (vrevconj x) lag nm eq_refl) as (r' & Hr' & Hrl' & Hrd'); [rewrite vrevconj_length; exact Hlag|].
  rewrite Hr, Hr'. cbn [option_map]. f_equal.
  assert (E : r' = r).
  { apply list_eq_nth; [lia|]. intros d Hd. rewrite Hrl' in Hd.
    rewrite Hrd', Hrd by lia. rewrite vrevconj_length. f_equal.
    set (N := length x). rewrite !lag_sum_sumf. rewrite (sumf_rev (N - d)). apply sumf_ext; intros j Hj.
    unfold vrevconj. fold N. rewrite !nth_mk by lia. rewrite conj_conj.
    rewrite (Rmul_comm (F_R (fth (O:=OF)))). f_equal; [f_equal; lia|f_equal; f_equal; lia]. }
  rewrite E. reflexivity.
Qed.
End RevCor.
