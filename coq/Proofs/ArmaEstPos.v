(* Yule-Walker positivity in a formally real *-field: for the biased autocorrelation of a
   sequence that is not identically zero, N * P_m = sum_n |(X a_m)_n|^2 with X the
   'autocorrelation' data matrix, and the row of the first non-zero sample contributes |x_n0|^2.
   Hence every stage power of the Levinson recursion inside aryule is > 0, the recursion (run with
   allow_singularity=True) solves the Yule-Walker equations, and the variance returned by ma is > 0. *)
Require Import Spectrum.Theory.Ops Spectrum.Theory.Sum Spectrum.Theory.Vec Spectrum.Theory.Order
               Spectrum.Model.Levinson Spectrum.Model.Corr Spectrum.Model.ArmaEst
               Spectrum.Proofs.LevinsonTheory Spectrum.Proofs.CorrTheory Spectrum.Proofs.ArmaEstTheory.

Section Pos.
Context {F : Type} {OF : Ops F} {L : Laws OF} {OL : OrdLaws OF}.
Local Open Scope F_scope.
Add Field FFpos : (fth (O:=OF)).

(* c^H (X^H X) c = sum_n |(X c)_n|^2 for any K x (m+1) matrix *)
Lemma quad_form_sumsq (K m : nat) (X : nat -> nat -> F) (c : nat -> F) :
  sumf (S m) (fun i => sumf (S m) (fun j => conj (c i) * sumf K (fun n => conj (X n i) * X n j) * c j))
  = sumf K (fun n => nrm2 (sumf (S m) (fun j => X n j * c j))).
Proof.
  unfold nrm2.
  transitivity (sumf (S m) (fun i => sumf (S m) (fun j => sumf K (fun n => (X n j * c j) * conj (X n i * c i))))).
  { apply sumf_ext; intros i _. apply sumf_ext; intros j _.
    rewrite <- sumf_scale, <- sumf_scale_r. apply sumf_ext; intros n _. rewrite conj_mul. ring. }
  rewrite (sumf_ext (S m) _ (fun i => sumf K (fun n => sumf (S m) (fun j => X n j * c j * conj (X n i * c i))))).
  2:{ intros i _. apply sumf_exch. }
  rewrite sumf_exch. apply sumf_ext; intros n _.
  rewrite sumf_conj, <- sumf_scale. apply sumf_ext; intros i _.
  rewrite sumf_scale_r. reflexivity.
Qed.

Lemma first_nonzero (N : nat) (f : nat -> F) :
  (exists n, (n < N)%nat /\ f n <> 0) -> exists n0, (n0 < N)%nat /\ f n0 <> 0 /\ forall j, (j < n0)%nat -> f j = 0.
Proof.
  induction N; intros (n & Hn & Hf); [lia|].
  assert (D : (exists n', (n' < N)%nat /\ f n' <> 0) \/ forall j, (j < N)%nat -> f j = 0).
  { clear -OL. induction N; [right; intros; lia|].
    destruct IHN as [(n' & Hn' & Hf')|Hz]; [left; exists n'; split; [lia|exact Hf']|].
    destruct (eq0_dec (f N)) as [E|E].
    - right. intros j Hj. destruct (Nat.eq_dec j N) as [->|Hne]; [exact E|apply Hz; lia].
    - left. exists N. split; [lia|exact E]. }
  destruct D as [D|D].
  - destruct (IHN D) as (n0 & H0 & H1 & H2). exists n0. repeat split; [lia|exact H1|exact H2].
  - assert (n = N). { destruct (Nat.eq_dec n N); [assumption|]. exfalso. apply Hf. apply D. lia. }
    subst n. exists N. repeat split; [lia|exact Hf|exact D].
Qed.

Section Fixed.
Variable x : list F.
Variable order : nat.
Variable r : list F.
Hypothesis Hr : acorr x order Biased = Some r.
Hypothesis Hx : exists n, (n < length x)%nat /\ nthF x n <> 0.

Let N := length x.
Definition lagraw (k : nat) : F := sumf (N - k) (fun j => nthF x (j + k) * conj (nthF x j)).

Lemma order_lt_N : (order < N)%nat.
Proof. unfold acorr in Hr. destruct (correlation_def_thm _ _ _ _ _ _ Hr) as (H & _). rewrite Nat.max_id in H. exact H. Qed.
Lemma posN : pos (ofnat N).
Proof. apply pos_ofnat. pose proof order_lt_N. lia. Qed.
Lemma r_def k : (k <= order)%nat -> nthF r k = lagraw k / ofnat N.
Proof.
  intros Hk. unfold acorr in Hr. destruct (correlation_def_thm _ _ _ _ _ _ Hr) as (_ & _ & H).
  rewrite (H k Hk), Nat.max_id. unfold norm_factor. destruct k; reflexivity.
Qed.
Lemma r0_real : isreal (nthF r O).
Proof.
  unfold isreal. rewrite r_def by lia. rewrite conj_div by apply posN. rewrite conj_ofnat. f_equal.
  unfold lagraw. rewrite sumf_conj. apply sumf_ext; intros j _. rewrite conj_mul, conj_conj, Nat.add_0_r. ring.
Qed.

Definition G (m i j : nat) : F := sumf (N + m) (fun n => conj (xz x n i) * xz x n j).
Lemma G_herm m i j : G m i j = conj (G m j i).
Proof. unfold G. rewrite sumf_conj. apply sumf_ext; intros n _. rewrite conj_mul, conj_conj. ring. Qed.
Lemma G_rz m i j : (i <= m)%nat -> (j <= m)%nat -> (m <= order)%nat ->
  G m i j = ofnat N * rz r (Z.of_nat i - Z.of_nat j).
Proof.
  intros Hi Hj Hm. pose proof posN as [_ HN0].
  destruct (Nat.le_gt_cases j i) as [Hji|Hij].
  - unfold G. fold N. unfold N at 1. rewrite (gram_raw x m i j) by lia. fold N.
    replace (Z.of_nat i - Z.of_nat j)%Z with (Z.of_nat (i - j)) by lia. rewrite rz_nonneg, r_def by lia.
    unfold lagraw. field. exact HN0.
  - rewrite G_herm. unfold G. unfold N at 1. rewrite (gram_raw x m j i) by lia. fold N.
    unfold rz. destruct (Z.leb_spec 0 (Z.of_nat i - Z.of_nat j)); [lia|].
    replace (Z.to_nat (- (Z.of_nat i - Z.of_nat j))) with (j - i)%nat by lia. rewrite r_def by lia.
    rewrite conj_div by exact HN0. rewrite conj_ofnat. unfold lagraw. field. exact HN0.
Qed.

(* the stage power as a sum of squared moduli *)
Lemma NP_sumsq m (a : nat -> F) P : (m <= order)%nat -> Inv r m a P ->
  ofnat N * P = sumf (N + m) (fun n => nrm2 (sumf (S m) (fun j => xz x n j * a j))).
Proof.
  intros Hm (Ha0 & HPr & Hrow0 & Hrows).
  rewrite <- (quad_form_sumsq (N + m) m (xz x) a).
  transitivity (sumf (S m) (fun i => conj (a i) * (ofnat N * row r m a i))).
  - rewrite sumf_shift. rewrite Hrow0, Ha0, conj_1.
    rewrite sumf_zero_ext. { ring. }
    intros i Hi. rewrite (Hrows (S i)) by lia. ring.
  - apply sumf_ext; intros i Hi. unfold row. rewrite <- !sumf_scale. apply sumf_ext; intros j Hj.
    fold (G m i j). rewrite G_rz by lia. unfold rr. ring.
Qed.

Lemma stage_pos m (a : nat -> F) P : (m <= order)%nat -> Inv r m a P -> pos P.
Proof.
  intros Hm HI. pose proof (NP_sumsq m a P Hm HI) as E. pose proof posN as HNp.
  assert (Hnn : nonneg P).
  { apply (nonneg_cancel P (ofnat N) HNp). rewrite E. apply nonneg_sum_nrm2. }
  split; [exact Hnn|]. intros EP.
  destruct (first_nonzero N (nthF x) Hx) as (n0 & Hn0 & Hf & Hz).
  apply Hf.
  assert (Z0 : sumf (S m) (fun j => xz x n0 j * a j) = 0).
  { apply (sum_nrm2_zero (N + m) (fun n => sumf (S m) (fun j => xz x n j * a j))); [|lia].
    rewrite <- E, EP. ring. }
  rewrite sumf_shift in Z0. destruct HI as (Ha0 & _).
  rewrite sumf_zero_ext in Z0.
  - rewrite Ha0 in Z0. unfold xz in Z0. cbn [Nat.leb] in Z0. rewrite Nat.sub_0_r in Z0. rewrite <- Z0. ring.
  - intros j Hj. unfold xz. destruct (Nat.leb_spec (S j) n0); [|ring]. rewrite Hz by lia. ring.
Qed.

Lemma pos_factor (P c : F) : pos P -> pos (P * c) -> pos c.
Proof.
  intros HP [Hn Hne]. split.
  - apply (nonneg_cancel c P HP). exact Hn.
  - intros E. apply Hne. rewrite E. ring.
Qed.

(* every stage of the recursion exists, satisfies the Levinson invariant and has positive power *)
Lemma lev_iter_pos m : (m <= order)%nat ->
  exists A P ks, lev_iter (tl r) true (nthF r O) m = Some (A, P, ks)
    /\ length A = m /\ length ks = m /\ Inv r m (afun A) P /\ pos P
    /\ forall j, (j < m)%nat -> pos (1 - nrm2 (nthF ks j)).
Proof.
  induction m; intros Hm.
  - exists [], (nthF r O), []. split; [reflexivity|]. split; [reflexivity|]. split; [reflexivity|].
    assert (HI : Inv r O (afun []) (nthF r O)).
    { unfold Inv. repeat split; try (intros; lia).
      - exact r0_real.
      - unfold row. cbn. unfold rr, rz. cbn. ring. }
    split; [exact HI|]. split; [exact (stage_pos O _ _ Hm HI)|]. intros j Hj. lia.
  - destruct (IHm ltac:(lia)) as (A & P & ks & E & HA & Hks & HI & HP & Hkk).
    set (k := (- lev_delta (tl r) A m) / P).
    exists (stepup A k), (P * (1 - k * conj k)), (ks ++ [k]).
    assert (Hk : k * P = - row r m (afun A) (S m)).
    { unfold k. rewrite (delta_is_row r m A HA). field. apply HP. }
    pose proof (levinson_step r r0_real m (afun A) P k HI Hk) as (Ha & Hc & Hr0 & Hz).
    assert (HI' : Inv r (S m) (afun (stepup A k)) (P * (1 - k * conj k))).
    { unfold Inv. split; [reflexivity|]. split; [exact Hc|]. split.
      - rewrite <- Hr0. apply row_ext. intros j Hj. apply afun_stepup; [exact HA|lia].
      - intros i Hi. rewrite <- (Hz i Hi). apply row_ext. intros j Hj. apply afun_stepup; [exact HA|lia]. }
    split.
    { cbn [lev_iter]. rewrite E. unfold lev_step. fold k. cbn [negb]. rewrite Bool.andb_false_r. reflexivity. }
    split; [rewrite stepup_length; lia|]. split; [rewrite app_length; cbn; lia|].
    split; [exact HI'|]. pose proof (stage_pos (S m) _ _ Hm HI') as HP'. split; [exact HP'|].
    intros j Hj. destruct (Nat.eq_dec j m) as [->|Hne].
    + rewrite (nthF_app_last' ks k m Hks). unfold nrm2. exact (pos_factor P _ HP HP').
    + rewrite nthF_app_l by lia. apply Hkk. lia.
Qed.
End Fixed.

(* ---------- aryule with the biased estimate ---------- *)
Theorem aryule_pos_thm (x : list F) order a P k :
  (exists n, (n < length x)%nat /\ nthF x n <> 0) ->
  aryule x order Biased = Some (a, P, k) ->
  pos P /\ length a = order /\ (forall j, (j < order)%nat -> pos (1 - nrm2 (nthF k j))) /\
  exists r, acorr x order Biased = Some r /\
    forall i, (i <= order)%nat -> toeplitz_row r order a i = if (i =? 0)%nat then P else 0.
Proof.
  intros Hx H. pose proof (aryule_spec_thm _ _ _ _ _ _ H) as (_ & Hla & _).
  unfold aryule in H. destruct (acorr x order Biased) as [r|] eqn:Er; [|discriminate].
  assert (Hlen : length r = S order).
  { unfold acorr in Er. destruct (correlation_def_thm _ _ _ _ _ _ Er) as (_ & Hl & _). exact Hl. }
  unfold levinson in H. rewrite Nat.leb_refl, Hlen in H. replace (S order - 1)%nat with order in H by lia.
  rewrite (re_real _ (r0_real x order r Er)) in H.
  destruct (lev_iter_pos x order r Er Hx order (le_n _)) as (A & P' & ks & E & _ & _ & (Ha0 & HPr & Hrow0 & Hrows) & HP & Hkk).
  rewrite E in H. injection H as <- <- <-.
  split; [exact HP|]. split; [exact Hla|]. split; [exact Hkk|]. exists r. split; [reflexivity|].
  intros i Hi. destruct (Nat.eqb_spec i O) as [->|Hne]; [exact Hrow0|apply Hrows; lia].
Qed.

(* ---------- ma: Yule-Walker of the long-AR polynomial, positive variance ---------- *)
Theorem ma_valid_thm (x : list F) Q M b rho :
  (exists n, (n < length x)%nat /\ nthF x n <> 0) ->
  ma x Q M = inr (b, rho) ->
  length b = Q /\ pos rho /\
  exists a k1 P2 k2 r2,
    aryule x M Biased = Some (a, rho, k1) /\ length a = M
    /\ aryule (1 :: a) Q Biased = Some (b, P2, k2) /\ pos P2
    /\ (forall j, (j < Q)%nat -> pos (1 - nrm2 (nthF k2 j)))
    /\ acorr (1 :: a) Q Biased = Some r2
    /\ forall i, (i <= Q)%nat -> toeplitz_row r2 Q b i = if (i =? 0)%nat then P2 else 0.
Proof.
  intros Hx H. pose proof (ma_lengths_thm _ _ _ _ _ H) as (Hb & _ & _). split; [exact Hb|].
  unfold ma in H. destruct ((Q =? 0)%nat || (M <=? Q)%nat); [discriminate|].
  destruct (aryule x M Biased) as [[[a r0] k1]|] eqn:E1; [|discriminate].
  destruct (aryule (1 :: a) Q Biased) as [[[b' P2] k2]|] eqn:E2; [|discriminate].
  injection H as <- <-.
  destruct (aryule_pos_thm _ _ _ _ _ Hx E1) as (HP1 & Hla & _ & _).
  assert (Hx2 : exists n, (n < length (1%F :: a))%nat /\ nthF (1 :: a) n <> 0).
  { exists O. split; [cbn; lia|]. cbn. apply one_neq_0. }
  destruct (aryule_pos_thm _ _ _ _ _ Hx2 E2) as (HP2 & _ & Hk2 & r2 & Er2 & Hrows).
  split; [exact HP1|]. exists a, k1, P2, k2, r2. split; [reflexivity|]. split; [exact Hla|]. split; [exact E2|]. split; [exact HP2|]. split; [exact Hk2|]. split; [exact Er2|exact Hrows].
Qed.

(* ---------- arma_estimate: positive variance whenever the filtered residual is not identically zero ---------- *)
Theorem arma_rho_pos_thm (lsm lsq : list F -> nat -> list F) (x : list F) P Q lag a b rho :
  arma_estimate lsm lsq x P Q lag = inr (a, b, rho) ->
  (exists t, (t < length x - P)%nat /\ nthF (arma_resid x a P) t <> 0) ->
  pos rho.
Proof.
  intros H Hres. destruct (arma_steps_thm _ _ _ _ _ _ _ _ _ H) as (r & _ & _ & Em).
  apply (ma_valid_thm (arma_resid x a P) Q (2 * Q) b rho); [|exact Em].
  destruct Hres as (t & Ht & Hne). exists t. split; [|exact Hne]. unfold arma_resid. rewrite mk_length. exact Ht.
Qed.
End Pos.
