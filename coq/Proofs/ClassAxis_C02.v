(* C02 — pipeline_axis composed with the functional estimators' theorems, and the class-level non-negativity facts.

   For a table row that stores "first half times 2" (real data) / the whole array (complex data) -- the generated theorem
   pipeline_axis shows these are the rows of pburg pyule pcovar pmodcovar parma pma pminvar MultiTapering -- entry j of the stored
   PSD is  coef * c * S(bin j)  with
        S(bin j) = rho |B(w^j)|^2 / |A(w^j)|^2                     (arma2psd at T = 1; guard A(w^j) <> 0: C08 arma2psd_formula)
        S(bin j) = 1 / sum_k |A_k(w^j)|^2 / P_k                    (minvar at sampling 1; NFFT >= 2m-1: C16 minvar_psd_musicus)
   and for the multitaper class (model Mtm.mt_call, C19) entry b is [scale] [2] * weighted mean of the eigenspectra at bin b.
   Non-negativity (hence realness) of stored entries follows entry by entry from the functional result for EVERY store. *)
From Coq Require Import String Lia.
Require Import Spectrum.Theory.Ops Spectrum.Theory.Sum Spectrum.Theory.Vec Spectrum.Theory.Order Spectrum.Theory.Dft
               Spectrum.Model.Convert Spectrum.Model.PipelineLib Spectrum.Proofs.PipelineTheory Spectrum.Proofs.PipelineAxis_C02
               Spectrum.Model.Arma2psd Spectrum.Proofs.Arma2psdTheory.

Section ClassAxis.
Context {F : Type} {OF : Ops F} {L : Laws OF}.
Local Open Scope F_scope.
Add Field FFca : (fth (O:=OF)).
Variable twopi : F.

Lemma axis_len_le real n : (1 <= n)%nat -> (axis_len real n <= n)%nat.
Proof. intros Hn. unfold axis_len. destruct real; [apply flen_One_le, Hn|cbn [flen]; lia]. Qed.

(* AR / MA / ARMA classes *)
Theorem arma_class_axis_thm (n : nat) (tw : Z -> F) {Tw : Twiddle n tw} m p real sbf (s : sstate) A B rho S1 j :
  p_real p = SHalf HalfPlus1 HalfUp 2 false -> p_cplx p = SAsIs ->
  st_NFFT s = n -> (1 <= n)%nat -> isreal rho ->
  arma2psd tw A B rho 1 n SidesDefault false = Some S1 ->
  (j < axis_len real n)%nat -> polyz_opt tw A (Z.of_nat j) <> 0 ->
  length (stored twopi m p real sbf s S1) = axis_len real n /\
  nthF (stored twopi m p real sbf s S1) j
  = coef twopi m p real sbf s (axis_len real n)
    * ((if real then ofnat 2 else 1) * (rho / 1 * nrm2 (polyz_opt tw B (Z.of_nat j)) / nrm2 (polyz_opt tw A (Z.of_nat j)))).
Proof.
  intros Hr Hc HN Hn Hrho HS Hj HA.
  pose proof (arma2psd_some_adm tw A B rho 1 n SidesDefault false S1 HS) as Hadm.
  destruct (arma2psd_formula_thm n tw A B rho 1 Hadm Hrho isreal_1 (F_1_neq_0 (fth (O:=OF)))) as (psd & E & Hl & Hf).
  rewrite HS in E. injection E as <-.
  pose proof (axis_len_le real n Hn) as Hle.
  destruct (stored_entry_halfslice twopi m p real sbf s S1 j Hr Hc) as [H1 H2]; rewrite ?HN; try assumption.
  rewrite HN in H1, H2. split; [exact H1|]. rewrite H2, (Hf j) by (try exact HA; lia). reflexivity.
Qed.
End ClassAxis.

(* minimum variance *)
Require Import Spectrum.Model.Levinson Spectrum.Model.Burg Spectrum.Model.Minvar Spectrum.Proofs.MinvarFinal.
Section MinvarAxis.
Context {F : Type} {OF : Ops F} {L : Laws OF}.
Local Open Scope F_scope.
Variable twopi : F.
Theorem minvar_class_axis_thm (n : nat) (tw : Z -> F) {Tw : Twiddle n tw} m p real sbf (s : sstate) (x : list F) order S1 A ks j :
  p_real p = SHalf HalfPlus1 HalfUp 2 false -> p_cplx p = SAsIs ->
  st_NFFT s = n -> ofnat (length x) <> 0 -> (2 * order - 1 <= n)%nat ->
  minvar tw x order 1 n = Some (S1, A, ks) ->
  (j < axis_len real n)%nat ->
  length (stored twopi m p real sbf s S1) = axis_len real n /\
  nthF (stored twopi m p real sbf s S1) j
  = coef twopi m p real sbf s (axis_len real n)
    * ((if real then ofnat 2 else 1) * (1 / capon_sum tw (mean_power x) ks (Z.of_nat j))).
Proof.
  intros Hr Hc HN Hx Ho HS Hj.
  destruct (minvar_returns_burg_thm tw x order 1 n S1 A ks HS) as (_ & _ & _ & _ & _ & _ & _ & _ & Hl & Hm).
  assert (Hn : (1 <= n)%nat) by lia.
  pose proof (axis_len_le real n Hn) as Hle.
  destruct (stored_entry_halfslice twopi m p real sbf s S1 j Hr Hc) as [H1 H2]; rewrite ?HN; try assumption.
  rewrite HN in H1, H2. split; [exact H1|]. rewrite H2.
  destruct (minvar_psd_musicus_thm n tw x order 1 S1 A ks Hx Ho HS j ltac:(lia)) as (E & _). rewrite E. reflexivity.
Qed.
End MinvarAxis.

(* ---------------- non-negativity, entry by entry, for every store ---------------- *)
Section Nonneg.
Context {F : Type} {OF : Ops F} {L : Laws OF} {OL : OrdLaws OF}.
Local Open Scope F_scope.
Add Field FFcn : (fth (O:=OF)).
Variable twopi : F.

Lemma nonneg_two : nonneg (two : F).
Proof. unfold two. apply nn_add; apply nonneg_1. Qed.
Lemma src_weight_nonneg st len j : (match st with STwo2One => 1 <= len | _ => True end)%nat -> nonneg (src_weight (F:=F) st len j).
Proof.
  intros H. destruct st as [|he ho fac flip| |]; cbn [src_weight].
  - apply nonneg_1.
  - apply nonneg_ofnat.
  - rewrite two2one_weight_spec by exact H. destruct (_ || _)%bool; [apply nonneg_1|apply nonneg_two].
  - apply nonneg_1.
Qed.

(* a stored entry is >= 0 (hence real) as soon as the normalisation coefficient is and the functional result at the SOURCE entry is *)
Theorem stored_nonneg_thm m p (real : bool) sbf (s : sstate) (Sp : list F) j :
  let st := if real then p_real p else p_cplx p in
  (j < length (stored twopi m p real sbf s Sp))%nat ->
  (match st with STwo2One => 1 <= length Sp | _ => True end)%nat ->
  nonneg (coef twopi m p real sbf s (length (layout p real (st_NFFT s) Sp))) ->
  nonneg (nthF Sp (src_index st (st_NFFT s) (length Sp) j)) ->
  nonneg (nthF (stored twopi m p real sbf s Sp) j) /\ isreal (nthF (stored twopi m p real sbf s Sp) j).
Proof.
  cbv zeta. intros Hj Hst Hc HS.
  assert (H : nonneg (nthF (stored twopi m p real sbf s Sp) j)).
  { rewrite (stored_entry twopi m p real sbf s Sp j Hj). apply nn_mul; [exact Hc|]. apply nn_mul; [|exact HS].
    apply src_weight_nonneg. exact Hst. }
  split; [exact H|apply nn_real, H].
Qed.
End Nonneg.

(* ---------------- the functional results are >= 0 ---------------- *)
Require Import Spectrum.Model.Corr Spectrum.Model.Periodogram Spectrum.Proofs.PeriodogramTheory.
Section FunctionalNonneg.
Context {F : Type} {OF : Ops F} {L : Laws OF} {OL : OrdLaws OF}.
Local Open Scope F_scope.
Add Field FFfn : (fth (O:=OF)).

(* periodogram: |.|^2 / N, times 2 pi / df when scale_by_freq is True *)
Theorem speriodogram_nonneg_thm tw twopi (x w : list F) NFFT isreal dt sbf fs k :
  let n := resolve NFFT (length x) in
  (1 <= n)%nat -> (1 <= length x)%nat -> (k < nbins isreal n)%nat ->
  (py_is_true sbf = true -> nonneg (sbf_factor twopi fs n)) ->
  nonneg (nthF (speriodogram tw twopi x w NFFT isreal dt sbf fs) k).
Proof.
  cbv zeta. intros Hn HN Hk Hs. rewrite periodogram_general_thm by assumption.
  apply nn_mul.
  - apply nonneg_div; [apply nn_nrm2|apply pos_ofnat, HN].
  - unfold scale_of. destruct (py_is_true sbf); [apply Hs; reflexivity|apply nonneg_1].
Qed.

(* correlogram: real by construction (numpy.real of the transform), for every window / lag / NFFT *)
Lemma re_isreal (z : F) : isreal (re z).
Proof.
  unfold isreal, re. rewrite conj_div by apply two_neq_0. f_equal.
  - rewrite conj_add, conj_conj. ring.
  - unfold two. rewrite conj_add, conj_1. reflexivity.
Qed.
Theorem correlogram_real_thm tw rp (x : list F) y lag wfull NFFT nm be l k :
  correlogram tw rp x y lag wfull NFFT nm be = Some l -> isreal (nthF l k).
Proof.
  unfold correlogram. cbv zeta.
  destruct (negb (lag <? length x)%nat); [discriminate|].
  destruct (resolve NFFT (length x) =? 0)%nat; [discriminate|].
  destruct ((resolve NFFT (length x) <? lag + 1)%nat && negb (lag =? 1)%nat)%bool; [discriminate|].
  destruct (corr_pos be rp x _ lag nm) as [rxy|]; [|discriminate].
  destruct (match y with None => Some rxy | Some v => corr_pos be rp v x lag nm end) as [ryx|]; [|discriminate].
  intros E; injection E as <-.
  rewrite nthF_map; [apply re_isreal|apply re_0].
Qed.
End FunctionalNonneg.
