(* C03 — arma.ma, arma.arma_estimate and parma.__call__ (the model of C15: Model/ArmaEst.v) are homogeneous:
   c*x gives the same AR and MA coefficients, |c|^2 times the variance, the same exception, and parma stores |c|^2
   times the PSD.

   The chain:  unbiased lags r -> |c|^2 r;  the sequence handed to the covariance method  y -> |c|^2 y  (the conjugated
   entries too: |c|^2 is real);  the covariance solver returns the same coefficients (HYPOTHESIS on the two oracles,
   stated for the one system they are handed; proved below for the executable solver of Model/Ls.v unconditionally
   and for [ls_exact] / [lsm_exact] when no pivot of the elimination is zero);  the residual  e -> c*e;
   ma = aryule twice: the long AR fit of c*e has the same coefficients and |c|^2 times the power (guard: the residual
   is not identically zero -- every Levinson stage then has positive power, Proofs/ArmaEstPos.v), the second run sees
   the same vector [1, a]. *)
Require Import Spectrum.Theory.Ops Spectrum.Theory.Sum Spectrum.Theory.Vec Spectrum.Theory.Order Spectrum.Theory.Dft
               Spectrum.Model.Levinson Spectrum.Model.Corr Spectrum.Model.Ls Spectrum.Model.ArmaEst Spectrum.Model.ArmaCall
               Spectrum.Proofs.LevinsonTheory Spectrum.Proofs.CorrTheory Spectrum.Proofs.ScaleTheory
               Spectrum.Proofs.ScaleUtil_C03 Spectrum.Proofs.ScaleLs_C03
               Spectrum.Proofs.ArmaEstTheory Spectrum.Proofs.ArmaEstPos Spectrum.Proofs.ArmaEstNondeg.

Section ScaleArma.
Context {F : Type} {OF : Ops F} {L : Laws OF} {OL : OrdLaws OF}.
Local Open Scope F_scope.
Add Field FFsarma : (fth (O:=OF)).

(* ---------------- aryule (biased) and ma ---------------- *)
Lemma aryule_est_scale c (x : list F) order : c <> 0 -> nonzero_data x ->
  ArmaEst.aryule (vscale c x) order Biased = option_map (scaleP (nrm2 c)) (ArmaEst.aryule x order Biased).
Proof.
  intros Hc Hx. unfold ArmaEst.aryule.
  rewrite (acorr_scale_thm c x order Biased Hc) by discriminate.
  destruct (acorr x order Biased) as [r|] eqn:Er; [|reflexivity].
  rewrite su_vscale_length. apply levinson_scale_thm; [apply su_pos_nrm2; exact Hc|].
  destruct (yule_stages_nonzero x r order Hx Er) as (Hlen & Hre & Hst).
  rewrite Hlen, Hre. replace (S order - 1)%nat with order by lia. exact Hst.
Qed.

Definition ma_scaled (s : F) (r : aerr + (list F * F)) : aerr + (list F * F) :=
  match r with inl e => inl e | inr (b, rho) => inr (b, s * rho) end.

Theorem ma_scale_thm c (x : list F) Q M : c <> 0 ->
  (forall b rho, ma x Q M = inr (b, rho) -> nonzero_data x) ->
  ma (vscale c x) Q M = ma_scaled (nrm2 c) (ma x Q M).
Proof.
  intros Hc Hx. destruct (ma x Q M) as [e|[b rho]] eqn:E.
  - cbn [ma_scaled]. apply (ma_error_length x); [apply su_vscale_length|exact E].
  - specialize (Hx b rho eq_refl). unfold ma in *. destruct ((Q =? 0)%nat || (M <=? Q)%nat); [discriminate|].
    rewrite (aryule_est_scale c x M Hc Hx).
    destruct (ArmaEst.aryule x M Biased) as [[[a r0] k0]|]; [|discriminate]. cbn [option_map scaleP].
    destruct (ArmaEst.aryule (1 :: a) Q Biased) as [[[b' p'] k']|]; [|discriminate].
    injection E as <- <-. reflexivity.
Qed.

(* ---------------- the pieces of arma_estimate ---------------- *)
Lemma arma_y_scale s (r : list F) P Q lag : conj s = s ->
  arma_y (vscale s r) P Q lag = vscale s (arma_y r P Q lag).
Proof.
  intros Hs. unfold arma_y. rewrite su_vscale_mk. apply mk_ext; intros k _.
  destruct (k <? lag + P - Q)%nat; [|ring]. unfold arma_yval.
  destruct (k + Q + 1 <? P)%nat; rewrite nthF_vscale; [rewrite conj_mul, Hs|]; reflexivity.
Qed.

Lemma arma_resid_scale c (x a : list F) P : arma_resid (vscale c x) a P = vscale c (arma_resid x a P).
Proof.
  unfold arma_resid. rewrite su_vscale_length, su_vscale_mk. apply mk_ext; intros t _.
  rewrite nthF_vscale, !sumL_mk.
  transitivity (c * nthF x (t + P) + c * sumf P (fun j => nthF a j * nthF x (t + P - j - 1))); [|ring].
  f_equal. rewrite <- sumf_scale. apply sumf_ext; intros j _. rewrite nthF_vscale. ring.
Qed.

Lemma arma_resid_length (x a : list F) P : length (arma_resid x a P) = (length x - P)%nat.
Proof. apply mk_length. Qed.

Definition arma_scaled (s : F) (r : aerr + (list F * list F * F)) : aerr + (list F * list F * F) :=
  match r with inl e => inl e | inr (a, b, rho) => inr (a, b, s * rho) end.

(* what the theorem asks of the covariance-method oracles: on the system of c*x (= |c|^2 times the system of x) they
   return what they return on the system of x.  Only the [0:P] slice of arcovar_marple's output is read. *)
Definition ls_agree_scaled (lsm lsq lsm' lsq' : list F -> nat -> list F) (s : F) (x : list F) (P Q lag : nat) : Prop :=
  forall r, acorr x lag Unbiased = Some r ->
    firstn P (lsm' (vscale s (arma_y r P Q lag)) P) = firstn P (lsm (arma_y r P Q lag) P)
    /\ lsq' (vscale s (arma_y r P Q lag)) P = lsq (arma_y r P Q lag) P.
Theorem arma_estimate_scale_gen (lsm lsq lsm' lsq' : list F -> nat -> list F) c (x : list F) P Q lag : c <> 0 ->
  ls_agree_scaled lsm lsq lsm' lsq' (nrm2 c) x P Q lag -> arma_nondeg lsm lsq x P Q lag ->
  arma_estimate lsm' lsq' (vscale c x) P Q lag = arma_scaled (nrm2 c) (arma_estimate lsm lsq x P Q lag).
Proof.
  intros Hc Hls Hnd. unfold arma_nondeg in Hnd. unfold arma_estimate in *. cbv zeta in *.
  rewrite (acorr_scale_thm c x lag Unbiased Hc) by discriminate. rewrite su_vscale_length.
  destruct (acorr x lag Unbiased) as [r|] eqn:Er; [|reflexivity].
  destruct (length x <? P)%nat; [reflexivity|].
  destruct ((0 <? lag + P - Q)%nat && ((lag + Q + 1 <? P)%nat || (length x - P <? lag + P - Q)%nat)); [reflexivity|].
  rewrite (arma_y_scale (nrm2 c) r P Q lag (su_nrm2_real c)).
  destruct (Hls r Er) as [Hm Hq].
  assert (Ear : arma_ar lsm' lsq' (length x) (vscale (nrm2 c) (arma_y r P Q lag)) P lag
                = arma_ar lsm lsq (length x) (arma_y r P Q lag) P lag).
  { unfold arma_ar. rewrite Hm, Hq. reflexivity. }
  rewrite Ear. destruct (arma_ar lsm lsq (length x) (arma_y r P Q lag) P lag) as [e|a]; [reflexivity|].
  rewrite arma_resid_scale, (ma_scale_thm c (arma_resid x a P) Q (2 * Q) Hc).
  - destruct (ma (arma_resid x a P) Q (2 * Q)) as [e|[b rho]]; reflexivity.
  - intros b rho Em. apply (Hnd a b rho). rewrite Em. reflexivity.
Qed.

(* one pair of oracles that do not see a common real factor of the system *)
Definition ls_homogeneous (lsm lsq : list F -> nat -> list F) : Prop :=
  forall s y p, s <> 0 -> firstn p (lsm (vscale s y) p) = firstn p (lsm y p) /\ lsq (vscale s y) p = lsq y p.

Theorem arma_estimate_scale_thm (lsm lsq : list F -> nat -> list F) c (x : list F) P Q lag : c <> 0 ->
  ls_homogeneous lsm lsq -> arma_nondeg lsm lsq x P Q lag ->
  arma_estimate lsm lsq (vscale c x) P Q lag = arma_scaled (nrm2 c) (arma_estimate lsm lsq x P Q lag).
Proof.
  intros Hc Hh Hnd. apply arma_estimate_scale_gen; [exact Hc| |exact Hnd].
  intros r _. apply Hh. apply su_nrm2_neq0. exact Hc.
Qed.

(* ---------------- instance 1: the executable solver of Model/Ls.v (arcovar = corrmtx + Gaussian elimination on the
   normal equations with exact zero tests + the code's post-processing); no side condition ---------------- *)
Theorem ls_cov_homogeneous tol : ls_homogeneous (lsm_cov tol) (lsq_cov tol).
Proof.
  intros s y p Hs.
  assert (E : lsq_cov tol (vscale s y) p = lsq_cov tol y p).
  { unfold lsq_cov. rewrite (arcovar_scale_thm s tol y p Hs). unfold ae_scale.
    destruct (arcovar tol y p) as [[a e]|]; reflexivity. }
  split; [|exact E]. unfold lsm_cov. rewrite E, su_vscale_length. reflexivity.
Qed.

(* ---------------- instance 2: the oracles of C15's correspondence run (elimination without pivoting on the Gram
   matrix, no zero tests): invariant when no pivot is zero ---------------- *)
Lemma row_sub_scale t c (piv row : list F) :
  row_sub c (vscale t piv) (vscale t row) = vscale t (row_sub c piv row).
Proof.
  unfold row_sub. rewrite su_vscale_length, su_vscale_mk. apply mk_ext; intros j _. rewrite !nthF_vscale. ring.
Qed.
Lemma elim_scale t : t <> 0 -> forall fuel (rows : list (list F)), elim_regular fuel rows ->
  elim fuel (map (vscale t) rows) = map (vscale t) (elim fuel rows).
Proof.
  intros Ht. induction fuel as [|f IH]; intros rows Hreg; [reflexivity|].
  destruct rows as [|piv rest]; [reflexivity|]. cbn [elim map]. destruct Hreg as [Hp Hreg]. f_equal.
  assert (E : map (fun r => tl (row_sub (nthF r 0 / nthF (vscale t piv) 0) (vscale t piv) r)) (map (vscale t) rest)
              = map (vscale t) (map (fun r => tl (row_sub (nthF r 0 / nthF piv 0) piv r)) rest)).
  { rewrite !map_map. apply map_ext; intros r. rewrite !nthF_vscale.
    replace (t * nthF r 0 / (t * nthF piv 0)) with (nthF r 0 / nthF piv 0) by (field; split; assumption).
    rewrite row_sub_scale, su_vscale_tl. reflexivity. }
  rewrite E. apply IH. exact Hreg.
Qed.
Lemma elim_pivots fuel : forall (rows : list (list F)), elim_regular fuel rows -> Forall (fun piv => nthF piv 0 <> 0) (elim fuel rows).
Proof.
  induction fuel as [|f IH]; intros rows Hreg; [constructor|]. destruct rows as [|piv rest]; [constructor|].
  destruct Hreg as [Hp Hreg]. cbn [elim]. constructor; [exact Hp|apply IH; exact Hreg].
Qed.
Lemma backsub_scale t (rows : list (list F)) : t <> 0 -> Forall (fun piv => nthF piv 0 <> 0) rows ->
  backsub (map (vscale t) rows) = backsub rows.
Proof.
  intros Ht. induction rows as [|piv rest IH]; intros HF; [reflexivity|].
  inversion HF as [|? ? Hp HF']; subst. cbn [map backsub]. rewrite (IH HF'). f_equal.
  rewrite !nthF_vscale, !sumL_mk.
  rewrite (sumf_ext _ (fun j => nthF (vscale t piv) (S j) * nthF (backsub rest) j) (fun j => t * (nthF piv (S j) * nthF (backsub rest) j))).
  2:{ intros j _. rewrite nthF_vscale. ring. }
  rewrite sumf_scale. field. split; assumption.
Qed.
Lemma cov_gram_scale s (y : list F) p i j : cov_gram (vscale s y) p i j = nrm2 s * cov_gram y p i j.
Proof.
  unfold cov_gram. rewrite su_vscale_length, !sumL_mk, <- sumf_scale. apply sumf_ext; intros t _.
  rewrite !nthF_vscale, conj_mul. unfold nrm2. ring.
Qed.
Lemma cov_rhs_scale s (y : list F) p i : cov_rhs (vscale s y) p i = nrm2 s * cov_rhs y p i.
Proof.
  unfold cov_rhs. rewrite su_vscale_length, !sumL_mk.
  rewrite (sumf_ext _ _ (fun t => nrm2 s * (conj (nthF y (p + t - 1 - i)) * nthF y (p + t)))).
  - rewrite sumf_scale. ring.
  - intros t _. rewrite !nthF_vscale, conj_mul. unfold nrm2. ring.
Qed.
Lemma ls_rows_scale s (y : list F) p : ls_rows (vscale s y) p = map (vscale (nrm2 s)) (ls_rows y p).
Proof.
  unfold ls_rows. rewrite map_map. apply map_ext; intros i.
  rewrite su_vscale_app, su_vscale_mk. cbn [vscale map]. rewrite cov_rhs_scale. f_equal.
  apply mk_ext; intros j _. apply cov_gram_scale.
Qed.
Theorem ls_exact_scale s (y : list F) p : s <> 0 -> ls_exact_regular y p -> ls_exact (vscale s y) p = ls_exact y p.
Proof.
  intros Hs Hreg. unfold ls_exact. fold (ls_rows (vscale s y) p). fold (ls_rows y p).
  pose proof (su_nrm2_neq0 s Hs) as Hn.
  rewrite ls_rows_scale, (elim_scale (nrm2 s) Hn p _ Hreg). apply backsub_scale; [exact Hn|apply elim_pivots; exact Hreg].
Qed.
Theorem lsm_exact_scale s (y : list F) p : s <> 0 -> ls_exact_regular y p -> lsm_exact (vscale s y) p = lsm_exact y p.
Proof. intros Hs Hreg. unfold lsm_exact. rewrite ls_exact_scale, su_vscale_length by assumption. reflexivity. Qed.

(* arma_estimate with the oracles of the correspondence run *)
Theorem arma_estimate_exact_scale_thm c (x : list F) P Q lag : c <> 0 ->
  (forall r, acorr x lag Unbiased = Some r -> ls_exact_regular (arma_y r P Q lag) P) ->
  arma_nondeg lsm_exact ls_exact x P Q lag ->
  arma_estimate lsm_exact ls_exact (vscale c x) P Q lag = arma_scaled (nrm2 c) (arma_estimate lsm_exact ls_exact x P Q lag).
Proof.
  intros Hc Hreg Hnd. apply arma_estimate_scale_gen; [exact Hc| |exact Hnd].
  intros r Er. pose proof (su_nrm2_neq0 c Hc) as Hn. specialize (Hreg r Er).
  rewrite lsm_exact_scale, ls_exact_scale by assumption. split; reflexivity.
Qed.

(* ---------------- the class: what parma.__call__ stores ---------------- *)
Definition exposed_scale (s : F) (e : @exposed F) : @exposed F :=
  mkExposed (x_ar e) (x_ma e) (option_map (fun r => s * r) (x_rho e)) (vscale s (x_psd e)).
Definition call_scaled (s : F) (r : aerr + @exposed F) : aerr + @exposed F :=
  match r with inl e => inl e | inr e => inr (exposed_scale s e) end.

Lemma class_rho_scale cl s v N order : class_rho cl (s * v) N order = s * class_rho cl v N order.
Proof. destruct cl; cbn [class_rho]; rewrite ?su_div_scale; reflexivity. Qed.
Lemma arma2psd_est_scale tw A B s rho T NFFT :
  ArmaEst.arma2psd tw A B (s * rho) T NFFT
  = match ArmaEst.arma2psd tw A B rho T NFFT with inl e => inl e | inr psd => inr (vscale s psd) end.
Proof.
  unfold ArmaEst.arma2psd. destruct A as [A|], B as [B|]; try reflexivity;
    (destruct (fits NFFT _ && fits NFFT _); [|reflexivity]); f_equal; rewrite su_vscale_mk; apply mk_ext; intros k _;
    rewrite !(Fdiv_def (fth (O:=OF))); ring.
Qed.
Lemma class_finish_scale real sbf twopi sampling NFFT s (psd : list F) :
  class_finish real sbf twopi sampling NFFT (vscale s psd) = vscale s (class_finish real sbf twopi sampling NFFT psd).
Proof.
  unfold class_finish.
  assert (E : forall (g : F) (l : list F), map (fun v => v * g) (vscale s l) = vscale s (map (fun v => v * g) l)).
  { intros g l. unfold vscale. rewrite !map_map. apply map_ext; intros v. ring. }
  destruct real, sbf; rewrite ?su_vscale_firstn, ?E; reflexivity.
Qed.
(* every AR / MA / ARMA class: the variance enters linearly *)
Theorem class_call_scale_thm tw cl (ar ma : list F) s v N order twopi sampling NFFT real sbf :
  class_call tw cl ar ma (s * v) N order twopi sampling NFFT real sbf
  = call_scaled s (class_call tw cl ar ma v N order twopi sampling NFFT real sbf).
Proof.
  unfold class_call. cbv zeta. rewrite class_rho_scale, arma2psd_est_scale.
  destruct (ArmaEst.arma2psd tw (class_A cl ar) (class_B cl ma) (class_rho cl v N order) sampling NFFT) as [e|psd]; [reflexivity|].
  cbn [call_scaled]. unfold exposed_scale. cbn [x_ar x_ma x_rho x_psd]. rewrite class_finish_scale.
  destruct (class_rho_exposed cl); reflexivity.
Qed.

(* parma.__call__ / pma.__call__ = the estimator, then the class pipeline (Model/ArmaCall.v) *)
Theorem parma_scale_gen tw (lsm lsq lsm' lsq' : list F -> nat -> list F) c (x : list F) P Q lag twopi sampling NFFT real sbf : c <> 0 ->
  ls_agree_scaled lsm lsq lsm' lsq' (nrm2 c) x P Q lag -> arma_nondeg lsm lsq x P Q lag ->
  parma_call tw lsm' lsq' (vscale c x) P Q lag twopi sampling NFFT real sbf
  = call_scaled (nrm2 c) (parma_call tw lsm lsq x P Q lag twopi sampling NFFT real sbf).
Proof.
  intros Hc Hls Hnd. unfold parma_call. rewrite (arma_estimate_scale_gen lsm lsq lsm' lsq' c x P Q lag Hc Hls Hnd).
  destruct (arma_estimate lsm lsq x P Q lag) as [e|[[a b] rho]]; [reflexivity|]. cbn [arma_scaled].
  rewrite su_vscale_length. apply class_call_scale_thm.
Qed.
Theorem parma_scale_thm tw (lsm lsq : list F -> nat -> list F) c (x : list F) P Q lag twopi sampling NFFT real sbf : c <> 0 ->
  ls_homogeneous lsm lsq -> arma_nondeg lsm lsq x P Q lag ->
  parma_call tw lsm lsq (vscale c x) P Q lag twopi sampling NFFT real sbf
  = call_scaled (nrm2 c) (parma_call tw lsm lsq x P Q lag twopi sampling NFFT real sbf).
Proof.
  intros Hc Hh Hnd. apply parma_scale_gen; [exact Hc| |exact Hnd]. intros r _. apply Hh. apply su_nrm2_neq0. exact Hc.
Qed.
Theorem pma_scale_thm tw c (x : list F) Q M twopi sampling NFFT real sbf : c <> 0 ->
  (forall b rho, ma x Q M = inr (b, rho) -> nonzero_data x) ->
  pma_call tw (vscale c x) Q M twopi sampling NFFT real sbf = call_scaled (nrm2 c) (pma_call tw x Q M twopi sampling NFFT real sbf).
Proof.
  intros Hc Hx. unfold pma_call. rewrite (ma_scale_thm c x Q M Hc Hx).
  destruct (ma x Q M) as [e|[b rho]]; [reflexivity|]. cbn [ma_scaled]. rewrite su_vscale_length. apply class_call_scale_thm.
Qed.
End ScaleArma.
