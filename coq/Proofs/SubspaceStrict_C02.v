(* C02 — MUSIC / EV: the denominator has NO zero other than the true bins (noiseless on-grid exponentials, NSIG = K).

   If e(b) were orthogonal to every noise vector for a bin b that is not congruent to a true bin, the K+1 exponential vectors
   e(b_0), .., e(b_{K-1}), e(b) would all lie in the span of the K signal vectors (completeness of the unitary V), hence be linearly
   dependent (EigenRank.span_dependent) -- but K+1 <= P exponentials with distinct nodes are independent (transposed Vandermonde,
   CovarVdm.vdm_transposed).  Hence D(b) > 0 and the pseudo-spectrum 1/D(b) is finite and positive at every other bin. *)
Require Import Spectrum.Theory.Ops Spectrum.Theory.Sum Spectrum.Theory.Vec Spectrum.Theory.Order Spectrum.Theory.Dft
               Spectrum.Model.Ls Spectrum.Proofs.CovarVdm
               Spectrum.Model.Eigen Spectrum.Proofs.EigenFB Spectrum.Proofs.EigenAxis Spectrum.Proofs.EigenTheory Spectrum.Proofs.EigenRank
               Spectrum.Proofs.ToneExact_C02.
From Coq Require Import Lia.

Section Strict.
Context {F : Type} {OF : Ops F} {L : Laws OF} {OL : OrdLaws OF}.
Local Open Scope F_scope.
Add Field FFss : (fth (O:=OF)).
Variables (tw : Z -> F) (NFFT : nat).
Context {T : Twiddle NFFT tw}.
Hypothesis Hpos : (0 < NFFT)%nat.

(* K+1 pairwise incongruent bins cannot all be orthogonal to the P-K trailing vectors of a unitary V *)
Theorem exponentials_not_all_in_signal_space (FB : list (list F)) (rows P K : nat) (S : list F) (Vh : list (list F)) (bs : nat -> Z) :
  svd_spec FB rows P S Vh -> (K < P)%nat ->
  (forall s t, (s < t <= K)%nat -> ((bs s - bs t) mod Z.of_nat NFFT <> 0)%Z) ->
  (forall s I, (s <= K)%nat -> (K <= I)%nat -> (I < P)%nat -> dftN tw P (rsv Vh I) (bs s) = 0) -> False.
Proof.
  intros Hs HK Hinc Horth.
  set (e := fun s m => tw (- (Z.of_nat m * bs s))%Z).
  set (g := fun s I => conj (dftN tw P (rsv Vh I) (bs s))).
  (* every e(b_s) is a combination of the first K right singular vectors *)
  assert (Hspan : forall s m, (s <= K)%nat -> (m < P)%nat -> e s m = sumf K (fun I => g s I * rsv Vh I m)).
  { intros s m Hs' Hm.
    transitivity (sumf P (fun I => g s I * rsv Vh I m)).
    - transitivity (sumf P (fun m' => (if (m =? m')%nat then 1 else 0) * e s m')).
      + rewrite (sumf_single P m); [rewrite Nat.eqb_refl; ring|exact Hm|].
        intros j Hj Hne. destruct (Nat.eqb_spec m j); [congruence|ring].
      + transitivity (sumf P (fun m' => sumf P (fun I => rsv Vh I m * conj (rsv Vh I m')) * e s m')).
        { apply sumf_ext; intros m' Hm'. rewrite (svd_complete _ _ _ _ _ Hs m m' Hm Hm'). reflexivity. }
        transitivity (sumf P (fun m' => sumf P (fun I => rsv Vh I m * (conj (rsv Vh I m') * e s m')))).
        { apply sumf_ext; intros m' _. rewrite <- sumf_scale_r. apply sumf_ext; intros; ring. }
        rewrite sumf_exch. apply sumf_ext; intros I _. rewrite sumf_scale.
        transitivity (rsv Vh I m * g s I); [|ring]. f_equal.
        unfold g, dftN. rewrite sumf_conj. apply sumf_ext; intros m' _. rewrite conj_mul. f_equal.
        unfold e. rewrite tw_cj. reflexivity.
    - replace P with (K + (P - K))%nat at 1 by lia. rewrite sumf_split.
      rewrite (sumf_zero_ext (P - K)); [ring|]. intros t Ht. unfold g. rewrite Horth by lia. rewrite conj_0. ring. }
  destruct (span_dependent K P e g (fun I m => rsv Vh I m) ltac:(intros j k Hj Hk; apply Hspan; assumption)) as (a & (s0 & Hs0 & Hne) & Hdep).
  apply Hne.
  apply (vdm_transposed (Datatypes.S K) (fun s => tw (- bs s)%Z) a); [| |lia].
  - intros i j Hij E. apply (Hinc i j ltac:(lia)).
    pose proof (tw_eq_congr NFFT tw Hpos _ _ E) as H.
    replace (bs i - bs j)%Z with (- (- bs i - - bs j))%Z by lia. apply Z.mod_opp_l_z; [lia|exact H].
  - intros n Hn. rewrite <- (Hdep n ltac:(lia)). apply sumf_ext; intros s _. f_equal.
    rewrite (powF_tw NFFT tw Hpos). unfold e. f_equal. lia.
Qed.

(* on eigen()'s pseudo-spectrum *)
Variables (x : list F) (P K : nat) (A z : nat -> F) (bin : nat -> Z) (S : list F) (Vh : list (list F)) (meth : method_arg) (eps : F).
Hypothesis Hx : forall n, (n < length x)%nat -> nthF x n = expsig K A z n.
Hypothesis Hgrid : forall i, (i < K)%nat -> z i = tw (- bin i)%Z.
Hypothesis HK : (K <= np_of (length x) P)%nat.
Hypothesis Hd : EigenFB.distinct K z.
Hypothesis HA : forall i, (i < K)%nat -> A i <> 0.
Hypothesis Hs : svd_spec (fb_matrix x P) (2 * np_of (length x) P) P S Vh.
Hypothesis HKP : (K < P)%nat.
Hypothesis Hev : meth = MEv -> pos eps /\ pos (nthF S 0).

Theorem music_no_other_zero_thm (b : Z) :
  (forall i, (i < K)%nat -> ((b - bin i) mod Z.of_nat NFFT <> 0)%Z) ->
  pos (dform meth eps tw P S Vh K b) /\ pos (1 / dform meth eps tw P S Vh K b).
Proof.
  intros Hb.
  assert (Hw : meth = MEv -> pos eps /\ pos (nthF S 0) /\ forall I, (K <= I)%nat -> (I < P)%nat -> nonneg (nthF S I)).
  { intros Em. destruct (Hev Em) as [H1 H2]. split; [exact H1|]. split; [exact H2|].
    intros I _ HI. apply (svd_nonneg _ _ _ _ _ Hs); exact HI. }
  assert (Hu : forall i, (i < K)%nat -> z i * conj (z i) = 1).
  { intros i Hi. rewrite (Hgrid i Hi). exact (tw_nrm2 NFFT tw Hpos (- bin i)%Z). }
  pose proof (noiseless_rank_thm x P K A z S Vh Hx Hu Hs) as Hzero.
  assert (Hp : pos (dform meth eps tw P S Vh K b)).
  { split; [apply dform_nonneg; exact Hw|]. intros E.
    pose proof (proj1 (dform_zero_iff tw meth eps P S Vh K Hw b) E) as Hob.
    apply (exponentials_not_all_in_signal_space (fb_matrix x P) (2 * np_of (length x) P) P K S Vh
             (fun s => if (s <? K)%nat then bin s else b) Hs HKP).
    - intros s t Hst. destruct (Nat.ltb_spec s K) as [HsK|HsK]; [|lia].
      destruct (Nat.ltb_spec t K) as [HtK|HtK].
      + intros E2. apply (Hd s t HsK HtK ltac:(lia)). rewrite (Hgrid s HsK), (Hgrid t HtK).
        apply (tw_eq_mod NFFT tw Hpos).
        apply Z.mod_divide in E2; [|lia]. destruct E2 as [q Eq].
        replace (- bin s)%Z with (- bin t + (- q) * Z.of_nat NFFT)%Z by lia. apply Z.mod_add. lia.
      + intros E2. apply (Hb s HsK).
        replace (b - bin s)%Z with (- (bin s - b))%Z by lia. apply Z.mod_opp_l_z; [lia|exact E2].
    - intros s I HsK HI1 HI2. destruct (Nat.ltb_spec s K) as [Hlt|Hge].
      + apply (noise_projection_vanishes tw NFFT Hpos x P K A z bin S Vh K Hx Hgrid HK Hd HA); try assumption.
        intros I' H1 H2. split; [apply (svd_gram _ _ _ _ _ Hs); exact H2|apply Hzero; assumption].
      + apply Hob; assumption. }
  split; [exact Hp|]. apply pos_div; [apply pos_1|exact Hp].
Qed.
End Strict.
