(* The two generators built with where()/concatenate (parzen, tukey): the index sets of the code are
   contiguous because linspace is increasing, so the concatenation is the pointwise piecewise function
   (parzen) resp. has a short enough head (tukey). *)
From Coq Require Import Reals Lra Lia Sorted.
Require Import Spectrum.Theory.Ops Spectrum.Theory.Vec Spectrum.Model.Window Spectrum.Instances.RWin
               Spectrum.Proofs.WindowBridge Spectrum.Proofs.WindowReal.
Local Open Scope R_scope.
Notation length := List.length.

Lemma In_zseq j s n : In j (zseq s n) <-> (s <= j < s + Z.of_nat n)%Z.
Proof.
  revert s; induction n; intros s; cbn [zseq In]; [lia|]. rewrite IHn. lia.
Qed.
Lemma zseq_app s a b : zseq s (a + b) = zseq s a ++ zseq (s + Z.of_nat a) b.
Proof.
  revert s; induction a; intros s; cbn [zseq Nat.add app].
  - f_equal. lia.
  - f_equal. rewrite IHa. f_equal. f_equal. lia.
Qed.
Lemma zseq_length s n : length (zseq s n) = n.
Proof. revert s; induction n; intros; cbn; [reflexivity|rewrite IHn; reflexivity]. Qed.
Lemma filter_none {A} (p : A -> bool) l : (forall z, In z l -> p z = false) -> filter p l = [].
Proof.
  induction l as [|a t IH]; intros H; [reflexivity|]. cbn. rewrite (H a) by (left; reflexivity).
  apply IH. intros z Hz. apply H. right; exact Hz.
Qed.
Lemma filter_length_le {A} (p : A -> bool) l : (length (filter p l) <= length l)%nat.
Proof. induction l; cbn; [lia|]. destruct (p a); cbn; lia. Qed.

(* a head count: if the predicate fails from index K on, at most K samples pass *)
Lemma filter_prefix_le (p : R -> bool) (f : Z -> R) N K :
  (forall i, (Z.of_nat K <= i < Z.of_nat N)%Z -> p (f i) = false) ->
  (length (filter p (mkz N f)) <= K)%nat.
Proof.
  intros H. destruct (Nat.le_gt_cases N K) as [Hle|Hgt].
  - eapply Nat.le_trans; [apply filter_length_le|]. rewrite mkz_length. exact Hle.
  - unfold mkz. replace N with (K + (N - K))%nat by lia. rewrite zseq_app, map_app, filter_app, app_length.
    rewrite (filter_none p (map f (zseq (0 + Z.of_nat K) (N - K)))).
    + cbn. eapply Nat.le_trans; [rewrite Nat.add_0_r; apply filter_length_le|]. rewrite map_length, zseq_length. lia.
    + intros z Hz. apply in_map_iff in Hz. destruct Hz as [i [<- Hi]]. apply In_zseq in Hi. apply H. lia.
Qed.

Lemma ss_zseq (f : Z -> R) n s : (forall i j, (s <= i < j)%Z -> (j < s + Z.of_nat n)%Z -> f i < f j) ->
  StronglySorted Rlt (map f (zseq s n)).
Proof.
  revert s; induction n; intros s H; cbn [zseq map]; constructor.
  - apply IHn. intros i j Hij Hj. apply H; lia.
  - apply Forall_forall. intros y Hy. apply in_map_iff in Hy. destruct Hy as [j [<- Hj]]. apply In_zseq in Hj.
    apply H; lia.
Qed.

(* three-way split of an increasing list at -q and q (q >= 0), as the code does with where() *)
Lemma three_way (fi fo : R -> R) (q : R) (l : list R) : 0 <= q -> StronglySorted Rlt l ->
  map fo (filter (fun y => Rltb y (- q)) l) ++ map fi (filter (fun y => Rleb (Rabs y) q) l)
    ++ map fo (filter (fun y => Rltb q y) l)
  = map (fun y => if Rleb (Rabs y) q then fi y else fo y) l.
Proof.
  intros Hq Hs. induction Hs as [|y t Hs IH Hall]; [reflexivity|].
  rewrite Forall_forall in Hall. cbn [filter map].
  destruct (Rleb (Rabs y) q) eqn:E2.
  - apply Rleb_true in E2. assert (Hy : - q <= y <= q) by (apply Rabs_le_inv in E2 || (unfold Rabs in E2; destruct (Rcase_abs y); lra); lra).
    assert (E1 : Rltb y (- q) = false) by (apply Rltb_false; lra).
    assert (E3 : Rltb q y = false) by (apply Rltb_false; lra).
    rewrite E1, E3. rewrite <- IH.
    rewrite (filter_none (fun y0 => Rltb y0 (- q)) t).
    + reflexivity.
    + intros z Hz. apply Rltb_false. specialize (Hall z Hz). lra.
  - apply Rleb_false in E2.
    destruct (Rltb y (- q)) eqn:E1.
    + apply Rltb_true in E1. assert (E3 : Rltb q y = false) by (apply Rltb_false; lra).
      rewrite E3. cbn [map app]. rewrite IH. reflexivity.
    + apply Rltb_false in E1.
      assert (Hy : q < y) by (unfold Rabs in E2; destruct (Rcase_abs y); lra).
      assert (E3 : Rltb q y = true) by (apply Rltb_true; exact Hy). rewrite E3. rewrite <- IH.
      rewrite (filter_none (fun y0 => Rltb y0 (- q)) t), (filter_none (fun y0 => Rleb (Rabs y0) q) t).
      * reflexivity.
      * intros z Hz. apply Rleb_false. specialize (Hall z Hz). unfold Rabs. destruct (Rcase_abs z); lra.
      * intros z Hz. apply Rltb_false. specialize (Hall z Hz). lra.
Qed.

Section Piecewise.
Variables (I0 : R -> R) (cheb : nat -> R -> list R).
#[local] Hint Extern 0 (TOps R) => exact (rT I0 cheb) : typeclass_instances.
Ltac tsimp := cbn [tcos tsin texp tln tsqrt tabs tpi tI0 tltb tleb teqb tcheb r_tops rT] in *; rsimp.

(* linspace(-(N-1)/2, (N-1)/2, N)[i] = i - (N-1)/2 *)
Definition pz_t (N : nat) (i : Z) : R :=
  linspace (- (ofZ (Z.of_nat N - 1) / two)) (ofZ (Z.of_nat N - 1) / two) (Z.of_nat N) i.
Lemma pz_t_R N i : (2 <= N)%nat -> (0 <= i < Z.of_nat N)%Z -> pz_t N i = IZR i - IZR (Z.of_nat N - 1) / 2.
Proof.
  intros HN Hi. unfold pz_t. rewrite linspace_R by assumption. rewrite ofZ_IZR, two_R. tsimp.
  pose proof (IZR_pred_pos N HN). field. lra.
Qed.
Definition parzen_pw (N : nat) (i : Z) : R :=
  let y := pz_t N i in
  if Rleb (Rabs y) (IZR (Z.of_nat N - 1) / 4) then parzen_in (Z.of_nat N) y else parzen_out (Z.of_nat N) y.

Theorem parzen_pointwise N : window_parzen N = mkz N (parzen_pw N).
Proof.
  unfold window_parzen. cbv zeta.
  destruct N as [|N']; [reflexivity|]. set (N := S N') in *.
  assert (Hq : 0 <= @ofZ R r_ops (Z.of_nat N - 1) / ofZ 4).
  { rewrite !ofZ_IZR. assert (0 <= IZR (Z.of_nat N - 1)) by (apply IZR_le; lia). lra. }
  etransitivity.
  { apply (three_way (parzen_in (Z.of_nat N)) (parzen_out (Z.of_nat N)) (ofZ (Z.of_nat N - 1) / ofZ 4) (mkz N (pz_t N)) Hq).
    unfold mkz. apply ss_zseq. intros i j Hij Hj. rewrite !pz_t_R by lia.
    assert (IZR i < IZR j) by (apply IZR_lt; lia). lra. }
  unfold mkz. rewrite map_map. apply map_ext. intros i. unfold parzen_pw. cbv zeta. rewrite !ofZ_IZR. reflexivity.
Qed.

(* tukey: at most N/2 samples of linspace(0,1,N) lie below r/2 when r <= 1 *)
Lemma tukey_head_le N r : (2 <= N)%nat -> r <= 1 -> (length (tukey_head N r) <= N / 2)%nat.
Proof.
  intros HN Hr. unfold tukey_head. cbv zeta. rewrite map_length. apply filter_prefix_le.
  intros i Hi. tsimp. apply Rltb_false. rewrite linspace_R by lia. rewrite two_R.
  pose proof (IZR_pred_pos N HN) as Hm.
  assert (Hk : (Z.of_nat N - 1 <= 2 * i)%Z).
  { pose proof (Nat.div_mod N 2) as Hd. pose proof (Nat.mod_upper_bound N 2) as Hb.
    assert (N <= 2 * (N / 2) + 1)%nat by lia. lia. }
  apply IZR_le in Hk. rewrite mult_IZR in Hk.
  replace (IZR i * ((1 - 0) / IZR (Z.of_nat N - 1)) + 0) with (IZR i / IZR (Z.of_nat N - 1)) by (field; lra).
  assert (H12 : / 2 <= IZR i / IZR (Z.of_nat N - 1)).
  { apply (Rmult_le_reg_r (IZR (Z.of_nat N - 1))); [exact Hm|]. unfold Rdiv. rewrite Rmult_assoc, Rinv_l by lra. lra. }
  lra.
Qed.
Lemma tukey_length N r : 0 <= r <= 1 -> length (window_tukey N r) = N.
Proof.
  intros Hr. unfold window_tukey. destruct (Nat.eqb_spec N 1) as [->|HN]; [reflexivity|].
  match goal with |- length (if ?c then _ else _) = _ => destruct c end; [apply ones_length|].
  match goal with |- length (if ?c then _ else _) = _ => destruct c end; [apply unless1_length|].
  cbv zeta. rewrite !app_length, rev_length, ones_length.
  destruct (Nat.lt_ge_cases N 2) as [Hs|Hl].
  - assert (N = 0)%nat by lia. subst N. unfold tukey_head. cbn. reflexivity.
  - pose proof (tukey_head_le N r Hl (proj2 Hr)). pose proof (Nat.div_mod N 2). pose proof (Nat.mod_upper_bound N 2). lia.
Qed.
End Piecewise.
