(* C02 — an on-grid complex exponential peaks at its own bin in every windowed periodogram:
   |sum_n w_n u_n|^2 <= (sum_n w_n)^2 for non-negative weights and unimodular u (triangle inequality without
   square roots, in the abstract ordered *-field), hence |DFT_j(w .* A tw(-k n))|^2 <= |DFT_k(...)|^2 = |A|^2 (sum w)^2. *)
Require Import Spectrum.Theory.Ops Spectrum.Theory.Sum Spectrum.Theory.Vec Spectrum.Theory.Order Spectrum.Theory.Dft.

Section Peak.
Context {F : Type} {OF : Ops F} {L : Laws OF} {OL : OrdLaws OF}.
Local Open Scope F_scope.
Add Field FFpk : (fth (O:=OF)).

Lemma nrm2_diff_unit u v : nrm2 u = 1 -> nrm2 v = 1 -> nrm2 (u - v) = (1 + 1) - u * conj v - conj u * v.
Proof.
  unfold nrm2. intros Hu Hv. rewrite conj_sub.
  transitivity (u * conj u + v * conj v - u * conj v - conj u * v); [ring|]. rewrite Hu, Hv. ring.
Qed.

Theorem weighted_unit_sum_bound N (w u : nat -> F) :
  (forall n, (n < N)%nat -> nonneg (w n)) -> (forall n, (n < N)%nat -> nrm2 (u n) = 1) ->
  le (nrm2 (sumf N (fun n => w n * u n))) (sumf N w * sumf N w).
Proof.
  intros Hw Hu.
  set (S := sumf N (fun n => w n * u n)). set (W := sumf N w).
  assert (Hwr : forall n, (n < N)%nat -> conj (w n) = w n) by (intros n Hn; apply nn_real, Hw, Hn).
  assert (HcS : conj S = sumf N (fun n => w n * conj (u n))).
  { unfold S. rewrite sumf_conj. apply sumf_ext; intros n Hn. rewrite conj_mul, Hwr by exact Hn. reflexivity. }
  (* 2 (W^2 - |S|^2) = sum_n sum_m w_n w_m |u_n - u_m|^2 *)
  assert (Key : sumf N (fun n => sumf N (fun m => w n * w m * nrm2 (u n - u m))) = (1 + 1) * (W * W - nrm2 S)).
  { rewrite (sumf_ext N _ (fun n => (1 + 1) * w n * W - (w n * u n) * conj S - (w n * conj (u n)) * S)).
    - rewrite !sumf_sub. rewrite sumf_scale_r, sumf_scale, !sumf_scale_r. fold S W. rewrite <- HcS. unfold nrm2. ring.
    - intros n Hn.
      rewrite (sumf_ext N _ (fun m => (1 + 1) * w n * w m - (w n * u n) * (w m * conj (u m)) - (w n * conj (u n)) * (w m * u m))).
      + rewrite !sumf_sub, !sumf_scale. fold W S. rewrite HcS. reflexivity.
      + intros m Hm. rewrite nrm2_diff_unit by (apply Hu; assumption). ring. }
  unfold le. apply (nonneg_cancel _ (1 + 1)).
  - split; [apply nn_add; apply nonneg_1|apply two_neq_0].
  - rewrite <- Key. apply nonneg_sumf; intros n Hn. apply nonneg_sumf; intros m Hm.
    apply nn_mul; [apply nn_mul; apply Hw; assumption|apply nn_nrm2].
Qed.

Context (n : nat) (tw : Z -> F) {T : Twiddle n tw} (n_pos : (0 < n)%nat).

(* windowed transform of the on-grid exponential A * tw(-(k*j)) (frequency of bin k) *)
Definition tone (A : F) (k : Z) : nat -> F := fun j => A * tw (- (k * Z.of_nat j))%Z.

Theorem tone_dft_at_bin N (w : nat -> F) A (k : Z) :
  dftN tw N (fun j => w j * tone A k j) k = A * sumf N w.
Proof.
  unfold dftN, tone. rewrite <- sumf_scale. apply sumf_ext; intros j _.
  transitivity (A * w j * (tw (- (k * Z.of_nat j)) * tw (Z.of_nat j * k))); [ring|].
  rewrite <- tw_add. replace (- (k * Z.of_nat j) + Z.of_nat j * k)%Z with 0%Z by lia. rewrite tw_0. ring.
Qed.

(* every other bin is no larger: the periodogram of a windowed on-grid exponential has its maximum at that bin *)
Theorem tone_peak N (w : nat -> F) A (k j : Z) : (forall i, (i < N)%nat -> nonneg (w i)) ->
  le (nrm2 (dftN tw N (fun i => w i * tone A k i) j)) (nrm2 (dftN tw N (fun i => w i * tone A k i) k)).
Proof.
  intros Hw. rewrite tone_dft_at_bin.
  assert (E : dftN tw N (fun i => w i * tone A k i) j = A * sumf N (fun i => w i * tw (Z.of_nat i * (j - k))%Z)).
  { unfold dftN, tone. rewrite <- sumf_scale. apply sumf_ext; intros i _.
    transitivity (A * w i * (tw (- (k * Z.of_nat i)) * tw (Z.of_nat i * j))); [ring|].
    rewrite <- tw_add. replace (- (k * Z.of_nat i) + Z.of_nat i * j)%Z with (Z.of_nat i * (j - k))%Z by lia. ring. }
  rewrite E, !nrm2_mul.
  assert (HW : nrm2 (sumf N w) = sumf N w * sumf N w).
  { unfold nrm2. f_equal. rewrite sumf_conj. apply sumf_ext; intros i Hi. apply nn_real, Hw, Hi. }
  rewrite HW. unfold le.
  apply (nonneg_eq (nrm2 A * (sumf N w * sumf N w - nrm2 (sumf N (fun i => w i * tw (Z.of_nat i * (j - k))%Z))))); [ring|].
  apply nn_mul; [apply nn_nrm2|]. apply (weighted_unit_sum_bound N w (fun i => tw (Z.of_nat i * (j - k))%Z) Hw).
  intros i _. apply (tw_nrm2 n tw n_pos).
Qed.
End Peak.
