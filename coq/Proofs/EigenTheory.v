(* C17, part 3: decision logic of eigen(), the SVD specification and what follows from it (noise vectors are null vectors
   of FB, the MUSIC / EV denominators vanish at the true bins), positivity, and the axis theorems stated on the model
   functions eigen / pclass.  Abstract (ordered) *-field. *)
Require Import Spectrum.Theory.Ops Spectrum.Theory.Sum Spectrum.Theory.Vec Spectrum.Theory.Order Spectrum.Theory.Dft
               Spectrum.Model.Eigen Spectrum.Proofs.EigenFB Spectrum.Proofs.EigenAxis.

(* ====================== decision logic ====================== *)
Section Decide.
Context {F : Type} {OF : Ops F}.
Local Open Scope F_scope.

(* the threshold rule of _get_signal_space: #{S_i > threshold * min S}, at least 1 *)
Definition thr_nsig (S : list F) (t : F) : nat :=
  let c := count_gt S (t * minL S) in if (c =? 0)%nat then 1%nat else c.

(* what a successful run has decided: complete inversion of [eigen_nsig] *)
Definition choice_spec (nsig : option nsig_arg) (thr : option F) (crit : crit_arg) (amin P : nat) (S : list F) (ns : nat) : Prop :=
  match nsig, thr with
  | Some n, None => exists z, n = NInt z /\ (0 <= z < Z.of_nat P)%Z /\ ns = Z.to_nat z     (* explicit: an int in 0..P-1; criteria unused *)
  | None, Some t => lt1 t = false /\ ns = thr_nsig S t                                     (* threshold >= 1: the counting rule *)
  | None, None => crit <> COther /\ (1 < length S)%nat /\ ns = (amin + 1)%nat             (* AIC / MDL: argmin + 1 *)
  | Some _, Some _ => False                                                                (* never together *)
  end.

Theorem signal_space_choice_thm meth nsig thr crit amin N P NFFT S ns :
  eigen_nsig meth nsig thr crit amin N P NFFT S = inr ns ->
  meth <> MOther /\ assert_ok N P = true /\ (ns < P -> P <= NFFT)%nat /\ choice_spec nsig thr crit amin P S ns.
Proof.
  unfold eigen_nsig. intros H.
  assert (Hm : meth <> MOther) by (destruct meth; [discriminate|discriminate|discriminate H]).
  split; [exact Hm|].
  assert (H' : (if is_some nsig && is_some thr then inl EExclusive
    else if match thr with Some t => lt1 t | None => false end then inl EThreshold
    else if match nsig with Some n => nsig_neg n | None => false end then inl ENsigNeg
    else if match nsig with Some n => nsig_big n P | None => false end then inl ENsigBig
    else if negb (assert_ok N P) then inl EAssert
    else match get_signal_space S nsig thr crit amin with
         | inl e => inl e
         | inr (NFlt _ _) => inl ENsigType
         | inr (NInt z) => let ns := Z.to_nat z in if (ns <? P)%nat && (NFFT <? P)%nat then inl ENfft else inr ns
         end) = inr ns) by (destruct meth; [exact H|exact H|contradiction Hm; reflexivity]).
  clear H. revert H'. unfold choice_spec.
  assert (Hfft : forall n0 : nat, (n0 <? P)%nat && (NFFT <? P)%nat = false -> (n0 < P -> P <= NFFT)%nat).
  { intros n0 E Hlt. apply andb_false_iff in E. destruct E as [E|E]; apply Nat.ltb_ge in E; lia. }
  destruct nsig as [n|]; destruct thr as [t|]; cbn [is_some andb]; try discriminate.
  - (* explicit NSIG *)
    destruct (nsig_neg n) eqn:En; [discriminate|]. destruct (nsig_big n P) eqn:Eb; [discriminate|].
    destruct (assert_ok N P) eqn:Ea; cbn [negb]; [|discriminate].
    cbn [get_signal_space]. destruct n as [z|z b]; [|discriminate]. cbv zeta.
    destruct ((Z.to_nat z <? P)%nat && (NFFT <? P)%nat) eqn:Ef; [discriminate|]. intros H; injection H as <-.
    unfold nsig_neg, nsig_big in *; cbn [nsig_z] in *. apply Z.ltb_ge in En. apply Z.leb_gt in Eb.
    split; [reflexivity|]. split; [apply Hfft; exact Ef|]. exists z. repeat split; lia.
  - (* threshold *)
    destruct (lt1 t) eqn:Et; [discriminate|]. destruct (assert_ok N P) eqn:Ea; cbn [negb]; [|discriminate].
    cbn [get_signal_space]. cbv zeta. rewrite Nat2Z.id. fold (thr_nsig S t).
    destruct ((thr_nsig S t <? P)%nat && (NFFT <? P)%nat) eqn:Ef; [discriminate|]. intros H; injection H as <-.
    split; [reflexivity|]. split; [apply Hfft; exact Ef|]. split; reflexivity.
  - (* criteria *)
    destruct (assert_ok N P) eqn:Ea; cbn [negb]; [|discriminate].
    cbn [get_signal_space].
    destruct crit; try discriminate;
    (destruct (Nat.leb_spec (length S) 1) as [Hl|Hl]; [discriminate|]; cbv zeta; rewrite Nat2Z.id;
     destruct ((amin + 1 <? P)%nat && (NFFT <? P)%nat) eqn:Ef; [discriminate|]; intros H; injection H as <-;
     split; [reflexivity|]; split; [apply Hfft; exact Ef|]; split; [discriminate|]; split; [exact Hl|reflexivity]).
Qed.

(* every rejection, in the order the code tests them (each assumes the tests before it pass) *)
Theorem signal_space_rejects_thm meth nsig thr crit amin N P NFFT S :
  (meth = MOther -> eigen_nsig meth nsig thr crit amin N P NFFT S = inl EMethod)
  /\ (meth <> MOther -> forall n t, nsig = Some n -> thr = Some t -> eigen_nsig meth nsig thr crit amin N P NFFT S = inl EExclusive)
  /\ (meth <> MOther -> forall t, nsig = None -> thr = Some t -> lt1 t = true -> eigen_nsig meth nsig thr crit amin N P NFFT S = inl EThreshold)
  /\ (meth <> MOther -> forall n, nsig = Some n -> thr = None -> (nsig_z n < 0)%Z -> eigen_nsig meth nsig thr crit amin N P NFFT S = inl ENsigNeg)
  /\ (meth <> MOther -> forall n, nsig = Some n -> thr = None -> (Z.of_nat P <= nsig_z n)%Z -> eigen_nsig meth nsig thr crit amin N P NFFT S = inl ENsigBig)
  /\ (meth <> MOther -> forall z b, nsig = Some (NFlt z b) -> thr = None -> (0 <= z < Z.of_nat P)%Z -> assert_ok N P = true ->
        eigen_nsig meth nsig thr crit amin N P NFFT S = inl ENsigType)
  /\ (meth <> MOther -> nsig = None -> thr = None -> assert_ok N P = true -> crit = COther -> eigen_nsig meth nsig thr crit amin N P NFFT S = inl ECritUnknown)
  /\ (meth <> MOther -> (forall n t, nsig = Some n -> thr = Some t -> False) -> (forall t, thr = Some t -> lt1 t = false) ->
        (forall n, nsig = Some n -> (0 <= nsig_z n < Z.of_nat P)%Z) -> assert_ok N P = false -> eigen_nsig meth nsig thr crit amin N P NFFT S = inl EAssert).
Proof.
  unfold eigen_nsig. repeat split.
  - intros ->. reflexivity.
  - intros Hm n t -> ->. destruct meth; try reflexivity. contradiction.
  - intros Hm t -> -> Ht. destruct meth; cbn [is_some andb]; try rewrite Ht; try reflexivity. contradiction.
  - intros Hm n -> -> Hn. apply Z.ltb_lt in Hn. destruct meth; cbn [is_some andb]; unfold nsig_neg; try rewrite Hn; try reflexivity. contradiction.
  - intros Hm n -> -> Hn. destruct meth; cbn [is_some andb]; unfold nsig_neg, nsig_big;
      try (destruct (Z.ltb_spec (nsig_z n) 0); [lia|]; apply Z.leb_le in Hn; rewrite Hn; reflexivity). contradiction.
  - intros Hm z b -> -> Hz Ha. destruct meth; cbn [is_some andb get_signal_space]; unfold nsig_neg, nsig_big; cbn [nsig_z];
      try (destruct (Z.ltb_spec z 0); [lia|]; destruct (Z.leb_spec (Z.of_nat P) z); [lia|]; rewrite Ha; reflexivity). contradiction.
  - intros Hm -> -> Ha ->. destruct meth; cbn [is_some andb get_signal_space]; try rewrite Ha; try reflexivity. contradiction.
  - intros Hm Hex Ht Hn Ha.
    assert (E1 : is_some nsig && is_some thr = false).
    { destruct nsig as [n|]; destruct thr as [t|]; try reflexivity. exfalso. apply (Hex n t); reflexivity. }
    assert (E2 : match thr with Some t => lt1 t | None => false end = false).
    { destruct thr as [t|]; [apply Ht|]; reflexivity. }
    assert (E3 : match nsig with Some n => nsig_neg n | None => false end = false).
    { destruct nsig as [n|]; [|reflexivity]. unfold nsig_neg. apply Z.ltb_ge. apply (Hn n). reflexivity. }
    assert (E4 : match nsig with Some n => nsig_big n P | None => false end = false).
    { destruct nsig as [n|]; [|reflexivity]. unfold nsig_big. apply Z.leb_gt. apply (Hn n). reflexivity. }
    destruct meth; try rewrite E1, E2, E3, E4, Ha; try reflexivity. contradiction.
Qed.
(* an accepted explicit NSIG makes criteria and the AIC/MDL index irrelevant; so does an accepted threshold *)
Theorem signal_space_exclusive_thm meth n t crit crit' amin amin' N P NFFT S :
  eigen_nsig meth (Some n) None crit amin N P NFFT S = eigen_nsig meth (Some n) None crit' amin' N P NFFT S
  /\ eigen_nsig meth None (Some t) crit amin N P NFFT S = eigen_nsig meth None (Some t) crit' amin' N P NFFT S.
Proof. split; reflexivity. Qed.
End Decide.

(* ====================== the threshold rule leaves a noise subspace ====================== *)
Section Threshold.
Context {F : Type} {OF : Ops F} {L : Laws OF} {OL : OrdLaws OF}.
Local Open Scope F_scope.
Add Field FFth : (fth (O:=OF)).

Lemma minL_in (a : F) (t : list F) : In (minL (a :: t)) (a :: t).
Proof.
  unfold minL. revert a. induction t as [|b t IH]; intros a; [left; reflexivity|].
  cbn [fold_left]. destruct (gtb a b).
  - destruct (IH b) as [E|Hin]; [right; left; exact E|right; right; exact Hin].
  - destruct (IH a) as [E|Hin]; [left; exact E|right; right; exact Hin].
Qed.
Lemma filter_drop {A} (f : A -> bool) (l : list A) x : In x l -> f x = false -> (length (filter f l) < length l)%nat.
Proof.
  assert (Hle : forall l0 : list A, (length (filter f l0) <= length l0)%nat).
  { induction l0 as [|b l0 IH0]; [reflexivity|]. cbn [filter length]. destruct (f b); cbn [length]; lia. }
  induction l as [|a l IH]; intros Hin Hf; [destruct Hin|].
  specialize (Hle l).
  cbn [filter length]. destruct Hin as [->|Hin].
  - rewrite Hf. lia.
  - specialize (IH Hin Hf). destruct (f a); cbn [length]; lia.
Qed.
(* threshold >= 1 and non-negative singular values: the smallest one is never counted, so NSIG <= P - 1 *)
Theorem threshold_keeps_noise_thm (S : list F) (t : F) :
  S <> [] -> (forall s, In s S -> nonneg s) -> conj t = t -> lt1 t = false ->
  (1 <= thr_nsig S t)%nat /\ (2 <= length S -> thr_nsig S t < length S)%nat.
Proof.
  intros Hne Hnn Ht Hlt. destruct S as [|a S']; [contradiction Hne; reflexivity|].
  set (m := minL (a :: S')).
  assert (Hm : In m (a :: S')) by apply minL_in.
  assert (Hg : gtb m (t * m) = false).
  { unfold gtb. apply negb_false_iff.
    assert (Hmr : conj m = m) by (apply nn_real, Hnn, Hm).
    assert (Hreal : conj (m - t * m) = m - t * m) by (rewrite conj_sub, conj_mul, Ht, Hmr; reflexivity).
    apply (le0_spec _ Hreal).
    apply (nonneg_eq ((t - 1) * m)); [ring|]. apply nn_mul; [|apply Hnn, Hm].
    unfold lt1 in Hlt. apply negb_false_iff in Hlt.
    assert (Hr1 : conj (1 - t) = 1 - t) by (rewrite conj_sub, conj_1, Ht; reflexivity).
    apply (le0_spec _ Hr1) in Hlt. apply (nonneg_eq (- (1 - t))); [ring|exact Hlt]. }
  pose proof (filter_drop (fun s => gtb s (t * m)) (a :: S') m Hm Hg) as Hc.
  unfold thr_nsig, count_gt. fold m.
  destruct (Nat.eqb_spec (length (filter (fun s => gtb s (t * m)) (a :: S'))) 0) as [E|E]; split; cbn [length] in *; lia.
Qed.
End Threshold.

(* ====================== SVD specification and its consequences ====================== *)
Section Svd.
Context {F : Type} {OF : Ops F} {L : Laws OF} {OL : OrdLaws OF}.
Local Open Scope F_scope.
Add Field FFsv : (fth (O:=OF)).

(* numpy.linalg.svd(FB) = (U, S, Vh) for a rows x P matrix (rows >= P): what the theorems may assume of (S, Vh).
   v_I = conj(Vh[I, :]) is the I-th right singular vector. *)
Definition gram_eq (FB : list (list F)) (rows P : nat) (S : list F) (Vh : list (list F)) (I : nat) : Prop :=
  forall k, (k < P)%nat ->
    sumf rows (fun r => conj (mat FB r k) * mv FB P (rsv Vh I) r) = nthF S I * nthF S I * rsv Vh I k.
Record svd_spec (FB : list (list F)) (rows P : nat) (S : list F) (Vh : list (list F)) : Prop := mkSvd {
  svd_len : length S = P;
  svd_shape : forall I, (I < P)%nat -> length (mrow Vh I) = P;
  svd_nonneg : forall I, (I < P)%nat -> nonneg (nthF S I);
  svd_sorted : forall I J, (I <= J)%nat -> (J < P)%nat -> le (nthF S J) (nthF S I);                 (* S non-increasing *)
  svd_unitary : forall I J, (I < P)%nat -> (J < P)%nat ->                                           (* V unitary *)
      sumf P (fun m => conj (rsv Vh I m) * rsv Vh J m) = if (I =? J)%nat then 1 else 0;
  svd_complete : forall m m', (m < P)%nat -> (m' < P)%nat ->
      sumf P (fun I => rsv Vh I m * conj (rsv Vh I m')) = if (m =? m')%nat then 1 else 0;
  svd_gram : forall I, (I < P)%nat -> gram_eq FB rows P S Vh I }.                                   (* FB^H FB V = V diag(S^2) *)

(* a right singular vector with singular value 0 is annihilated by FB *)
Lemma zero_sv_null FB rows P S Vh I : gram_eq FB rows P S Vh I -> nthF S I = 0 ->
  forall r, (r < rows)%nat -> mv FB P (rsv Vh I) r = 0.
Proof.
  intros Hg Hs. apply sum_nrm2_zero.
  transitivity (sumf P (fun k => conj (rsv Vh I k) * sumf rows (fun r => conj (mat FB r k) * mv FB P (rsv Vh I) r))).
  - transitivity (sumf rows (fun r => sumf P (fun k => conj (rsv Vh I k) * (conj (mat FB r k) * mv FB P (rsv Vh I) r)))).
    + apply sumf_ext; intros r _. unfold nrm2. unfold mv at 2. rewrite sumf_conj, <- sumf_scale.
      apply sumf_ext; intros k _. rewrite conj_mul. ring.
    + rewrite sumf_exch. apply sumf_ext; intros k _. rewrite sumf_scale. reflexivity.
  - apply sumf_zero_ext; intros k Hk. rewrite (Hg k Hk), Hs. ring.
Qed.
(* non-increasing and non-negative: once a singular value is 0 all later ones are *)
Lemma zero_tail FB rows P S Vh K : svd_spec FB rows P S Vh -> nthF S K = 0 ->
  forall I, (K <= I)%nat -> (I < P)%nat -> nthF S I = 0.
Proof.
  intros Hs HK I HKI HI. apply nn_antisym; [apply (svd_nonneg _ _ _ _ _ Hs); exact HI|].
  pose proof (svd_sorted _ _ _ _ _ Hs K I HKI HI) as Hle. unfold le in Hle. rewrite HK in Hle.
  apply (nonneg_eq (0 - nthF S I)); [ring|exact Hle].
Qed.

(* ---------------- noiseless data: the denominators vanish at the true bins ---------------- *)
Section Vanish.
Variables (tw : Z -> F) (NFFT : nat).
Context {T : Twiddle NFFT tw}.
Hypothesis Hpos : (0 < NFFT)%nat.

Lemma pow_tw (b : Z) k : pow (tw b) k = tw (Z.of_nat k * b)%Z.
Proof.
  induction k; [cbn [pow]; rewrite Z.mul_0_l; symmetry; apply tw_0|].
  cbn [pow]. rewrite IHk, <- tw_add. f_equal. lia.
Qed.
Lemma inv_tw (b : Z) : inv (tw (- b)%Z) = tw b.
Proof.
  assert (Hn : tw (- b)%Z <> 0) by (apply (tw_neq_0 NFFT tw Hpos)).
  pose proof (tw_opp NFFT tw Hpos b) as E.
  transitivity (inv (tw (- b)%Z) * (tw b * tw (- b)%Z)); [rewrite E; ring|field; exact Hn].
Qed.
(* the noise polynomial of v at the on-grid pole z = exp(+2 pi i b / NFFT) = tw(-b) is e(b)^H v *)
Lemma npoly_on_grid P (z : nat -> F) (v : nat -> F) i (b : Z) : z i = tw (- b)%Z -> npoly P z v i = dftN tw P v b.
Proof.
  intros Hz. unfold npoly, dftN. apply sumf_ext; intros k _. rewrite Hz, inv_tw, pow_tw. reflexivity.
Qed.

Variables (x : list F) (P K : nat) (A z : nat -> F) (bin : nat -> Z) (S : list F) (Vh : list (list F)) (ns : nat) (eps : F).
Hypothesis Hx : forall n, (n < length x)%nat -> nthF x n = expsig K A z n.            (* x_n = sum_i A_i z_i^n *)
Hypothesis Hgrid : forall i, (i < K)%nat -> z i = tw (- bin i)%Z.                      (* z_i = exp(+2 pi i bin_i / NFFT) *)
Hypothesis HK : (K <= np_of (length x) P)%nat.
Hypothesis Hd : distinct K z.
Hypothesis HA : forall i, (i < K)%nat -> A i <> 0.
(* of the SVD only this is used: the vectors spanning the chosen noise subspace satisfy the Gram equation with singular value 0 *)
Hypothesis Hnoise : forall I, (ns <= I)%nat -> (I < P)%nat ->
  gram_eq (fb_matrix x P) (2 * np_of (length x) P) P S Vh I /\ nthF S I = 0.

Theorem noise_projection_vanishes I i : (ns <= I)%nat -> (I < P)%nat -> (i < K)%nat ->
  dftN tw P (rsv Vh I) (bin i) = 0.
Proof.
  intros HI1 HI2 Hi. destruct (Hnoise I HI1 HI2) as [Hg Hs].
  rewrite <- (npoly_on_grid P z (rsv Vh I) i (bin i) (Hgrid i Hi)).
  assert (Hz : z i <> 0) by (rewrite (Hgrid i Hi); apply (tw_neq_0 NFFT tw Hpos)).
  apply (fwd_null_roots x P K A z Hx (rsv Vh I) HK Hd HA); [|exact Hi|exact Hz].
  intros r Hr. apply (zero_sv_null _ _ _ _ _ _ Hg Hs). lia.
Qed.
(* MUSIC and EV (any weights): the denominator is zero at every true bin, and at every bin congruent to it mod NFFT *)
Theorem denominator_vanishes meth i (c : Z) : (i < K)%nat ->
  dform meth eps tw P S Vh ns (bin i + c * Z.of_nat NFFT)%Z = 0.
Proof.
  intros Hi. rewrite (dform_periodic tw NFFT Hpos). unfold dform. apply sumf_zero_ext; intros t Ht.
  rewrite noise_projection_vanishes by (try exact Hi; lia). unfold nrm2. ring.
Qed.
End Vanish.

(* ---------------- positivity ---------------- *)
Section Positive.
Variables (tw : Z -> F) (meth : method_arg) (eps : F) (P : nat) (S : list F) (Vh : list (list F)) (ns : nat).
(* MUSIC: weights 1; EV: weights 1/max(S_I, eps*S_0): positive as soon as eps > 0, S_0 > 0 and the noise singular values are
   real and non-negative — they may be exactly 0 (D22) *)
Hypothesis Hw : meth = MEv -> pos eps /\ pos (nthF S 0) /\ forall I, (ns <= I)%nat -> (I < P)%nat -> nonneg (nthF S I).

Lemma fmax2_pos a b : conj a = a -> pos b -> pos (fmax2 a b).
Proof.
  intros Ha Hb. unfold fmax2, gtb. destruct (le0 (b - a)) eqn:E; cbn [negb]; [|exact Hb].
  assert (Hr : conj (b - a) = b - a) by (rewrite conj_sub, Ha, (pos_real b Hb); reflexivity).
  apply (le0_spec _ Hr) in E.
  destruct (pos_add_nonneg b (- (b - a)) Hb E) as [H1 H2].
  split; [apply (nonneg_eq (b + - (b - a))); [ring|exact H1]|]. intros E0. apply H2. rewrite <- E0. ring.
Qed.
Lemma weight_pos I : (ns <= I)%nat -> (I < P)%nat -> pos (weight meth eps S I).
Proof.
  intros H1 H2. unfold weight. destruct meth eqn:E; try apply pos_1.
  destruct (Hw eq_refl) as (He & H0 & Hn).
  apply pos_div; [apply pos_1|]. unfold sfloor. apply fmax2_pos; [apply nn_real, Hn; assumption|apply pos_mul; assumption].
Qed.
Theorem dform_nonneg (b : Z) : nonneg (dform meth eps tw P S Vh ns b).
Proof.
  unfold dform. apply nonneg_sumf; intros t Ht. apply nn_mul; [apply nn_nrm2|apply weight_pos; lia].
Qed.
(* the denominator is zero exactly when every noise vector is orthogonal to e(b) *)
Theorem dform_zero_iff (b : Z) :
  dform meth eps tw P S Vh ns b = 0 <-> forall I, (ns <= I)%nat -> (I < P)%nat -> dftN tw P (rsv Vh I) b = 0.
Proof.
  unfold dform. split.
  - intros E I H1 H2.
    pose proof (sumf_nonneg_zero (P - ns) (fun t => nrm2 (dftN tw P (rsv Vh (ns + t)) b) * weight meth eps S (ns + t))) as Hz.
    specialize (Hz ltac:(intros t Ht; apply nn_mul; [apply nn_nrm2|apply weight_pos; lia]) E (I - ns)%nat ltac:(lia)).
    cbv beta in Hz. replace (ns + (I - ns))%nat with I in Hz by lia.
    apply nrm2_zero. apply (mul_cancel_l (weight meth eps S I)); [rewrite <- Hz; ring|apply weight_pos; assumption].
  - intros H. apply sumf_zero_ext; intros t Ht. rewrite H by lia. unfold nrm2. ring.
Qed.
(* positive (hence finite in the reals) wherever the noise-subspace projection does not vanish *)
Theorem pseudo_value_pos (b : Z) I : (ns <= I)%nat -> (I < P)%nat -> dftN tw P (rsv Vh I) b <> 0 ->
  pos (dform meth eps tw P S Vh ns b) /\ pos (1 / dform meth eps tw P S Vh ns b).
Proof.
  intros H1 H2 Hne.
  assert (Hp : pos (dform meth eps tw P S Vh ns b)).
  { split; [apply dform_nonneg|]. intros E. apply Hne. apply (proj1 (dform_zero_iff b) E); assumption. }
  split; [exact Hp|]. apply pos_div; [apply pos_1|exact Hp].
Qed.
End Positive.

(* MUSIC with a unitary V: the denominator never exceeds P (so the pseudo-spectrum is at least 1/P wherever it is defined) *)
Theorem music_den_le_P_thm (tw : Z -> F) (NFFT : nat) {T : Twiddle NFFT tw} (Hpos : (0 < NFFT)%nat)
  FB rows P S Vh ns (eps : F) (b : Z) : svd_spec FB rows P S Vh -> (ns <= P)%nat ->
  le (dform MMusic eps tw P S Vh ns b) (ofnat P).
Proof.
  intros Hs Hns.
  assert (Hall : sumf P (fun I => nrm2 (dftN tw P (rsv Vh I) b)) = ofnat P).
  { transitivity (sumf P (fun m => sumf P (fun m' => (tw (Z.of_nat m * b)%Z * conj (tw (Z.of_nat m' * b)%Z)) *
                                        sumf P (fun I => rsv Vh I m * conj (rsv Vh I m'))))).
    - transitivity (sumf P (fun I => sumf P (fun m => sumf P (fun m' =>
                      (tw (Z.of_nat m * b)%Z * conj (tw (Z.of_nat m' * b)%Z)) * (rsv Vh I m * conj (rsv Vh I m')))))).
      + apply sumf_ext; intros I _. unfold nrm2, dftN. rewrite sumf_conj, <- sumf_scale_r.
        apply sumf_ext; intros m _. rewrite <- sumf_scale. apply sumf_ext; intros m' _. rewrite conj_mul. ring.
      + rewrite sumf_exch. apply sumf_ext; intros m _. rewrite sumf_exch. apply sumf_ext; intros m' _.
        rewrite sumf_scale. reflexivity.
    - rewrite (sumf_ext P _ (fun _ => 1)). { rewrite sumf_const. ring. }
      intros m Hm. rewrite (sumf_single P m); [|exact Hm|].
      + rewrite (svd_complete _ _ _ _ _ Hs m m Hm Hm), Nat.eqb_refl.
        pose proof (tw_nrm2 NFFT tw Hpos (Z.of_nat m * b)%Z) as E. unfold nrm2 in E. rewrite E. ring.
      + intros m' Hm' Hne. rewrite (svd_complete _ _ _ _ _ Hs m m' Hm Hm').
        destruct (Nat.eqb_spec m m'); [congruence|ring]. }
  unfold le, dform. rewrite <- Hall.
  replace P with (ns + (P - ns))%nat at 1 by lia. rewrite sumf_split.
  apply (nonneg_eq (sumf ns (fun I => nrm2 (dftN tw P (rsv Vh I) b)))).
  - unfold weight. rewrite (sumf_ext (P - ns) (fun t => nrm2 (dftN tw P (rsv Vh (ns + t)) b) * 1) (fun t => nrm2 (dftN tw P (rsv Vh (ns + t)) b))) by (intros; ring). ring.
  - apply nonneg_sum_nrm2.
Qed.
End Svd.

(* ====================== the axis theorems on the model functions ====================== *)
Section ModelAxis.
Context {F : Type} {OF : Ops F} {L : Laws OF}.
Local Open Scope F_scope.
Add Field FFma : (fth (O:=OF)).
Variables (tw : Z -> F) (NFFT : nat).
Context {T : Twiddle NFFT tw}.
Hypothesis Hpos : (0 < NFFT)%nat.

(* Spectrum.scale(): psd *= 2*pi/df when scale_by_freq is True *)
Definition scaled (scale : option F) (a : F) : F := match scale with Some c => a * c | None => a end.
Lemma nth_scaled scale (l : list F) j :
  nthF (match scale with Some c => map (fun a => a * c) l | None => l end) j = scaled scale (nthF l j).
Proof. destruct scale as [c|]; [|reflexivity]. cbn [scaled]. apply (nthF_map (fun a => a * c)). ring. Qed.
Lemma scaled_length scale (l : list F) :
  length (match scale with Some c => map (fun a => a * c) l | None => l end) = length l.
Proof. destruct scale; [apply map_length|reflexivity]. Qed.

Variables (meth : method_arg) (eps : F) (nsig : option nsig_arg) (thr : option F) (crit : crit_arg) (amin : nat)
          (x : list F) (P : nat) (S : list F) (Vh : list (list F)).
Hypothesis Hrows : forall I, (I < P)%nat -> length (mrow Vh I) = P.

(* eigen(): NFFT entries; entry j is the pseudo-spectrum at the centred bin j - NFFT//2 = Range.centerdc()[j] / df *)
Theorem music_axis_eigen_thm psd ev :
  eigen meth eps nsig thr crit amin tw NFFT x P S Vh = inr (psd, ev) ->
  exists ns, eigen_nsig meth nsig thr crit amin (length x) P NFFT S = inr ns /\ ev = S /\ length psd = NFFT /\
    forall j, (j < NFFT)%nat -> nthF psd j = 1 / dform meth eps tw P S Vh ns (centerdc_bin NFFT j).
Proof.
  unfold eigen. destruct (eigen_nsig meth nsig thr crit amin (length x) P NFFT S) as [e|ns] eqn:E; [discriminate|].
  intros H; injection H as <- <-. exists ns.
  destruct (signal_space_choice_thm _ _ _ _ _ _ _ _ _ _ E) as (_ & _ & HP & _).
  split; [reflexivity|]. split; [reflexivity|]. split; [apply reorder_length, pseudo_length|].
  intros j Hj. apply (nth_eigen_vector tw NFFT Hpos meth eps P S Vh Hrows ns j Hj HP).
Qed.
(* pmusic / pev on complex data (sides = 'twosided'): NFFT entries; entry j is the pseudo-spectrum at bin j = twosided()[j] / df *)
Theorem music_axis_complex_thm scale psd ev :
  pclass meth eps false scale nsig thr crit amin tw NFFT x P S Vh = inr (psd, ev) ->
  exists ns, eigen_nsig meth nsig thr crit amin (length x) P NFFT S = inr ns /\ ev = S /\ length psd = NFFT /\
    forall j, (j < NFFT)%nat -> nthF psd j = scaled scale (1 / dform meth eps tw P S Vh ns (Z.of_nat j)).
Proof.
  unfold pclass, eigen. destruct (eigen_nsig meth nsig thr crit amin (length x) P NFFT S) as [e|ns] eqn:E; [discriminate|].
  intros H; injection H as <- <-. exists ns.
  destruct (signal_space_choice_thm _ _ _ _ _ _ _ _ _ _ E) as (_ & _ & HP & _).
  split; [reflexivity|]. split; [reflexivity|]. unfold class_psd. split.
  - rewrite scaled_length, ifftshift_length. apply reorder_length, pseudo_length.
  - intros j Hj. rewrite nth_scaled. f_equal. apply (nth_class_complex tw NFFT Hpos meth eps P S Vh Hrows ns j Hj HP).
Qed.
(* pmusic / pev on real data (sides = 'onesided'): NFFT/2+1 entries for both parities of NFFT (= len(onesided()));
   entry j is twice the pseudo-spectrum at bin -j, which is the value at bin j = onesided()[j] / df when the singular vectors are real *)
Theorem music_axis_real_thm scale psd ev :
  pclass meth eps true scale nsig thr crit amin tw NFFT x P S Vh = inr (psd, ev) ->
  exists ns, eigen_nsig meth nsig thr crit amin (length x) P NFFT S = inr ns /\ ev = S /\ length psd = (NFFT / 2 + 1)%nat /\
    forall j, (j <= NFFT / 2)%nat ->
      nthF psd j = scaled scale (1 / dform meth eps tw P S Vh ns (- Z.of_nat j)%Z * two)
      /\ ((forall I m, conj (mat Vh I m) = mat Vh I m) ->
          nthF psd j = scaled scale (1 / dform meth eps tw P S Vh ns (Z.of_nat j) * two)).
Proof.
  unfold pclass, eigen. destruct (eigen_nsig meth nsig thr crit amin (length x) P NFFT S) as [e|ns] eqn:E; [discriminate|].
  intros H; injection H as <- <-. exists ns.
  destruct (signal_space_choice_thm _ _ _ _ _ _ _ _ _ _ E) as (_ & _ & HP & _).
  split; [reflexivity|]. split; [reflexivity|]. unfold class_psd.
  assert (Hh : (NFFT / 2 < NFFT)%nat) by (apply Nat.div_lt; lia).
  split.
  - rewrite scaled_length, rev_length, map_length, firstn_length, onesided_len.
    rewrite (reorder_length NFFT _ (pseudo_length tw NFFT meth eps P S Vh ns)). lia.
  - intros j Hj.
    assert (E1 : nthF (match scale with Some c => map (fun a => a * c) (rev (map (fun a => a * two)
                   (firstn (if Nat.even NFFT then NFFT / 2 + 1 else (NFFT + 1) / 2)%nat (eigen_reorder NFFT (pseudo meth eps tw NFFT P S Vh ns)))))
                   | None => rev (map (fun a => a * two)
                   (firstn (if Nat.even NFFT then NFFT / 2 + 1 else (NFFT + 1) / 2)%nat (eigen_reorder NFFT (pseudo meth eps tw NFFT P S Vh ns)))) end) j
                 = scaled scale (1 / dform meth eps tw P S Vh ns (- Z.of_nat j)%Z * two)).
    { rewrite nth_scaled. f_equal. apply (nth_class_real tw NFFT Hpos meth eps P S Vh Hrows ns j Hj HP). }
    split; [exact E1|]. intros Hreal. rewrite E1. rewrite (dform_even tw NFFT Hpos meth eps P S Vh ns (Z.of_nat j) Hreal). reflexivity.
Qed.
End ModelAxis.

(* ====================== the clauses put together on eigen() ====================== *)
Section Resolve.
Context {F : Type} {OF : Ops F} {L : Laws OF} {OL : OrdLaws OF}.
Local Open Scope F_scope.
Variables (tw : Z -> F) (NFFT : nat).
Context {T : Twiddle NFFT tw}.
Hypothesis Hpos : (0 < NFFT)%nat.

(* noiseless sum of K on-grid exponentials, signal-subspace dimension set to K, (S, Vh) any SVD of the data matrix whose
   (K+1)-th singular value is 0: eigen() returns S, and every entry whose centred bin is a true bin (mod NFFT) is the
   reciprocal of a denominator that is exactly zero — for MUSIC and for EV *)
Theorem eigen_resolves_thm meth eps crit amin (x : list F) (P K : nat) (A z : nat -> F) (bin : nat -> Z)
        (S : list F) (Vh : list (list F)) psd ev :
  (forall n, (n < length x)%nat -> nthF x n = expsig K A z n) ->
  (forall i, (i < K)%nat -> z i = tw (- bin i)%Z) ->
  (K <= np_of (length x) P)%nat -> distinct K z -> (forall i, (i < K)%nat -> A i <> 0) ->
  svd_spec (fb_matrix x P) (2 * np_of (length x) P) P S Vh -> nthF S K = 0 ->
  eigen meth eps (Some (NInt (Z.of_nat K))) None crit amin tw NFFT x P S Vh = inr (psd, ev) ->
  ev = S /\ length psd = NFFT /\ (K < P)%nat /\
  forall i j (c : Z), (i < K)%nat -> (j < NFFT)%nat -> centerdc_bin NFFT j = (bin i + c * Z.of_nat NFFT)%Z ->
    nthF psd j = 1 / dform meth eps tw P S Vh K (centerdc_bin NFFT j) /\ dform meth eps tw P S Vh K (centerdc_bin NFFT j) = 0.
Proof.
  intros Hx Hgrid HK Hd HA Hs HSK He.
  destruct (music_axis_eigen_thm tw NFFT Hpos meth eps _ _ crit amin x P S Vh (svd_shape _ _ _ _ _ Hs) psd ev He)
    as (ns & Ens & Hev & Hlen & Hnth).
  destruct (signal_space_choice_thm _ _ _ _ _ _ _ _ _ _ Ens) as (_ & _ & _ & Hc).
  cbn [choice_spec] in Hc. destruct Hc as (z0 & Hz0 & Hrange & Hns). injection Hz0 as <-. rewrite Nat2Z.id in Hns. subst ns.
  split; [exact Hev|]. split; [exact Hlen|]. split; [lia|].
  intros i j c Hi Hj Hbin. split; [apply Hnth; exact Hj|]. rewrite Hbin.
  apply (denominator_vanishes tw NFFT Hpos x P K A z bin S Vh K eps Hx Hgrid HK Hd HA); [|exact Hi].
  intros I HI1 HI2. split; [apply (svd_gram _ _ _ _ _ Hs); exact HI2|].
  apply (zero_tail _ _ _ _ _ K Hs HSK); assumption.
Qed.
End Resolve.
