(* ac2poly, ac2rc: the IR programs generated from linear_prediction.py - with the program of LEVINSON (levinson.py) embedded as a call - compute the
   hand-written models Model.LinPred.ac2poly / ac2rc: theorems obtained from [levinson_ir_run] (Proofs/LoopIRLevinson.v) through the semantics of
   [SCall] ([scall_run] of Proofs/LoopIRAryule.v).

   [prog_ac2poly_ref] / [prog_ac2rc_ref] are the loop-IR programs that tools/props/_loopir.py generates from the source at the commit this file was
   written for (verbatim below between the BEGIN/END markers, equal to the decomposed definitions by reflexivity; the embedded callee body IS
   [p_body prog_LEVINSON_ref]): an edit of LEVINSON makes the theorems inapplicable too (reported as broken obligations).

   PROVED (abstract field with conjugation [Laws]; any NON-EMPTY data, dtype tag [negb c]):
     ac2poly_ir_run c / ac2rc_ir_run c    run = ORet [1 :: A; P] resp. ORet [ks; data[0]] for glevinson c data (len-1) false = Some (A, P, ks), else ValueError
     ac2poly_ir_complex / ac2rc_ir_complex   complex dtype: run = the outcome of Model.LinPred.ac2poly / ac2rc (unconditionally)
     ac2poly_ir_real / ac2rc_ir_real         float dtype: the same for real-valued data with a positive lag 0
     ac2poly_ir_tie / ac2rc_ir_tie           for every reflexive [feq]: the boolean of the exact evaluation tie is true for every non-empty complex-tagged input
   NOT PROVED: the empty sequence (IndexError at r[0] inside LEVINSON; exact evaluation), float dtype with a non-real / non-positive lag 0. *)
From Coq Require Import String ZArith List Lia Bool.
Require Import Spectrum.Theory.Ops Spectrum.Theory.Sum Spectrum.Theory.Vec Spectrum.Model.LoopIR Spectrum.Model.Levinson Spectrum.Model.LinPred
               Spectrum.Model.LoopIRTie Spectrum.Model.LoopIRWrap Spectrum.Proofs.LoopIRLevinson Spectrum.Proofs.LoopIRCorrelation Spectrum.Proofs.LoopIRAryule.
Import ListNotations.
Local Open Scope string_scope.

(* ---------------------------------------------------------------- the programs, decomposed *)
Definition ac2_call : stmt :=
  SSeq (SCall [1%nat; 2%nat; 3%nat] (p_nparams prog_LEVINSON_ref) (p_defaults prog_LEVINSON_ref) (p_nslots prog_LEVINSON_ref) (p_body prog_LEVINSON_ref)
              [Some (EVar 0); None; None])
       (SSeq (SAssign 4 (EVar 1)) (SSeq (SAssign 5 (EVar 2)) (SAssign 6 (EVar 3)))).
Definition ac2poly_tail : stmt := SSeq (SAssign 4 (EInsert (EVar 4) (EInt 0) (EInt 1))) (SReturn [EVar 4; EVar 5]).
Definition ac2rc_tail : stmt := SReturn [EVar 6; EIndex (EVar 0) (EInt 0)].
Definition prog_ac2poly_ref : program := mkProgram "ac2poly" 1 [None] 7 (SSeq ac2_call ac2poly_tail).
Definition prog_ac2rc_ref : program := mkProgram "ac2rc" 1 [None] 7 (SSeq ac2_call ac2rc_tail).

Section Main.
Context {F : Type} {OF : Ops F} {L : Laws OF}.
Variable feq : F -> F -> bool.
Variable stop : Z -> F -> F -> bool.
Local Open Scope F_scope.
Add Field FFac2 : (fth (O:=OF)).
Notation value := (@value F).
Notation store := (@store F).
Notation exec := (@exec F OF feq stop).

Lemma ofZ_one' : @ofZ F OF 1 = 1.
Proof. unfold ofZ. change (Pos.to_nat 1) with 1%nat. cbn [ofnat]. ring. Qed.

Definition st0 (t : bool) (r : list F) : store := [VArr t r; VUnbound; VUnbound; VUnbound; VUnbound; VUnbound; VUnbound].

Lemma ac2_call_ok c (r : list F) : r <> [] ->
  exec ac2_call (st0 (negb c) r) =
  match glevinson c r (length r - 1) false with
  | Some (A, P, ks) => ([VArr (negb c) r; VArr (negb c) A; VF P; VArr (negb c) ks; VArr (negb c) A; VF P; VArr (negb c) ks], CNormal)
  | None => (st0 (negb c) r, CErr ValueError)
  end.
Proof.
  intros Hr. unfold ac2_call.
  pose proof (scall_run feq stop [1%nat; 2%nat; 3%nat] prog_LEVINSON_ref [Some (EVar 0); None; None] (st0 (negb c) r)
                [Some (VArr (negb c) r); None; None] eq_refl (le_S _ _ (le_n 2))) as H.
  pose proof (levinson_ir_run feq stop c r None None Hr) as HL. cbv zeta in HL. cbn [option_map] in HL.
  rewrite HL in H. clear HL. rewrite Nat.leb_refl in H.
  revert H. destruct (glevinson c r (length r - 1) false) as [[[A P] ks]|]; intros H.
  - specialize (H eq_refl). rewrite (exec_seq feq stop _ _ _ _ H). reflexivity.
  - rewrite (exec_seq_stop feq stop _ _ _ _ _ H) by discriminate. reflexivity.
Qed.

Theorem ac2poly_ir_run c (r : list F) : r <> [] ->
  run feq stop prog_ac2poly_ref [Some (VArr (negb c) r)] =
  match glevinson c r (length r - 1) false with
  | Some (A, P, ks) => ORet [VArr (negb c) (1 :: A); VF P]
  | None => OErr ValueError
  end.
Proof.
  intros Hr. unfold run, prog_ac2poly_ref. cbn [p_defaults p_body p_nslots p_nparams Nat.sub bind_args bind ok app repeat].
  change [VArr (negb c) r; VUnbound; VUnbound; VUnbound; VUnbound; VUnbound; VUnbound] with (st0 (negb c) r).
  pose proof (ac2_call_ok c r Hr) as H.
  destruct (glevinson c r (length r - 1) false) as [[[A P] ks]|].
  - rewrite (exec_seq feq stop _ _ _ _ H). unfold ac2poly_tail.
    cbn [LoopIR.exec eval get set nth bind try asArr asZ asF ok fst snd Z.ltb Z.compare eval_list].
    rewrite ofZ_one'.
    destruct ((0 <=? 0)%Z && (0 <=? Z.of_nat (length A))%Z) eqn:E0; [reflexivity|].
    apply andb_false_elim in E0. destruct E0 as [E0|E0]; [discriminate|]. apply Z.leb_gt in E0. lia.
  - rewrite (exec_seq_stop feq stop _ _ _ _ _ H) by discriminate. reflexivity.
Qed.

Theorem ac2rc_ir_run c (r : list F) : r <> [] ->
  run feq stop prog_ac2rc_ref [Some (VArr (negb c) r)] =
  match glevinson c r (length r - 1) false with
  | Some (A, P, ks) => ORet [VArr (negb c) ks; VF (nthF r 0)]
  | None => OErr ValueError
  end.
Proof.
  intros Hr. unfold run, prog_ac2rc_ref. cbn [p_defaults p_body p_nslots p_nparams Nat.sub bind_args bind ok app repeat].
  change [VArr (negb c) r; VUnbound; VUnbound; VUnbound; VUnbound; VUnbound; VUnbound] with (st0 (negb c) r).
  pose proof (ac2_call_ok c r Hr) as H.
  destruct (glevinson c r (length r - 1) false) as [[[A P] ks]|].
  - rewrite (exec_seq feq stop _ _ _ _ H). unfold ac2rc_tail.
    cbn [LoopIR.exec eval get set nth bind try asArr asZ asF ok fst snd eval_list].
    rewrite (norm_index_ok (length r) 0) by (destruct r; [congruence|cbn [length]; lia]). reflexivity.
  - rewrite (exec_seq_stop feq stop _ _ _ _ _ H) by discriminate. reflexivity.
Qed.

(* the outcomes of the hand-written models *)
Definition ac2poly_outcome (t : bool) (r : list F) : @outcome F :=
  match ac2poly r with Some (a, e) => ORet [VArr t a; VF e] | None => OErr ValueError end.
Definition ac2rc_outcome (t : bool) (r : list F) : @outcome F :=
  match ac2rc r with Some (k, r0) => ORet [VArr t k; VF r0] | None => OErr ValueError end.

Lemma ac2poly_of_levinson (r : list F) : r <> [] ->
  ac2poly r = match levinson r (length r - 1) false with Some (a, P, _) => Some (1 :: a, P) | None => None end.
Proof. destruct r; [congruence|reflexivity]. Qed.
Lemma ac2rc_of_levinson (r : list F) : r <> [] ->
  ac2rc r = match levinson r (length r - 1) false with Some (_, _, k) => Some (k, nthF r 0) | None => None end.
Proof. destruct r; [congruence|reflexivity]. Qed.

Theorem ac2poly_ir_complex (r : list F) : r <> [] -> run feq stop prog_ac2poly_ref [Some (VArr false r)] = ac2poly_outcome false r.
Proof.
  intros Hr. pose proof (ac2poly_ir_run true r Hr) as H. cbn [negb] in H. rewrite H. clear H. rewrite glevinson_true. unfold ac2poly_outcome. rewrite (ac2poly_of_levinson r Hr).
  destruct (levinson r (length r - 1) false) as [[[A P] ks]|]; reflexivity.
Qed.
Theorem ac2rc_ir_complex (r : list F) : r <> [] -> run feq stop prog_ac2rc_ref [Some (VArr false r)] = ac2rc_outcome false r.
Proof.
  intros Hr. pose proof (ac2rc_ir_run true r Hr) as H. cbn [negb] in H. rewrite H. clear H. rewrite glevinson_true. unfold ac2rc_outcome. rewrite (ac2rc_of_levinson r Hr).
  destruct (levinson r (length r - 1) false) as [[[A P] ks]|]; reflexivity.
Qed.
Theorem ac2poly_ir_real (r : list F) : r <> [] -> isrealL r -> le0 (re (nthF r 0)) = false ->
  run feq stop prog_ac2poly_ref [Some (VArr true r)] = ac2poly_outcome true r.
Proof.
  intros Hr Rr Pr. pose proof (ac2poly_ir_run false r Hr) as H. cbn [negb] in H. rewrite H. clear H. rewrite (glevinson_false_real r _ Rr Pr). unfold ac2poly_outcome.
  rewrite (ac2poly_of_levinson r Hr). destruct (levinson r (length r - 1) false) as [[[A P] ks]|]; reflexivity.
Qed.
Theorem ac2rc_ir_real (r : list F) : r <> [] -> isrealL r -> le0 (re (nthF r 0)) = false ->
  run feq stop prog_ac2rc_ref [Some (VArr true r)] = ac2rc_outcome true r.
Proof.
  intros Hr Rr Pr. pose proof (ac2rc_ir_run false r Hr) as H. cbn [negb] in H. rewrite H. clear H. rewrite (glevinson_false_real r _ Rr Pr). unfold ac2rc_outcome.
  rewrite (ac2rc_of_levinson r Hr). destruct (levinson r (length r - 1) false) as [[[A P] ks]|]; reflexivity.
Qed.
End Main.

Section TieTrue.
Context {F : Type} {OF : Ops F} {L : Laws OF}.
Variable feq : F -> F -> bool.
Hypothesis feq_refl : forall a, feq a a = true.

Theorem ac2poly_ir_tie (r : list F) : r <> [] -> tie_ac2poly feq prog_ac2poly_ref false r = true.
Proof.
  intros Hr. unfold tie_ac2poly. rewrite (ac2poly_ir_complex feq (@nostop F) r Hr). unfold ac2poly_outcome.
  destruct r as [|r0 r']; [congruence|].
  destruct (ac2poly (r0 :: r')) as [[a e]|]; [|reflexivity].
  cbn [Bool.eqb andb]. rewrite (leq_refl feq feq_refl), feq_refl. reflexivity.
Qed.
Theorem ac2rc_ir_tie (r : list F) : r <> [] -> tie_ac2rc feq prog_ac2rc_ref false r = true.
Proof.
  intros Hr. unfold tie_ac2rc. rewrite (ac2rc_ir_complex feq (@nostop F) r Hr). unfold ac2rc_outcome.
  destruct r as [|r0 r']; [congruence|].
  destruct (ac2rc (r0 :: r')) as [[k e]|]; [|reflexivity].
  cbn [Bool.eqb andb]. rewrite (leq_refl feq feq_refl), feq_refl. reflexivity.
Qed.
End TieTrue.

(* BEGIN GENERATED ac2poly (verbatim output of tools/props/_loopir.py for spectrum.linear_prediction.ac2poly) *)
(* ac2poly: slots 0=data 1=LEVINSON@ret0#1 2=LEVINSON@ret1#2 3=LEVINSON@ret2#3 4=a 5=e 6=_c *)
Definition prog_ac2poly_gen0 : program := mkProgram "ac2poly" 1 [None] 7
(SSeq (SSeq (SCall [1%nat; 2%nat; 3%nat] 3 [None; (Some ENone); (Some (EBool false))] 16
(SSeq (SAssign 3 (EReal (EIndex (EVar 0) (EInt 0))))
(SSeq (SAssign 4 (ESlice (EVar 0) (Some (EInt 1)) None None))
(SSeq (SAssign 5 (ELen (EVar 4)))
(SSeq (SIf (EIsNone (EVar 1))
(SAssign 5 (ELen (EVar 4)))
(SSeq (SAssert (ECmp CLe (EVar 1) (EVar 5)))
(SAssign 5 (EVar 1))))
(SSeq (SAssign 6 (EIsRealObj (EVar 0)))
(SSeq (SIf (EIsBool true (EVar 6))
(SSeq (SAssign 7 (EZeros (EVar 5) true))
(SAssign 8 (EZeros (EVar 5) true)))
(SSeq (SAssign 7 (EZeros (EVar 5) false))
(SAssign 8 (EZeros (EVar 5) false))))
(SSeq (SAssign 9 (EVar 3))
(SSeq (SFor 10 (EInt 0) (EVar 5) (EInt 1)
(SSeq (SAssign 11 (EIndex (EVar 4) (EVar 10)))
(SSeq (SIf (ECmp CEq (EVar 10) (EInt 0))
(SAssign 12 (EBin BDiv (ENeg (EVar 11)) (EVar 9)))
(SSeq (SFor 13 (EInt 0) (EVar 10) (EInt 1)
(SAssign 11 (EBin BAdd (EVar 11) (EBin BMul (EIndex (EVar 7) (EVar 13)) (EIndex (EVar 4) (EBin BSub (EBin BSub (EVar 10) (EVar 13)) (EInt 1)))))))
(SAssign 12 (EBin BDiv (ENeg (EVar 11)) (EVar 9)))))
(SSeq (SIf (EVar 6)
(SAssign 9 (EBin BMul (EVar 9) (EBin BSub (ELit 1 0) (EBin BMul (EVar 12) (EVar 12)))))
(SAssign 9 (EBin BMul (EVar 9) (EBin BSub (ELit 1 0) (EBin BAdd (EBin BMul (EReal (EVar 12)) (EReal (EVar 12))) (EImagSq (EVar 12)))))))
(SSeq (SIf (EAnd (ELe0 (EVar 9)) (EIsBool false (EVar 2)))
(SRaise ValueError)
(SSkip))
(SSeq (SStore 7 (EVar 10) (EVar 12))
(SSeq (SStore 8 (EVar 10) (EVar 12))
(SSeq (SIf (ECmp CEq (EVar 10) (EInt 0))
(SContinue)
(SSkip))
(SSeq (SAssign 14 (EBin BFloorDiv (EBin BAdd (EVar 10) (EInt 1)) (EInt 2)))
(SIf (EIsBool true (EVar 6))
(SFor 13 (EInt 0) (EVar 14) (EInt 1)
(SSeq (SAssign 15 (EBin BSub (EBin BSub (EVar 10) (EVar 13)) (EInt 1)))
(SSeq (SAssign 11 (EIndex (EVar 7) (EVar 13)))
(SSeq (SStore 7 (EVar 13) (EBin BAdd (EVar 11) (EBin BMul (EVar 12) (EIndex (EVar 7) (EVar 15)))))
(SIf (ECmp CNe (EVar 13) (EVar 15))
(SStore 7 (EVar 15) (EBin BAdd (EIndex (EVar 7) (EVar 15)) (EBin BMul (EVar 12) (EVar 11))))
(SSkip))))))
(SFor 13 (EInt 0) (EVar 14) (EInt 1)
(SSeq (SAssign 15 (EBin BSub (EBin BSub (EVar 10) (EVar 13)) (EInt 1)))
(SSeq (SAssign 11 (EIndex (EVar 7) (EVar 13)))
(SSeq (SStore 7 (EVar 13) (EBin BAdd (EVar 11) (EBin BMul (EVar 12) (EConj (EIndex (EVar 7) (EVar 15))))))
(SIf (ECmp CNe (EVar 13) (EVar 15))
(SStore 7 (EVar 15) (EBin BAdd (EIndex (EVar 7) (EVar 15)) (EBin BMul (EVar 12) (EConj (EVar 11)))))
(SSkip))))))))))))))))
(SReturn [(EVar 7); (EVar 9); (EVar 8)])))))))))
[(Some (EVar 0)); None; None])
(SSeq (SAssign 4 (EVar 1))
(SSeq (SAssign 5 (EVar 2))
(SAssign 6 (EVar 3)))))
(SSeq (SAssign 4 (EInsert (EVar 4) (EInt 0) (EInt 1)))
(SReturn [(EVar 4); (EVar 5)]))).
(* END GENERATED ac2poly *)
(* BEGIN GENERATED ac2rc (verbatim output of tools/props/_loopir.py for spectrum.linear_prediction.ac2rc) *)
(* ac2rc: slots 0=data 1=LEVINSON@ret0#1 2=LEVINSON@ret1#2 3=LEVINSON@ret2#3 4=a 5=e 6=c *)
Definition prog_ac2rc_gen0 : program := mkProgram "ac2rc" 1 [None] 7
(SSeq (SSeq (SCall [1%nat; 2%nat; 3%nat] 3 [None; (Some ENone); (Some (EBool false))] 16
(SSeq (SAssign 3 (EReal (EIndex (EVar 0) (EInt 0))))
(SSeq (SAssign 4 (ESlice (EVar 0) (Some (EInt 1)) None None))
(SSeq (SAssign 5 (ELen (EVar 4)))
(SSeq (SIf (EIsNone (EVar 1))
(SAssign 5 (ELen (EVar 4)))
(SSeq (SAssert (ECmp CLe (EVar 1) (EVar 5)))
(SAssign 5 (EVar 1))))
(SSeq (SAssign 6 (EIsRealObj (EVar 0)))
(SSeq (SIf (EIsBool true (EVar 6))
(SSeq (SAssign 7 (EZeros (EVar 5) true))
(SAssign 8 (EZeros (EVar 5) true)))
(SSeq (SAssign 7 (EZeros (EVar 5) false))
(SAssign 8 (EZeros (EVar 5) false))))
(SSeq (SAssign 9 (EVar 3))
(SSeq (SFor 10 (EInt 0) (EVar 5) (EInt 1)
(SSeq (SAssign 11 (EIndex (EVar 4) (EVar 10)))
(SSeq (SIf (ECmp CEq (EVar 10) (EInt 0))
(SAssign 12 (EBin BDiv (ENeg (EVar 11)) (EVar 9)))
(SSeq (SFor 13 (EInt 0) (EVar 10) (EInt 1)
(SAssign 11 (EBin BAdd (EVar 11) (EBin BMul (EIndex (EVar 7) (EVar 13)) (EIndex (EVar 4) (EBin BSub (EBin BSub (EVar 10) (EVar 13)) (EInt 1)))))))
(SAssign 12 (EBin BDiv (ENeg (EVar 11)) (EVar 9)))))
(SSeq (SIf (EVar 6)
(SAssign 9 (EBin BMul (EVar 9) (EBin BSub (ELit 1 0) (EBin BMul (EVar 12) (EVar 12)))))
(SAssign 9 (EBin BMul (EVar 9) (EBin BSub (ELit 1 0) (EBin BAdd (EBin BMul (EReal (EVar 12)) (EReal (EVar 12))) (EImagSq (EVar 12)))))))
(SSeq (SIf (EAnd (ELe0 (EVar 9)) (EIsBool false (EVar 2)))
(SRaise ValueError)
(SSkip))
(SSeq (SStore 7 (EVar 10) (EVar 12))
(SSeq (SStore 8 (EVar 10) (EVar 12))
(SSeq (SIf (ECmp CEq (EVar 10) (EInt 0))
(SContinue)
(SSkip))
(SSeq (SAssign 14 (EBin BFloorDiv (EBin BAdd (EVar 10) (EInt 1)) (EInt 2)))
(SIf (EIsBool true (EVar 6))
(SFor 13 (EInt 0) (EVar 14) (EInt 1)
(SSeq (SAssign 15 (EBin BSub (EBin BSub (EVar 10) (EVar 13)) (EInt 1)))
(SSeq (SAssign 11 (EIndex (EVar 7) (EVar 13)))
(SSeq (SStore 7 (EVar 13) (EBin BAdd (EVar 11) (EBin BMul (EVar 12) (EIndex (EVar 7) (EVar 15)))))
(SIf (ECmp CNe (EVar 13) (EVar 15))
(SStore 7 (EVar 15) (EBin BAdd (EIndex (EVar 7) (EVar 15)) (EBin BMul (EVar 12) (EVar 11))))
(SSkip))))))
(SFor 13 (EInt 0) (EVar 14) (EInt 1)
(SSeq (SAssign 15 (EBin BSub (EBin BSub (EVar 10) (EVar 13)) (EInt 1)))
(SSeq (SAssign 11 (EIndex (EVar 7) (EVar 13)))
(SSeq (SStore 7 (EVar 13) (EBin BAdd (EVar 11) (EBin BMul (EVar 12) (EConj (EIndex (EVar 7) (EVar 15))))))
(SIf (ECmp CNe (EVar 13) (EVar 15))
(SStore 7 (EVar 15) (EBin BAdd (EIndex (EVar 7) (EVar 15)) (EBin BMul (EVar 12) (EConj (EVar 11)))))
(SSkip))))))))))))))))
(SReturn [(EVar 7); (EVar 9); (EVar 8)])))))))))
[(Some (EVar 0)); None; None])
(SSeq (SAssign 4 (EVar 1))
(SSeq (SAssign 5 (EVar 2))
(SAssign 6 (EVar 3)))))
(SReturn [(EVar 6); (EIndex (EVar 0) (EInt 0))])).
(* END GENERATED ac2rc *)

Example prog_ac2poly_ref_is_generated : prog_ac2poly_ref = prog_ac2poly_gen0.
Proof. reflexivity. Qed.
Example prog_ac2rc_ref_is_generated : prog_ac2rc_ref = prog_ac2rc_gen0.
Proof. reflexivity. Qed.

Print Assumptions ac2poly_ir_run.
Print Assumptions ac2rc_ir_run.
Print Assumptions ac2poly_ir_complex.
Print Assumptions ac2rc_ir_complex.
Print Assumptions ac2poly_ir_real.
Print Assumptions ac2rc_ir_real.
Print Assumptions ac2poly_ir_tie.
Print Assumptions ac2rc_ir_tie.
