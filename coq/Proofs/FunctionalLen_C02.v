(* C02 — what [fest_len] (Proofs/PipelineAxis_C02.v) specifies, proved on the models of the functional estimators:
   speriodogram returns NFFT/2+1 = len(onesided()) values for real data and NFFT for complex data; CORRELOGRAMPSD, arma2psd, minvar,
   eigen and the multitaper weighted mean return NFFT values (whenever they return). *)
Require Import Spectrum.Theory.Ops Spectrum.Theory.Sum Spectrum.Theory.Vec Spectrum.Theory.Dft
               Spectrum.Model.Convert Spectrum.Model.PipelineLib Spectrum.Proofs.PipelineTheory Spectrum.Proofs.PipelineAxis_C02
               Spectrum.Model.Corr Spectrum.Model.Periodogram Spectrum.Proofs.PeriodogramTheory
               Spectrum.Model.Arma2psd Spectrum.Proofs.Arma2psdTheory
               Spectrum.Model.Levinson Spectrum.Model.Burg Spectrum.Model.Minvar Spectrum.Proofs.MinvarTheory Spectrum.Proofs.MinvarFinal
               Spectrum.Model.Mtm Spectrum.Model.Eigen Spectrum.Proofs.EigenAxis.
From Coq Require Import Lia.

Section FunctionalLen.
Context {F : Type} {OF : Ops F} {L : Laws OF}.
Local Open Scope F_scope.

Lemma nbins_axis_len isreal n : (1 <= n)%nat -> nbins isreal n = axis_len isreal n.
Proof. intros Hn. unfold nbins, axis_len. destruct isreal; [symmetry; apply flen_One_half, Hn|reflexivity]. Qed.

Theorem functional_lengths_thm (n : nat) : (1 <= n)%nat ->
  (* speriodogram (Periodogram) *)
  (forall tw twopi (x w : list F) isreal dt sbf fs,
     length (speriodogram tw twopi x w (Some n) isreal dt sbf fs) = fest_len Periodogram isreal n)
  (* CORRELOGRAMPSD (pcorrelogram) *)
  /\ (forall tw rp (x : list F) y lag wfull nm be l real,
     correlogram tw rp x y lag wfull (Some n) nm be = Some l -> length l = fest_len Pcorrelogram real n)
  (* arma2psd (pburg pyule pcovar pmodcovar parma pma) *)
  /\ (forall tw A B (rho T : F) sides norm psd real c,
     arma2psd tw A B rho T n sides norm = Some psd -> group_of c = GModel -> length psd = fest_len c real n)
  (* minvar (pminvar) *)
  /\ (forall tw (x : list F) m s psd A ks real,
     minvar tw x m s n = Some (psd, A, ks) -> length psd = fest_len Pminvar real n)
  (* eigen (pmusic pev) *)
  /\ (forall meth eps nsig thr crit amin tw (x : list F) P S Vh psd ev real c,
     eigen meth eps nsig thr crit amin tw n x P S Vh = inr (psd, ev) -> (c = Pmusic \/ c = Pev) -> length psd = fest_len c real n)
  (* the weighted mean of the eigenspectra (MultiTapering) *)
  /\ (forall m (Skc w : list (list F)) nwin real, length (mt_mean m Skc w nwin n) = fest_len MultiTapering real n).
Proof.
  intros Hn. repeat split.
  - intros. rewrite periodogram_length_thm by (cbn [resolve]; exact Hn). cbn [resolve fest_len]. apply nbins_axis_len, Hn.
  - intros tw rp x y lag wfull nm be l real. unfold correlogram. cbv zeta. cbn [resolve fest_len].
    destruct (negb (lag <? length x)%nat); [discriminate|].
    destruct (n =? 0)%nat; [discriminate|].
    destruct ((n <? lag + 1)%nat && negb (lag =? 1)%nat)%bool; [discriminate|].
    destruct (corr_pos be rp x _ lag nm) as [rxy|]; [|discriminate].
    destruct (match y with None => Some rxy | Some v => corr_pos be rp v x lag nm end) as [ryx|]; [|discriminate].
    intros E; injection E as <-. rewrite map_length. apply dft_length.
  - intros tw A B rho T sides norm psd real c H Hc. rewrite (arma2psd_length_thm tw A B rho T n sides norm psd H).
    destruct c; try discriminate Hc; reflexivity.
  - intros tw x m s psd A ks real H.
    destruct (minvar_returns_burg_thm tw x m s n psd A ks H) as (_ & _ & _ & _ & _ & _ & _ & _ & Hl & _). exact Hl.
  - intros meth eps nsig thr crit amin tw x P S Vh psd ev real c H Hc. unfold eigen in H.
    destruct (eigen_nsig meth nsig thr crit amin (length x) P n S); [discriminate|]. injection H as <- _.
    rewrite (reorder_length n _ (pseudo_length tw n meth eps P S Vh n0)). destruct Hc as [-> | ->]; reflexivity.
  - intros. unfold mt_mean. rewrite mk_length. reflexivity.
Qed.
End FunctionalLen.

(* the multitaper class (Model/Mtm.v mt_call, C19 class_is_weighted_mean) in C02 form: as many entries as the default axis, entry b is
   [2 pi / df] [2] * (weighted mean over the tapers of the eigenspectra AT BIN b) *)
Require Import Spectrum.Proofs.MtmTheory.
Section MtmAxis.
Context {F : Type} {OF : Ops F} {L : Laws OF}.
Local Open Scope F_scope.
Theorem multitaper_class_axis_thm {NWT : Type} (dpss : nat -> NWT -> option nat -> list (list F) * list F)
  fuel tw isr (x : list F) NW k nfft e v m sbf scale psd :
  mt_call dpss fuel tw isr x NW k nfft e v m sbf scale = Some psd ->
  let n := match nfft with Some n => n | None => length x end in
  (1 <= n)%nat ->
  exists Skc w ev,
    pmtm dpss fuel tw x NW k (Some n) e v m = Some (Skc, w, ev) /\
    length psd = axis_len isr n /\ length psd = length (freq_bins (if isr then One else Two) n) /\
    forall b, (b < axis_len isr n)%nat ->
      nthF psd b = (fun a => if sbf then a * scale else a)
                     ((fun a => if isr then a * two else a) (wmean m Skc w (length ev) b)).
Proof.
  intros H n Hn.
  destruct (class_is_weighted_mean_thm dpss fuel tw isr x NW k nfft e v m sbf scale psd H) as (Skc & w & ev & E1 & E2 & E3).
  fold n in E1, E2.
  assert (Hl : length psd = axis_len isr n).
  { rewrite E2. unfold axis_len. destruct isr; [|reflexivity]. unfold mt_keep. apply Nat.min_l. apply (flen_One_le n Hn). }
  exists Skc, w, ev. split; [exact E1|]. split; [exact Hl|]. split.
  - rewrite Hl. unfold axis_len, freq_bins. rewrite map_length, seq_length. reflexivity.
  - intros b Hb. apply E3. rewrite Hl. exact Hb.
Qed.
End MtmAxis.
