(* C02 — MUSIC / EV: noiseless exact location at CLASS level (pmusic / pev, complex and real data), composed from C17:
     music_axis_complex / music_axis_real : entry j of the stored PSD is (scale) * [2 *] 1 / D(b_j),  b_j = j (complex) or -j (real)
     denominator_vanishes                 : D(b) = 0 at every bin congruent to a true bin (noiseless on-grid exponentials, NSIG = K)
     dform_nonneg                         : D(b) >= 0 at every bin
   Hence the entry whose reported frequency is a tone's is the reciprocal of an exact 0, the minimum of the non-negative denominator:
   the "infinite" maximum of the pseudo-spectrum.  (The model evaluates 1/0 in the totalised field, the code gets inf.) *)
Require Import Spectrum.Theory.Ops Spectrum.Theory.Sum Spectrum.Theory.Vec Spectrum.Theory.Order Spectrum.Theory.Dft
               Spectrum.Model.Eigen Spectrum.Proofs.EigenFB Spectrum.Proofs.EigenAxis Spectrum.Proofs.EigenTheory Spectrum.Proofs.EigenRank.
From Coq Require Import Lia.

Section SubspaceTone.
Context {F : Type} {OF : Ops F} {L : Laws OF} {OL : OrdLaws OF}.
Local Open Scope F_scope.
Add Field FFst2 : (fth (O:=OF)).
Variables (tw : Z -> F) (NFFT : nat).
Context {T : Twiddle NFFT tw}.
Hypothesis Hpos : (0 < NFFT)%nat.

(* the bin whose frequency frequencies() reports for entry j, as it enters the noise-subspace form: j for the two-sided
   (complex-data) axis; for real data the code stores the value of bin -j at entry j (equal to that of bin j when the singular
   vectors are real: EigenAxis.dform_even) *)
Definition entry_bin (isreal_data : bool) (j : nat) : Z := if isreal_data then (- Z.of_nat j)%Z else Z.of_nat j.
Definition entry_val (isreal_data : bool) (scale : option F) (d : F) : F :=
  scaled scale (if isreal_data then 1 / d * two else 1 / d).

Theorem music_tone_exact_thm meth eps crit amin (x : list F) (P K : nat) (A z : nat -> F) (bin : nat -> Z)
        (S : list F) (Vh : list (list F)) isr scale psd ev :
  (forall n, (n < length x)%nat -> nthF x n = expsig K A z n) ->
  (forall i, (i < K)%nat -> z i = tw (- bin i)%Z) ->
  (K <= np_of (length x) P)%nat -> distinct K z -> (forall i, (i < K)%nat -> A i <> 0) ->
  svd_spec (fb_matrix x P) (2 * np_of (length x) P) P S Vh ->
  (meth = MEv -> pos eps /\ pos (nthF S 0)) ->
  pclass meth eps isr scale (Some (NInt (Z.of_nat K))) None crit amin tw NFFT x P S Vh = inr (psd, ev) ->
  let D := dform meth eps tw P S Vh K in
  ev = S /\ length psd = (if isr then NFFT / 2 + 1 else NFFT)%nat /\ (K < P)%nat
  /\ (forall j, (j < length psd)%nat -> nthF psd j = entry_val isr scale (D (entry_bin isr j)) /\ nonneg (D (entry_bin isr j)))
  /\ (forall i j (c : Z), (i < K)%nat -> (j < length psd)%nat -> entry_bin isr j = (bin i + c * Z.of_nat NFFT)%Z ->
        D (entry_bin isr j) = 0 /\ forall b : Z, le (D (entry_bin isr j)) (D b)).
Proof.
  intros Hx Hgrid HK Hd HA Hs Hev He. cbv zeta.
  pose proof (svd_shape _ _ _ _ _ Hs) as Hrows.
  assert (Hu : forall i, (i < K)%nat -> z i * conj (z i) = 1).
  { intros i Hi. rewrite (Hgrid i Hi). exact (tw_nrm2 NFFT tw Hpos (- bin i)%Z). }
  pose proof (noiseless_rank_thm x P K A z S Vh Hx Hu Hs) as Hzero.
  assert (Hnn : forall b, nonneg (dform meth eps tw P S Vh K b)).
  { intros b. apply dform_nonneg. intros Em. destruct (Hev Em) as [H1 H2]. split; [exact H1|]. split; [exact H2|].
    intros I _ HI. apply (svd_nonneg _ _ _ _ _ Hs); exact HI. }
  assert (Hvan : forall i c, (i < K)%nat -> dform meth eps tw P S Vh K (bin i + c * Z.of_nat NFFT)%Z = 0).
  { intros i c Hi. apply (denominator_vanishes tw NFFT Hpos x P K A z bin S Vh K eps Hx Hgrid HK Hd HA); [|exact Hi].
    intros I HI1 HI2. split; [apply (svd_gram _ _ _ _ _ Hs); exact HI2|apply Hzero; assumption]. }
  assert (Hmin : forall i j c, (i < K)%nat -> entry_bin isr j = (bin i + c * Z.of_nat NFFT)%Z ->
            dform meth eps tw P S Vh K (entry_bin isr j) = 0 /\ forall b : Z, le (dform meth eps tw P S Vh K (entry_bin isr j)) (dform meth eps tw P S Vh K b)).
  { intros i j c Hi Hb. rewrite Hb. split; [apply Hvan; exact Hi|]. intros b. unfold le. rewrite (Hvan i c Hi).
    apply (nonneg_eq (dform meth eps tw P S Vh K b)); [ring|apply Hnn]. }
  destruct isr.
  - destruct (music_axis_real_thm tw NFFT Hpos meth eps _ _ crit amin x P S Vh Hrows scale psd ev He) as (ns & Ens & Hev' & Hlen & Hnth).
    destruct (signal_space_choice_thm _ _ _ _ _ _ _ _ _ _ Ens) as (_ & _ & _ & Hc).
    cbn [choice_spec] in Hc. destruct Hc as (z0 & Hz0 & Hrange & Hns). injection Hz0 as <-. rewrite Nat2Z.id in Hns. subst ns.
    split; [exact Hev'|]. split; [exact Hlen|]. split; [lia|]. split.
    + intros j Hj. split; [|apply Hnn]. unfold entry_val, entry_bin. apply (Hnth j). lia.
    + intros i j c Hi Hj Hb. exact (Hmin i j c Hi Hb).
  - destruct (music_axis_complex_thm tw NFFT Hpos meth eps _ _ crit amin x P S Vh Hrows scale psd ev He) as (ns & Ens & Hev' & Hlen & Hnth).
    destruct (signal_space_choice_thm _ _ _ _ _ _ _ _ _ _ Ens) as (_ & _ & _ & Hc).
    cbn [choice_spec] in Hc. destruct Hc as (z0 & Hz0 & Hrange & Hns). injection Hz0 as <-. rewrite Nat2Z.id in Hns. subst ns.
    split; [exact Hev'|]. split; [exact Hlen|]. split; [lia|]. split.
    + intros j Hj. split; [|apply Hnn]. unfold entry_val, entry_bin. apply (Hnth j). lia.
    + intros i j c Hi Hj Hb. exact (Hmin i j c Hi Hb).
Qed.
End SubspaceTone.

(* ---------------- C17's axis theorems in C02 form: the bin is the one Range reports (Model/Convert.v freq_bins) ---------------- *)
Require Import Spectrum.Model.Convert Spectrum.Proofs.ConvertTheory Spectrum.Proofs.ConvertAxis.
Section AxisC02.
Context {F : Type} {OF : Ops F} {L : Laws OF}.
Local Open Scope F_scope.
Variables (tw : Z -> F) (NFFT : nat).
Context {T : Twiddle NFFT tw}.
Hypothesis Hpos : (0 < NFFT)%nat.
Variables (meth : method_arg) (eps : F) (nsig : option nsig_arg) (thr : option F) (crit : crit_arg) (amin : nat)
          (x : list F) (P : nat) (S : list F) (Vh : list (list F)).
Hypothesis Hrows : forall I, (I < P)%nat -> length (mrow Vh I) = P.

Lemma flen_One_half' n : (1 <= n)%nat -> flen One n = (n / 2 + 1)%nat.
Proof. intros Hn. cbn [flen]. symmetry. destruct (Nat.even n) eqn:E; [reflexivity|]. rewrite <- (onesided_len n), E. reflexivity. Qed.

(* eigen(): entry j is the pseudo-spectrum at centerdc()[j] *)
Theorem music_axis_eigen_c02 psd ev :
  eigen meth eps nsig thr crit amin tw NFFT x P S Vh = inr (psd, ev) ->
  exists ns, eigen_nsig meth nsig thr crit amin (length x) P NFFT S = inr ns /\ ev = S /\ length psd = length (freq_bins Center NFFT) /\
    forall j, (j < NFFT)%nat -> nthF psd j = 1 / dform meth eps tw P S Vh ns (nth j (freq_bins Center NFFT) 0%Z).
Proof.
  intros He. destruct (music_axis_eigen_thm tw NFFT Hpos meth eps nsig thr crit amin x P S Vh Hrows psd ev He) as (ns & E1 & E2 & E3 & E4).
  exists ns. split; [exact E1|]. split; [exact E2|]. split.
  - unfold freq_bins. rewrite map_length, seq_length. exact E3.
  - intros j Hj. rewrite freq_bins_nth by exact Hj. apply E4, Hj.
Qed.
(* pmusic / pev, complex data: entry j is the (scaled) pseudo-spectrum at twosided()[j] *)
Theorem music_axis_complex_c02 scale psd ev :
  pclass meth eps false scale nsig thr crit amin tw NFFT x P S Vh = inr (psd, ev) ->
  exists ns, eigen_nsig meth nsig thr crit amin (length x) P NFFT S = inr ns /\ ev = S /\ length psd = length (freq_bins Two NFFT) /\
    forall j, (j < NFFT)%nat -> nthF psd j = scaled scale (1 / dform meth eps tw P S Vh ns (nth j (freq_bins Two NFFT) 0%Z)).
Proof.
  intros He. destruct (music_axis_complex_thm tw NFFT Hpos meth eps nsig thr crit amin x P S Vh Hrows scale psd ev He) as (ns & E1 & E2 & E3 & E4).
  exists ns. split; [exact E1|]. split; [exact E2|]. split.
  - unfold freq_bins. rewrite map_length, seq_length. exact E3.
  - intros j Hj. rewrite freq_bins_nth by exact Hj. apply E4, Hj.
Qed.
(* pmusic / pev, real data: len(onesided()) entries; entry j is twice the pseudo-spectrum at MINUS onesided()[j] -- the value at
   onesided()[j] itself when the singular vectors are real *)
Theorem music_axis_real_c02 scale psd ev :
  pclass meth eps true scale nsig thr crit amin tw NFFT x P S Vh = inr (psd, ev) ->
  exists ns, eigen_nsig meth nsig thr crit amin (length x) P NFFT S = inr ns /\ ev = S /\ length psd = length (freq_bins One NFFT) /\
    forall j, (j < length (freq_bins One NFFT))%nat ->
      nthF psd j = scaled scale (1 / dform meth eps tw P S Vh ns (- nth j (freq_bins One NFFT) 0%Z)%Z * two)
      /\ ((forall I m, conj (mat Vh I m) = mat Vh I m) ->
          nthF psd j = scaled scale (1 / dform meth eps tw P S Vh ns (nth j (freq_bins One NFFT) 0%Z) * two)).
Proof.
  intros He. destruct (music_axis_real_thm tw NFFT Hpos meth eps nsig thr crit amin x P S Vh Hrows scale psd ev He) as (ns & E1 & E2 & E3 & E4).
  assert (Hl : length (freq_bins One NFFT) = (NFFT / 2 + 1)%nat).
  { unfold freq_bins. rewrite map_length, seq_length. apply flen_One_half'. lia. }
  exists ns. split; [exact E1|]. split; [exact E2|]. split; [rewrite Hl; exact E3|].
  intros j Hj. rewrite Hl in Hj. rewrite freq_bins_nth by (rewrite flen_One_half' by lia; exact Hj). apply E4. lia.
Qed.
End AxisC02.
