(* Statement-level corollaries used by Properties/C20.v (kept here so that the property file holds
   nothing but [exact]s). *)
From Coq Require Import Reals Lra Lia.
Require Import Spectrum.Theory.Ops Spectrum.Theory.Vec Spectrum.Theory.Order Spectrum.Model.Window Spectrum.Instances.RWin
               Spectrum.Proofs.WindowEnbw Spectrum.Proofs.WindowBridge Spectrum.Proofs.WindowReal Spectrum.Proofs.WindowGen
               Spectrum.Proofs.WindowShape Spectrum.Proofs.WindowMax Spectrum.Proofs.WindowCentre.
Local Open Scope R_scope.
Notation length := List.length.

Lemma enbw_ge_1_real_thm (w : list R) : @sumL R r_ops w <> 0 -> 1 <= @enbw R r_ops w.
Proof.
  intros H. pose proof (@enbw_ge_1_thm R r_ops r_laws r_ord w (fun i _ => eq_refl) H) as E.
  unfold le, nonneg, r_ord in E. rsimp. lra.
Qed.

Section Final.
Variables (I0 : R -> R) (cheb : nat -> R -> list R).
Lemma window_max_le_1_thm (g : wgen) (N n : nat) :
  I0_ok I0 -> cheb_le1_ok cheb -> cheb_length_ok cheb -> gen_guard g -> max_dom g -> (n < N)%nat ->
  nthF (gen_window I0 cheb g N) n <= 1.
Proof.
  intros HI Hc Hl Hg Hd Hn. apply (gen_max_le_1_thm I0 cheb g N HI Hc Hd).
  rewrite (gen_length_thm I0 cheb g N Hl Hg). exact Hn.
Qed.
Lemma flattop_centre_refuted_thm (m : nat) : (1 <= m)%nat ->
  nthF (gen_window I0 cheb (GFlattop false) (2 * m + 1)) m = 1000000003 / 1000000000
  /\ ~ nthF (gen_window I0 cheb (GFlattop false) (2 * m + 1)) m <= 1.
Proof. intros Hm. cbn [gen_window]. rewrite (flattop_centre_value I0 cheb m Hm). split; [reflexivity|lra]. Qed.
Lemma flattop_periodic_peak_thm (m : nat) : (1 <= m)%nat ->
  nthF (gen_window I0 cheb (GFlattop true) (2 * m)) m = 1000000003 / 1000000000
  /\ ~ nthF (gen_window I0 cheb (GFlattop true) (2 * m)) m <= 1.
Proof. intros Hm. cbn [gen_window]. rewrite (flattop_periodic_peak_value I0 cheb m Hm). split; [reflexivity|lra]. Qed.
End Final.
