(* Statement-level corollaries used by Properties/C20.v (kept here so that the property file holds
   nothing but [exact]s). *)
From Coq Require Import Reals Lra Lia.
From Coq Require Import String.
Require Import Spectrum.Proofs.WindowFactory.
Require Import Spectrum.Theory.Ops Spectrum.Theory.Vec Spectrum.Theory.Order Spectrum.Model.Window Spectrum.Instances.RWin
               Spectrum.Proofs.WindowEnbw Spectrum.Proofs.WindowBridge Spectrum.Proofs.WindowReal Spectrum.Proofs.WindowGen
               Spectrum.Proofs.WindowShape Spectrum.Proofs.WindowMax Spectrum.Proofs.WindowCentre.
Local Open Scope R_scope.
Notation length := List.length.

Lemma enbw_ge_1_real_thm (w : list R) : @sumL R r_ops w <> 0 -> 1 <= @enbw R r_ops w.
Proof.
  intros H. pose proof (@enbw_ge_1_thm R r_ops r_laws r_ord w (fun i _ => eq_refl) H) as E.
  unfold le, nonneg, r_ord in E. rsimp. lra.
Qed.

Section Final.
Variables (I0 : R -> R) (cheb : nat -> R -> list R).
Lemma window_max_le_1_thm (g : wgen) (N n : nat) :
  I0_ok I0 -> cheb_le1_ok cheb -> cheb_length_ok cheb -> gen_guard g -> max_dom g -> (n < N)%nat ->
  nthF (gen_window I0 cheb g N) n <= 1.
Proof.
  intros HI Hc Hl Hg Hd Hn. apply (gen_max_le_1_thm I0 cheb g N HI Hc Hd).
  rewrite (gen_length_thm I0 cheb g N Hl Hg). exact Hn.
Qed.
Lemma flattop_centre_refuted_thm (m : nat) : (1 <= m)%nat ->
  nthF (gen_window I0 cheb (GFlattop false) (2 * m + 1)) m = 1000000003 / 1000000000
  /\ ~ nthF (gen_window I0 cheb (GFlattop false) (2 * m + 1)) m <= 1.
Proof. intros Hm. cbn [gen_window]. rewrite (flattop_centre_value I0 cheb m Hm). split; [reflexivity|lra]. Qed.
Lemma flattop_periodic_peak_thm (m : nat) : (1 <= m)%nat ->
  nthF (gen_window I0 cheb (GFlattop true) (2 * m)) m = 1000000003 / 1000000000
  /\ ~ nthF (gen_window I0 cheb (GFlattop true) (2 * m)) m <= 1.
Proof. intros Hm. cbn [gen_window]. rewrite (flattop_periodic_peak_value I0 cheb m Hm). split; [reflexivity|lra]. Qed.
(* end to end: every window the factory returns, for ANY tables, is one of the 24 generators *)
Lemma factory_returns_generator_thm (names : list (string * string)) (routes : list (string * list string))
      (sigs : list (string * list (string * lit_t))) (N : nat) (name : option string) (kw : list (string * pval)) (w : list R) :
  @create_window R r_ops (rT I0 cheb) names routes sigs N name kw = WOk w ->
  exists wg, w = gen_window I0 cheb wg N /\ gen_guard wg.
Proof.
  intros H. apply create_window_ok_run_gen in H. destruct H as [g [env H]]. exact (run_gen_cases I0 cheb g env N w H).
Qed.
Lemma factory_window_length_thm names routes sigs (N : nat) (name : option string) (kw : list (string * pval)) (w : list R) :
  cheb_length_ok cheb -> @create_window R r_ops (rT I0 cheb) names routes sigs N name kw = WOk w -> length w = N.
Proof.
  intros Hc H. destruct (factory_returns_generator_thm names routes sigs N name kw w H) as [wg [-> Hg]].
  apply gen_length_thm; assumption.
Qed.
End Final.
