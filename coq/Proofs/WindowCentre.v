(* centre sample = 1 for odd N = 2m+1 >= 3 (index m), over R; flat-top centre = 1.000000003 (refutation). *)
From Coq Require Import Reals Lra Lia.
Require Import Spectrum.Theory.Ops Spectrum.Theory.Vec Spectrum.Model.Window Spectrum.Instances.RWin
               Spectrum.Proofs.WindowBridge Spectrum.Proofs.WindowReal Spectrum.Proofs.WindowGen
               Spectrum.Proofs.WindowSym Spectrum.Proofs.WindowPiecewise Spectrum.Proofs.WindowShape.
Local Open Scope R_scope.
Notation length := List.length.

Section Centre.
Variables (I0 : R -> R) (cheb : nat -> R -> list R).
#[local] Hint Extern 0 (TOps R) => exact (rT I0 cheb) : typeclass_instances.
Ltac tsimp := cbn [tcos tsin texp tln tsqrt tabs tpi tI0 tltb tleb teqb tcheb r_tops rT] in *; rsimp.

Definition centre1 (l : list R) (m : nat) : Prop := nthF l m = 1.
Lemma nth_ones_R N j : (j < N)%nat -> nthF (ones N) j = 1.
Proof. intros H. exact (nth_ones N j H). Qed.

(* for N = 2m+1: the body at i = m, with N - 1 = 2m *)
Lemma nth_unless1_centre m (f : Z -> R) : (1 <= m)%nat -> nthF (unless1 (2 * m + 1) f) m = f (Z.of_nat m).
Proof. intros Hm. apply nth_unless1; lia. Qed.
Lemma pred_odd m : (Z.of_nat (2 * m + 1) - 1 = 2 * Z.of_nat m)%Z. Proof. lia. Qed.
Lemma IZR_m_pos m : (1 <= m)%nat -> 0 < IZR (Z.of_nat m). Proof. intros. apply IZR_lt. lia. Qed.

Ltac centre_setup m Hm mm Hp :=
  rewrite ?pred_odd, ?ofZ_IZR, ?two_R, ?half_R, ?lit_IZR, ?mult_IZR;
  pose proof (IZR_m_pos m Hm) as Hp; set (mm := IZR (Z.of_nat m)) in *; tsimp.

Lemma np_n_centre m : np_n (Z.of_nat (2 * m + 1)) (Z.of_nat m) = 0.
Proof. unfold np_n. rewrite ofZ_IZR. replace (1 - Z.of_nat (2 * m + 1) + 2 * Z.of_nat m)%Z with 0%Z by lia. reflexivity. Qed.

Lemma rectangle_centre m : centre1 (window_rectangle (2 * m + 1)) m.
Proof. unfold centre1, window_rectangle. apply nth_ones_R. lia. Qed.
Lemma hann_centre m : (1 <= m)%nat -> centre1 (window_hann (2 * m + 1)) m.
Proof.
  intros Hm. unfold centre1, window_hann. cbv zeta. rewrite nth_unless1_centre by exact Hm. rewrite np_n_centre.
  centre_setup m Hm mm Hp. replace (PI * 0 / (2 * mm)) with 0 by (field; lra). rewrite cos_0. lra.
Qed.
Lemma hamming_centre m : (1 <= m)%nat -> centre1 (window_hamming (2 * m + 1)) m.
Proof.
  intros Hm. unfold centre1, window_hamming. cbv zeta. rewrite nth_unless1_centre by exact Hm. rewrite np_n_centre.
  centre_setup m Hm mm Hp. replace (PI * 0 / (2 * mm)) with 0 by (field; lra). rewrite cos_0. lra.
Qed.
Lemma bartlett_centre m : (1 <= m)%nat -> centre1 (window_bartlett (2 * m + 1)) m.
Proof.
  intros Hm. unfold centre1, window_bartlett. cbv zeta. rewrite nth_unless1_centre by exact Hm. rewrite np_n_centre.
  centre_setup m Hm mm Hp. assert (E : Rleb 0 0 = true) by (apply Rleb_true; lra). rewrite E. field. lra.
Qed.
Lemma kaiser_centre m beta : (1 <= m)%nat -> I0 beta <> 0 -> centre1 (window_kaiser (2 * m + 1) beta) m.
Proof.
  intros Hm Hb. unfold centre1, window_kaiser. cbv zeta. rewrite nth_unless1_centre by exact Hm.
  centre_setup m Hm mm Hp. rewrite sq_R.
  replace ((mm - 2 * mm / 2) / (2 * mm / 2) * ((mm - 2 * mm / 2) / (2 * mm / 2))) with 0 by (field; lra).
  rewrite Rminus_0_r, sqrt_1, Rmult_1_r. field. exact Hb.
Qed.
Lemma blackman_centre m alpha : (1 <= m)%nat -> centre1 (window_blackman (2 * m + 1) alpha) m.
Proof.
  intros Hm. unfold centre1, window_blackman. cbv zeta. rewrite nth_unless1_centre by exact Hm.
  centre_setup m Hm mm Hp.
  replace (2 * PI * (mm / (2 * mm))) with PI by (field; lra).
  replace (4 * PI * (mm / (2 * mm))) with (2 * PI) by (field; lra).
  rewrite cos_PI, cos_2PI. field.
Qed.
Lemma cosine_centre m : (1 <= m)%nat -> centre1 (window_cosine (2 * m + 1)) m.
Proof.
  intros Hm. unfold centre1, window_cosine. cbv zeta. rewrite nth_unless1_centre by exact Hm.
  centre_setup m Hm mm Hp. replace (PI * mm / (2 * mm)) with (PI / 2) by (field; lra). apply sin_PI2.
Qed.
Lemma lanczos_centre m : (1 <= m)%nat -> centre1 (window_lanczos (2 * m + 1)) m.
Proof.
  intros Hm. unfold centre1, window_lanczos. cbv zeta. rewrite nth_unless1_centre by exact Hm.
  centre_setup m Hm mm Hp. replace (2 * mm / (2 * mm) - 1) with 0 by (field; lra). apply sinc_0.
Qed.
Lemma bartlett_hann_centre m : (1 <= m)%nat -> centre1 (window_bartlett_hann (2 * m + 1)) m.
Proof.
  intros Hm. unfold centre1, window_bartlett_hann, bh_a0, bh_a1, bh_a2. cbv zeta. rewrite nth_unless1_centre by exact Hm.
  centre_setup m Hm mm Hp.
  replace (mm / (2 * mm) - / 2) with 0 by (field; lra). rewrite Rabs_R0.
  replace (2 * PI * mm / (2 * mm)) with PI by (field; lra). rewrite cos_PI. lra.
Qed.
Lemma coeff4_centre m a0 a1 a2 a3 : (1 <= m)%nat -> nthF (coeff4 (2 * m + 1) a0 a1 a2 a3) m = a0 + a1 + a2 + a3.
Proof.
  intros Hm. unfold coeff4. cbv zeta. rewrite nth_unless1_centre by exact Hm.
  centre_setup m Hm mm Hp.
  replace (2 * PI * mm / (2 * mm)) with PI by (field; lra).
  replace (4 * PI * mm / (2 * mm)) with (2 * PI) by (field; lra).
  replace (6 * PI * mm / (2 * mm)) with (3 * PI) by (field; lra).
  rewrite cos_PI, cos_2PI, cos_3PI. ring.
Qed.
Lemma nuttall_centre m : (1 <= m)%nat -> centre1 (window_nuttall (2 * m + 1)) m.
Proof. intros Hm. unfold centre1, window_nuttall. rewrite coeff4_centre by exact Hm. rewrite !lit_IZR. lra. Qed.
Lemma blackman_nuttall_centre m : (1 <= m)%nat -> centre1 (window_blackman_nuttall (2 * m + 1)) m.
Proof. intros Hm. unfold centre1, window_blackman_nuttall. rewrite coeff4_centre by exact Hm. rewrite !lit_IZR. lra. Qed.
Lemma blackman_harris_centre m : (1 <= m)%nat -> centre1 (window_blackman_harris (2 * m + 1)) m.
Proof. intros Hm. unfold centre1, window_blackman_harris. rewrite coeff4_centre by exact Hm. rewrite !lit_IZR. lra. Qed.

(* D16: the symmetric flat-top centre sample is the sum of the published coefficients, 1.000000003 *)
Theorem flattop_centre_value m : (1 <= m)%nat ->
  nthF (window_flattop (2 * m + 1) false) m = 1000000003 / 1000000000.
Proof.
  intros Hm. unfold window_flattop. cbv zeta. rewrite nth_unless1_centre by exact Hm.
  unfold flattop_f, ft_a0, ft_a1, ft_a2, ft_a3, ft_a4. centre_setup m Hm mm Hp.
  replace (2 * PI * mm / (2 * mm)) with PI by (field; lra).
  replace (4 * PI) with (2 * INR 2 * PI) by (simpl; ring). rewrite cos_2kPI. rewrite cos_PI, cos_2PI, cos_3PI. lra.
Qed.
(* periodic mode, even N = 2m: sample m sits at phase pi as well *)
Theorem flattop_periodic_peak_value m : (1 <= m)%nat ->
  nthF (window_flattop (2 * m) true) m = 1000000003 / 1000000000.
Proof.
  intros Hm. unfold window_flattop. cbv zeta. rewrite nth_mkz by lia.
  unfold flattop_f, ft_a0, ft_a1, ft_a2, ft_a3, ft_a4.
  replace (Z.of_nat (2 * m)) with (2 * Z.of_nat m)%Z by lia. centre_setup m Hm mm Hp.
  replace (2 * PI * mm / (2 * mm)) with PI by (field; lra).
  replace (4 * PI) with (2 * INR 2 * PI) by (simpl; ring). rewrite cos_2kPI. rewrite cos_PI, cos_2PI, cos_3PI. lra.
Qed.

(* ---- linspace family: the centre abscissa is 0 *)
Lemma gaussian_centre m alpha : (1 <= m)%nat -> centre1 (window_gaussian (2 * m + 1) alpha) m.
Proof.
  intros Hm. unfold centre1, window_gaussian. cbv zeta. rewrite nth_mkz by lia. rewrite linspace_centre by exact Hm.
  rewrite half_R. tsimp. rewrite sq_R. replace (- / 2 * (alpha * 0 / (ofZ (Z.of_nat (2 * m + 1)) / two) * (alpha * 0 / (ofZ (Z.of_nat (2 * m + 1)) / two)))) with 0.
  - apply exp_0.
  - unfold Rdiv. ring.
Qed.
Lemma bohman_centre m : (1 <= m)%nat -> centre1 (window_bohman (2 * m + 1)) m.
Proof.
  intros Hm. unfold centre1, window_bohman. cbv zeta. rewrite nth_mkz by lia. rewrite linspace_centre by exact Hm.
  unfold bohman_f. tsimp. rewrite Rabs_R0, Rmult_0_r, cos_0, sin_0. lra.
Qed.
Lemma nhalf_centre m : (1 <= m)%nat -> nhalf (Z.of_nat (2 * m + 1)) (Z.of_nat m) = 0.
Proof. intros. unfold nhalf. apply linspace_centre. assumption. Qed.
Lemma riesz_centre m : (1 <= m)%nat -> centre1 (window_riesz (2 * m + 1)) m.
Proof.
  intros Hm. unfold centre1, window_riesz. cbv zeta. rewrite nth_mkz by lia. rewrite nhalf_centre by exact Hm.
  tsimp. rewrite sq_R. unfold Rdiv. rewrite Rmult_0_l, Rabs_R0. lra.
Qed.
Lemma riemann_centre m : (1 <= m)%nat -> centre1 (window_riemann (2 * m + 1)) m.
Proof.
  intros Hm. unfold centre1, window_riemann. cbv zeta. rewrite nth_mkz by lia. rewrite nhalf_centre by exact Hm.
  tsimp. replace (two * 0 / ofZ (Z.of_nat (2 * m + 1))) with 0 by (unfold Rdiv; ring). apply sinc_0.
Qed.
Lemma poisson_centre m alpha : (1 <= m)%nat -> centre1 (window_poisson (2 * m + 1) alpha) m.
Proof.
  intros Hm. unfold centre1, window_poisson. cbv zeta. rewrite nth_mkz by lia. rewrite nhalf_centre by exact Hm.
  tsimp. rewrite Rabs_R0. replace (- alpha * 0 / (ofZ (Z.of_nat (2 * m + 1)) / two)) with 0 by (unfold Rdiv; ring). apply exp_0.
Qed.
Lemma cauchy_centre m alpha : (1 <= m)%nat -> centre1 (window_cauchy (2 * m + 1) alpha) m.
Proof.
  intros Hm. unfold centre1, window_cauchy. cbv zeta. rewrite nth_mkz by lia. rewrite nhalf_centre by exact Hm.
  tsimp. rewrite sq_R. replace (alpha * 0 / (ofZ (Z.of_nat (2 * m + 1)) / two)) with 0 by (unfold Rdiv; ring). lra.
Qed.
Lemma poisson_hanning_centre m alpha : (1 <= m)%nat -> centre1 (window_poisson_hanning (2 * m + 1) alpha) m.
Proof.
  intros Hm. unfold centre1. rewrite poisson_hanning_nth by lia.
  pose proof (hann_centre m Hm) as H1. pose proof (poisson_centre m alpha Hm) as H2. unfold centre1 in *. rewrite H1, H2. lra.
Qed.
Lemma parzen_centre m : (1 <= m)%nat -> centre1 (window_parzen (2 * m + 1)) m.
Proof.
  intros Hm. unfold centre1. rewrite parzen_pointwise. rewrite nth_mkz by lia. unfold parzen_pw. cbv zeta.
  unfold pz_t. rewrite linspace_centre by exact Hm. rewrite Rabs_R0.
  assert (E : Rleb 0 (IZR (Z.of_nat (2 * m + 1) - 1) / 4) = true).
  { apply Rleb_true. assert (0 <= IZR (Z.of_nat (2 * m + 1) - 1)) by (apply IZR_le; lia). lra. }
  rewrite E. unfold parzen_in. tsimp. rewrite sq_R. unfold cube. tsimp. rewrite Rabs_R0. unfold Rdiv. rewrite !Rmult_0_l, !Rmult_0_r. lra.
Qed.
Lemma tukey_centre m r : (1 <= m)%nat -> 0 <= r <= 1 -> centre1 (window_tukey (2 * m + 1) r) m.
Proof.
  intros Hm Hr. unfold centre1, window_tukey. destruct (Nat.eqb_spec (2 * m + 1) 1) as [E|_]; [lia|].
  match goal with |- nthF (if ?c then _ else _) _ = _ => destruct c end; [apply nth_ones_R; lia|].
  match goal with |- nthF (if ?c then _ else _) _ = _ => destruct c end; [apply hann_centre; exact Hm|].
  cbv zeta. pose proof (tukey_head_le I0 cheb (2 * m + 1) r ltac:(lia) (proj2 Hr)) as Hh.
  assert (E2 : ((2 * m + 1) / 2 = m)%nat).
  { symmetry. apply (Nat.div_unique (2 * m + 1) 2 m 1); lia. }
  rewrite E2 in Hh. rewrite nthF_app_r by exact Hh. rewrite nthF_app_l by (rewrite ones_length; lia).
  apply nth_ones_R. lia.
Qed.
Lemma taylor_centre m nbar sll : (1 <= m)%nat ->
  taylor_W (Z.of_nat (2 * m + 1)) (map (fun k => (ofn k, taylor_Fm nbar (taylor_A sll) k)) (taylor_ma nbar))
           (ofZ (Z.of_nat (2 * m + 1) - 1) / two) <> 0 ->
  centre1 (window_taylor (2 * m + 1) nbar sll) m.
Proof.
  intros Hm Hs. unfold centre1, window_taylor. cbv zeta. rewrite nth_mkz by lia.
  assert (E : @ofZ R r_ops (Z.of_nat (2 * m + 1) - 1) / two = ofZ (Z.of_nat m)).
  { rewrite pred_odd, !ofZ_IZR, two_R, mult_IZR. rsimp. field. }
  rsimp. rewrite E in *. set (W := taylor_W _ _ _) in *. unfold Rdiv. apply Rinv_r. exact Hs.
Qed.

(* ---- the family *)
Definition cheb_centre_ok : Prop := forall m a, (1 <= m)%nat -> centre1 (cheb (2 * m + 1) a) m.
Definition centre_dom (g : wgen) (m : nat) : Prop :=
  match g with
  | GKaiser b => I0 b <> 0
  | GTukey r => 0 <= r <= 1
  | GFlattop _ => False
  | GTaylor nbar sll =>
      taylor_W (Z.of_nat (2 * m + 1)) (map (fun k => (ofn k, taylor_Fm nbar (taylor_A sll) k)) (taylor_ma nbar))
               (ofZ (Z.of_nat (2 * m + 1) - 1) / two) <> 0
  | _ => True
  end.
Theorem gen_centre_is_1_thm (g : wgen) (m : nat) : cheb_centre_ok -> (1 <= m)%nat -> centre_dom g m ->
  nthF (gen_window I0 cheb g (2 * m + 1)) m = 1.
Proof.
  intros Hc Hm Hd. destruct g; cbn [gen_window centre_dom] in *; try contradiction.
  - apply rectangle_centre. - apply bartlett_centre; assumption. - apply hamming_centre; assumption.
  - apply hann_centre; assumption. - apply kaiser_centre; assumption. - apply blackman_centre; assumption.
  - apply gaussian_centre; assumption. - apply Hc; assumption. - apply cosine_centre; assumption.
  - apply lanczos_centre; assumption. - apply bartlett_hann_centre; assumption. - apply nuttall_centre; assumption.
  - apply blackman_nuttall_centre; assumption. - apply blackman_harris_centre; assumption. - apply bohman_centre; assumption.
  - apply tukey_centre; assumption. - apply parzen_centre; assumption. - apply taylor_centre; assumption.
  - apply riesz_centre; assumption. - apply riemann_centre; assumption. - apply poisson_centre; assumption.
  - apply poisson_hanning_centre; assumption. - apply cauchy_centre; assumption.
Qed.
End Centre.
