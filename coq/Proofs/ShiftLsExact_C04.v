(* C04 — the oracles of C15's correspondence run ([ls_exact] / [lsm_exact]: elimination WITHOUT pivoting and without
   zero tests on the Gram matrix of the covariance method, then back-substitution) are equivariant under modulation
   (any phase offset) and conjugation of their input whenever no pivot of the elimination is zero ([ls_exact_regular]).
   Hence arma_estimate with exactly the oracles that C15 ties to the code obeys the modulation / conjugation laws with
   no oracle hypothesis left.

   Core: elimination + back-substitution is equivariant under  rows'(i,j) = u_i f(rows(i,j)) w_j  with u_i v_i = 1,
   w_j = v_j on the coefficient columns and 1 on the right-hand side, f a field map (id: modulation, conj: conjugation);
   the solution is scaled by u.  (The analogue of ShiftLs_C04.gauss_equiv for the unnormalised elimination of
   Model/ArmaEst.v; divisions happen by pivots, so regular pivots are needed instead of gauss's zero tests.) *)
Require Import Spectrum.Theory.Ops Spectrum.Theory.Sum Spectrum.Theory.Vec Spectrum.Theory.Order Spectrum.Theory.Dft
               Spectrum.Model.Levinson Spectrum.Model.Corr Spectrum.Model.ArmaEst Spectrum.Model.ArmaCall
               Spectrum.Proofs.LevinsonTheory Spectrum.Proofs.ShiftTheory Spectrum.Proofs.ShiftDft_C04 Spectrum.Proofs.ShiftPeriodogram_C04
               Spectrum.Proofs.ArmaEstTheory Spectrum.Proofs.ArmaEstNondeg Spectrum.Proofs.ShiftLs_C04 Spectrum.Proofs.ShiftArmaEst_C04.

Section ElimEq.
Context {F : Type} {OF : Ops F} {L : Laws OF}.
Local Open Scope F_scope.
Add Field FFsle : (fth (O:=OF)).

Variable f : F -> F.
Hypothesis f_0 : f 0 = 0.
Hypothesis f_add : forall a b, f (a + b) = f a + f b.
Hypothesis f_mul : forall a b, f (a * b) = f a * f b.
Hypothesis f_opp : forall a, f (- a) = - f a.
Hypothesis f_div : forall a b, b <> 0 -> f (a / b) = f a / f b.
Hypothesis f_nz : forall a, a <> 0 -> f a <> 0.
Variables u v : nat -> F.
Hypothesis uv : forall i, u i * v i = 1.

Lemma fE_sub a b : f (a - b) = f a - f b.
Proof. replace (a - b) with (a + - b) by ring. rewrite f_add, f_opp. ring. Qed.
Lemma fE_sumf n g : f (sumf n g) = sumf n (fun i => f (g i)).
Proof. induction n; cbn [sumf]; [exact f_0|]. rewrite f_add, IHn. reflexivity. Qed.
Lemma u_nz i : u i <> 0.
Proof. intros E. apply (F_1_neq_0 (fth (O:=OF))). rewrite <- (uv i), E. ring. Qed.
Lemma v_nz i : v i <> 0.
Proof. intros E. apply (F_1_neq_0 (fth (O:=OF))). rewrite <- (uv i), E. ring. Qed.

Definition wc (off q j : nat) : F := if (j <? q)%nat then v (off + j) else 1.
Definition ss (off : nat) (sol : list F) : list F := mk (length sol) (fun j => u (off + j) * f (nthF sol j)).
Definition entE (rows : list (list F)) (i j : nat) : F := nthF (nth i rows []) j.
Definition RelE (off q : nat) (rows rows' : list (list F)) : Prop :=
  length rows' = length rows /\ Forall (fun r => length r = S q) rows /\ Forall (fun r => length r = S q) rows' /\
  forall i j, (i < length rows)%nat -> (j <= q)%nat -> entE rows' i j = u (off + i) * f (entE rows i j) * wc off q j.

Lemma wc_0 off q : wc off (S q) 0 = v off.
Proof. unfold wc. cbn. rewrite Nat.add_0_r. reflexivity. Qed.
Lemma wc_S off q j : wc off (S q) (S j) = wc (S off) q j.
Proof. unfold wc. replace (S j <? S q)%nat with (j <? q)%nat by reflexivity. replace (off + S j)%nat with (S off + j)%nat by lia. reflexivity. Qed.
Lemma wc_last off q : wc off q q = 1.
Proof. unfold wc. rewrite Nat.ltb_irrefl. reflexivity. Qed.
Lemma wc_lt off q j : (j < q)%nat -> wc off q j = v (off + j).
Proof. intros H. unfold wc. destruct (Nat.ltb_spec j q); [reflexivity|lia]. Qed.
Lemma mkE_S_cons n (g : nat -> F) : mk (S n) g = g O :: mk n (fun j => g (S j)).
Proof. unfold mk. cbn [seq map]. f_equal. rewrite <- seq_shift, map_map. reflexivity. Qed.
Lemma ss_cons off a sol : ss off (a :: sol) = u off * f a :: ss (S off) sol.
Proof.
  unfold ss. cbn [length]. rewrite mkE_S_cons. rewrite nthF_cons0, Nat.add_0_r. f_equal.
  apply mk_ext; intros j _. rewrite nthF_consS. do 2 f_equal. lia.
Qed.
Lemma nthF_ss off sol j : (j < length sol)%nat -> nthF (ss off sol) j = u (off + j) * f (nthF sol j).
Proof. intros H. unfold ss. rewrite nth_mk by exact H. reflexivity. Qed.
Lemma nth_map_lt (g : list F -> list F) (rest : list (list F)) i : (i < length rest)%nat -> nth i (map g rest) [] = g (nth i rest []).
Proof. intros H. rewrite (nth_indep _ [] (g [])) by (rewrite map_length; exact H). apply map_nth. Qed.
Lemma nthF_tl (l : list F) j : nthF (tl l) j = nthF l (S j).
Proof. destruct l; [destruct j; reflexivity|reflexivity]. Qed.

Lemma solve_equiv q : forall off (rows rows' : list (list F)), RelE off q rows rows' -> length rows = q -> elim_regular q rows ->
  backsub (elim q rows') = ss off (backsub (elim q rows)).
Proof.
  induction q as [|q IH]; intros off rows rows' (Hlen & HF & HF' & Hent) Hq Hreg.
  { destruct rows; [|discriminate]. destruct rows'; [|discriminate]. reflexivity. }
  destruct rows as [|piv rest]; [discriminate|]. destruct rows' as [|piv' rest']; [discriminate|].
  cbn [length] in Hlen, Hq. assert (Hrest : length rest = q) by lia. assert (Hrest' : length rest' = q) by lia.
  destruct Hreg as [Hp0 Hreg]. inversion HF as [|? ? Hlp HFr]; subst. inversion HF' as [|? ? Hlp' HFr']; subst.
  assert (Hpiv : forall j, (j <= S (length rest))%nat -> nthF piv' j = u off * f (nthF piv j) * wc off (S (length rest)) j).
  { intros j Hj. pose proof (Hent O j ltac:(cbn; lia) Hj) as E. unfold entE in E. cbn [nth] in E. rewrite Nat.add_0_r in E. exact E. }
  set (q := length rest) in *.
  assert (Ep0 : nthF piv' 0 = u off * f (nthF piv 0) * v off) by (rewrite Hpiv by lia; rewrite wc_0; reflexivity).
  pose proof (f_nz _ Hp0) as Hfp0. pose proof (u_nz off) as Hu. pose proof (v_nz off) as Hv.
  cbn [elim].
  set (rest2 := map (fun r => tl (row_sub (nthF r 0 / nthF piv 0) piv r)) rest) in *.
  set (rest2' := map (fun r => tl (row_sub (nthF r 0 / nthF piv' 0) piv' r)) rest').
  assert (R2 : RelE (S off) q rest2 rest2').
  { unfold rest2, rest2'. split; [rewrite !map_length; lia|]. split; [|split].
    - apply Forall_forall. intros r Hr. apply in_map_iff in Hr. destruct Hr as (r0 & <- & Hin).
      rewrite Forall_forall in HFr. unfold row_sub. destruct (mk (length r0) _) eqn:E; [apply (f_equal (@length F)) in E; rewrite mk_length, (HFr r0 Hin) in E; discriminate|].
      apply (f_equal (@length F)) in E. rewrite mk_length, (HFr r0 Hin) in E. cbn [tl length] in *. lia.
    - apply Forall_forall. intros r Hr. apply in_map_iff in Hr. destruct Hr as (r0 & <- & Hin).
      rewrite Forall_forall in HFr'. unfold row_sub. destruct (mk (length r0) _) eqn:E; [apply (f_equal (@length F)) in E; rewrite mk_length, (HFr' r0 Hin) in E; discriminate|].
      apply (f_equal (@length F)) in E. rewrite mk_length, (HFr' r0 Hin) in E. cbn [tl length] in *. lia.
    - intros i j Hi Hj. rewrite map_length in Hi. unfold entE.
      rewrite (nth_map_lt _ rest i Hi), (nth_map_lt _ rest' i ltac:(lia)).
      set (r := nth i rest []). set (r' := nth i rest' []).
      assert (Hlr : length r = S (S q)) by (rewrite Forall_forall in HFr; apply HFr; apply nth_In; exact Hi).
      assert (Hlr' : length r' = S (S q)) by (rewrite Forall_forall in HFr'; apply HFr'; apply nth_In; lia).
      assert (Hr : forall k, (k <= S q)%nat -> nthF r' k = u (off + S i) * f (nthF r k) * wc off (S q) k).
      { intros k Hk. pose proof (Hent (S i) k ltac:(cbn; lia) Hk) as E. unfold entE in E. cbn [nth] in E. exact E. }
      rewrite !nthF_tl. unfold row_sub. rewrite Hlr, Hlr', !nth_mk by lia.
      rewrite (Hr (S j)) by lia. rewrite (Hr O) by lia. rewrite Ep0, (Hpiv (S j)) by lia. rewrite wc_0, !wc_S.
      rewrite fE_sub, f_mul, f_div by exact Hp0.
      replace (off + S i)%nat with (S off + i)%nat by lia. set (W := wc (S off) q j).
      field. repeat split; assumption. }
  assert (Hl2 : length rest2 = q) by (unfold rest2; rewrite map_length; reflexivity).
  cbn [backsub]. rewrite (IH (S off) rest2 rest2' R2 Hl2 Hreg).
  set (xs := backsub (elim q rest2)).
  assert (Hxs : length xs = q) by (unfold xs; rewrite backsub_length, elim_length, Hl2; lia).
  rewrite ss_cons. f_equal.
  unfold ss at 1 2. rewrite !mk_length, Hxs. fold (ss (S off) xs).
  rewrite !sumL_mk, (Hpiv (S q)) by lia. rewrite wc_last, Ep0.
  rewrite (sumf_ext q (fun j => nthF piv' (S j) * nthF (ss (S off) xs) j) (fun j => u off * f (nthF piv (S j) * nthF xs j))).
  2:{ intros j Hj. rewrite (Hpiv (S j)) by lia. rewrite wc_S, wc_lt by exact Hj. rewrite nthF_ss by lia. rewrite f_mul.
      transitivity (u off * (f (nthF piv (S j)) * f (nthF xs j)) * (u (S off + j) * v (S off + j))); [ring|]. rewrite uv. ring. }
  rewrite sumf_scale, f_div by exact Hp0. rewrite fE_sub, fE_sumf.
  set (A := f (nthF piv (S q))). set (S0 := sumf q (fun i => f (nthF piv (S i) * nthF xs i))). set (p0 := f (nthF piv 0)) in *.
  transitivity ((u off * A * 1 - u off * S0) / (u off * p0 * v off) * (u off * v off)); [rewrite uv; ring|].
  field. repeat split; assumption.
Qed.
End ElimEq.

Section LsExactShift.
Context {F : Type} {OF : Ops F} {L : Laws OF}.
Local Open Scope F_scope.
Add Field FFsle2 : (fth (O:=OF)).

Lemma ls_rows_length (y : list F) p : length (ls_rows y p) = p.
Proof. unfold ls_rows. rewrite map_length, seq_length. reflexivity. Qed.
Lemma ls_rows_row_lengths (y : list F) p : Forall (fun r => length r = S p) (ls_rows y p).
Proof.
  apply Forall_forall. intros r Hr. unfold ls_rows in Hr. apply in_map_iff in Hr. destruct Hr as (i & <- & _).
  rewrite app_length, mk_length. cbn. lia.
Qed.
Lemma ls_rows_ent (y : list F) p i j : (i < p)%nat -> (j <= p)%nat ->
  entE (ls_rows y p) i j = if (j <? p)%nat then cov_gram y p i j else cov_rhs y p i.
Proof.
  intros Hi Hj. unfold entE, ls_rows. set (g := fun i0 => mk p (cov_gram y p i0) ++ [cov_rhs y p i0]).
  rewrite (nth_indep _ [] (g O)) by (rewrite map_length, seq_length; exact Hi).
  rewrite map_nth, seq_nth by exact Hi. cbn [Nat.add]. unfold g.
  destruct (Nat.ltb_spec j p) as [H|H].
  - rewrite nthF_app_l by (rewrite mk_length; exact H). apply nth_mk. exact H.
  - replace j with p by lia. apply nthF_app_last'. apply mk_length.
Qed.

Section Mod.
Variable phi : Z -> F.
Hypothesis phi_add : forall a b : Z, phi (a + b)%Z = phi a * phi b.
Hypothesis phi_0 : phi 0%Z = 1.
Hypothesis phi_cj : forall a : Z, conj (phi a) = phi (- a)%Z.
Let uph (i : nat) : F := um phi i.
Let vph (j : nat) : F := vm phi j.

Lemma cov_gram_mod off (y : list F) p i j : (i < p)%nat -> (j < p)%nat ->
  cov_gram (vmod phi off y) p i j = uph (1 + i) * cov_gram y p i j * vph (1 + j).
Proof.
  intros Hi Hj. unfold cov_gram. rewrite vmod_length, !sumL_mk, <- sumf_scale, <- sumf_scale_r. apply sumf_ext; intros t _.
  rewrite !nthF_vmod, conj_mul.
  transitivity (conj (nthF y (p + t - 1 - i)) * nthF y (p + t - 1 - j)
                * (conj (phi (Z.of_nat (p + t - 1 - i) + off)) * phi (Z.of_nat (p + t - 1 - j) + off))); [ring|].
  rewrite (phase_pair phi phi_add phi_cj _ _ (1 + i) (1 + j)) by lia. unfold uph, vph. ring.
Qed.
Lemma cov_rhs_mod off (y : list F) p i : (i < p)%nat -> cov_rhs (vmod phi off y) p i = uph (1 + i) * cov_rhs y p i.
Proof.
  intros Hi. unfold cov_rhs. rewrite vmod_length, !sumL_mk.
  rewrite (sumf_ext _ _ (fun t => uph (1 + i) * (conj (nthF y (p + t - 1 - i)) * nthF y (p + t)))).
  - rewrite sumf_scale. ring.
  - intros t _. rewrite !nthF_vmod, conj_mul.
    transitivity (conj (nthF y (p + t - 1 - i)) * nthF y (p + t) * (conj (phi (Z.of_nat (p + t - 1 - i) + off)) * phi (Z.of_nat (p + t) + off))); [ring|].
    rewrite (phase_pair phi phi_add phi_cj _ _ (1 + i) 0) by lia. unfold uph, vm. cbn [Z.of_nat]. rewrite phi_0, conj_1. ring.
Qed.

Theorem ls_exact_modulation off (y : list F) p : ls_exact_regular y p ->
  ls_exact (vmod phi off y) p = modA phi (ls_exact y p).
Proof.
  intros Hreg. unfold ls_exact. fold (ls_rows (vmod phi off y) p). fold (ls_rows y p).
  rewrite (solve_equiv (fun z => z) eq_refl (fun _ _ => eq_refl) (fun _ _ => eq_refl) (fun _ => eq_refl) (fun _ _ _ => eq_refl) (fun _ H => H)
             uph vph (um_vm phi phi_add phi_0 phi_cj) p 1 (ls_rows y p) (ls_rows (vmod phi off y) p)).
  - unfold ss, modA, vmod. apply mk_ext; intros j _. unfold uph, um. replace (Z.of_nat (1 + j)) with (Z.of_nat j + 1)%Z by lia. ring.
  - split; [rewrite !ls_rows_length; reflexivity|]. split; [apply ls_rows_row_lengths|]. split; [apply ls_rows_row_lengths|].
    intros i j Hi Hj. rewrite ls_rows_length in Hi. rewrite !ls_rows_ent by assumption. unfold wc.
    destruct (Nat.ltb_spec j p) as [H|H]; [apply cov_gram_mod; assumption|]. rewrite cov_rhs_mod by exact Hi. ring.
  - apply ls_rows_length.
  - exact Hreg.
Qed.
Theorem lsm_exact_modulation off (y : list F) p : ls_exact_regular y p ->
  firstn p (lsm_exact (vmod phi off y) p) = modA phi (firstn p (lsm_exact y p)).
Proof.
  intros Hreg. unfold lsm_exact. rewrite ls_exact_modulation, vmod_length by exact Hreg.
  apply (firstn_pad_modA phi).
Qed.

(* arma_estimate with the oracles of the correspondence run: no oracle hypothesis left *)
Theorem arma_estimate_exact_modulation_thm (x : list F) P Q lag :
  (forall r, acorr x lag Unbiased = Some r -> ls_exact_regular (arma_y r P Q lag) P) ->
  arma_estimate lsm_exact ls_exact (vmod phi 0 x) P Q lag = map_arma (modA phi) (arma_estimate lsm_exact ls_exact x P Q lag).
Proof.
  intros Hreg. apply (arma_estimate_modulation_gen phi phi_add phi_0 phi_cj).
  intros r Er. specialize (Hreg r Er). split; [apply lsm_exact_modulation|apply ls_exact_modulation]; exact Hreg.
Qed.
End Mod.

(* ---------------- conjugation ---------------- *)
Lemma cov_gram_conj (y : list F) p i j : cov_gram (vconj y) p i j = conj (cov_gram y p i j).
Proof.
  unfold cov_gram. rewrite vconj_length, !sumL_mk, sumf_conj. apply sumf_ext; intros t _. rewrite !nthF_vconj, conj_mul. reflexivity.
Qed.
Lemma cov_rhs_conj (y : list F) p i : cov_rhs (vconj y) p i = conj (cov_rhs y p i).
Proof.
  unfold cov_rhs. rewrite vconj_length, !sumL_mk, conj_opp, sumf_conj. f_equal. apply sumf_ext; intros t _. rewrite !nthF_vconj, conj_mul. reflexivity.
Qed.
Lemma conj_nz (a : F) : a <> 0 -> conj a <> 0.
Proof. intros Ha E. apply Ha. rewrite <- (conj_conj a), E. apply conj_0. Qed.
Theorem ls_exact_conj (y : list F) p : ls_exact_regular y p -> ls_exact (vconj y) p = vconj (ls_exact y p).
Proof.
  intros Hreg. unfold ls_exact. fold (ls_rows (vconj y) p). fold (ls_rows y p).
  assert (H11 : forall i : nat, (fun _ : nat => (1 : F)) i * (fun _ : nat => (1 : F)) i = 1) by (intros i; ring).
  rewrite (solve_equiv conj conj_0 conj_add conj_mul conj_opp conj_div conj_nz (fun _ => 1) (fun _ => 1) H11
             p 1 (ls_rows y p) (ls_rows (vconj y) p)).
  - apply list_eq_nth; [unfold ss; rewrite mk_length, vconj_length; reflexivity|].
    intros j Hj. unfold ss in *. rewrite mk_length in Hj. rewrite nth_mk by exact Hj. rewrite nthF_vconj. ring.
  - split; [rewrite !ls_rows_length; reflexivity|]. split; [apply ls_rows_row_lengths|]. split; [apply ls_rows_row_lengths|].
    intros i j Hi Hj. rewrite ls_rows_length in Hi. rewrite !ls_rows_ent by assumption. unfold wc.
    destruct (j <? p)%nat; [rewrite cov_gram_conj|rewrite cov_rhs_conj]; ring.
  - apply ls_rows_length.
  - exact Hreg.
Qed.
End LsExactShift.

Section LsExactConjArma.
Context {F : Type} {OF : Ops F} {L : Laws OF}.
Local Open Scope F_scope.

Theorem lsm_exact_conj (y : list F) p : ls_exact_regular y p ->
  firstn p (lsm_exact (vconj y) p) = vconj (firstn p (lsm_exact y p)).
Proof. intros Hreg. unfold lsm_exact. rewrite ls_exact_conj, vconj_length by exact Hreg. apply firstn_pad_vconj. Qed.

Section GridE.
Context (n : nat) (tw : Z -> F) {Tw : Twiddle n tw} (n_pos : (0 < n)%nat).
Theorem parma_exact_shift_thm (m : Z) (x : list F) P Q lag twopi sampling sbf :
  (forall r, acorr x lag Unbiased = Some r -> ls_exact_regular (arma_y r P Q lag) P) ->
  parma_call tw lsm_exact ls_exact (vmod (sphase tw m) 0 x) P Q lag twopi sampling n false sbf
  = map_call (modA (sphase tw m)) (rot m) (parma_call tw lsm_exact ls_exact x P Q lag twopi sampling n false sbf).
Proof.
  intros Hreg. apply (parma_shift_gen n tw n_pos). intros r Er. specialize (Hreg r Er).
  split; [apply (lsm_exact_modulation (sphase tw m) (sphase_add n tw n_pos m) (sphase_0 n tw m) (sphase_cj n tw n_pos m))
         |apply (ls_exact_modulation (sphase tw m) (sphase_add n tw n_pos m) (sphase_0 n tw m) (sphase_cj n tw n_pos m))]; exact Hreg.
Qed.
End GridE.

Context {OL : OrdLaws OF}.
Theorem arma_estimate_exact_conj_thm (x : list F) P Q lag :
  (forall r, acorr x lag Unbiased = Some r -> ls_exact_regular (arma_y r P Q lag) P) ->
  arma_nondeg lsm_exact ls_exact x P Q lag ->
  arma_estimate lsm_exact ls_exact (vconj x) P Q lag = map_arma vconj (arma_estimate lsm_exact ls_exact x P Q lag).
Proof.
  intros Hreg Hnd. apply arma_estimate_conj_gen; [|exact Hnd].
  intros r Er. specialize (Hreg r Er). split; [apply lsm_exact_conj|apply ls_exact_conj]; exact Hreg.
Qed.
Section GridEC.
Context (n : nat) (tw : Z -> F) {Tw : Twiddle n tw} (n_pos : (0 < n)%nat).
Theorem parma_exact_mirror_thm (x : list F) P Q lag twopi sampling sbf :
  (forall r, acorr x lag Unbiased = Some r -> ls_exact_regular (arma_y r P Q lag) P) ->
  arma_nondeg lsm_exact ls_exact x P Q lag ->
  parma_call tw lsm_exact ls_exact (vconj x) P Q lag twopi sampling n false sbf
  = map_call vconj mirror (parma_call tw lsm_exact ls_exact x P Q lag twopi sampling n false sbf).
Proof.
  intros Hreg Hnd. apply (parma_mirror_gen n tw n_pos); [|exact Hnd].
  intros r Er. specialize (Hreg r Er). split; [apply lsm_exact_conj|apply ls_exact_conj]; exact Hreg.
Qed.
End GridEC.
End LsExactConjArma.
