(* Facts about the pmtm / MultiTapering model that need no order: shapes, eigenspectra = DFT of
   taper*data, 'unity'/'eigen' weights, the adaptive loop as "n passes + stopping rule", the class
   pipeline, and "pmtm is a function of (tapers, eigenvalues)". *)
Require Import Spectrum.Theory.Ops Spectrum.Theory.Sum Spectrum.Theory.Vec Spectrum.Theory.Dft Spectrum.Model.Mtm.

Section MtmTheory.
Context {F : Type} {OF : Ops F} {L : Laws OF}.
Local Open Scope F_scope.
Add Field FFmtm : (fth (O:=OF)).

(* ---------------- matrices as lists of rows ---------------- *)
Lemma mkr_length n (f : nat -> list F) : length (mkr n f) = n.
Proof. unfold mkr. rewrite map_length, seq_length. reflexivity. Qed.
Lemma row_mkr n (f : nat -> list F) j : (j < n)%nat -> row j (mkr n f) = f j.
Proof.
  intros H. unfold row, mkr.
  rewrite (nth_indep _ [] (f O)) by (rewrite map_length, seq_length; exact H).
  rewrite map_nth, seq_nth by exact H. reflexivity.
Qed.
Lemma row_map (g : list F -> list F) (M : list (list F)) j : (j < length M)%nat -> row j (map g M) = g (row j M).
Proof.
  intros H. unfold row. rewrite (nth_indep _ [] (g [])) by (rewrite map_length; exact H). apply map_nth.
Qed.
Lemma at2_mkr n (f : nat -> list F) i j : (i < n)%nat -> at2 (mkr n f) i j = nthF (f i) j.
Proof. intros H. unfold at2. rewrite row_mkr by exact H. reflexivity. Qed.
Lemma nrm2_0 : nrm2 (0 : F) = 0. Proof. unfold nrm2. ring. Qed.
Lemma at2_powspec (M : list (list F)) i j : (i < length M)%nat -> at2 (powspec M) i j = nrm2 (at2 M i j).
Proof.
  intros H. unfold at2, powspec. rewrite row_map by exact H. apply nthF_map. apply nrm2_0.
Qed.

(* ---------------- eigenspectra ---------------- *)
Lemma eigenspectra_length tw tapers (x : list F) nfft : length (eigenspectra tw tapers x nfft) = length tapers.
Proof. unfold eigenspectra. apply map_length. Qed.
Lemma eigenspectra_row tw tapers (x : list F) nfft j : (j < length tapers)%nat ->
  row j (eigenspectra tw tapers x nfft) = dft tw nfft (tapered (row j tapers) x).
Proof.
  intros H. unfold eigenspectra, row.
  rewrite (nth_indep _ [] (dft tw nfft (tapered [] x))) by (rewrite map_length; exact H).
  rewrite (map_nth (fun t => dft tw nfft (tapered t x))). reflexivity.
Qed.
Lemma tapered_length (t x : list F) : length (tapered t x) = length x.
Proof. apply mk_length. Qed.

(* bin k of taper j, zero padding (N <= NFFT): the NFFT-point DFT of taper*data *)
Lemma eigenspectra_bin tw tapers (x : list F) nfft j k :
  (j < length tapers)%nat -> (k < nfft)%nat -> (length x <= nfft)%nat ->
  at2 (eigenspectra tw tapers x nfft) j k
  = dftN tw (length x) (fun i => nthF (row j tapers) i * nthF x i) (Z.of_nat k).
Proof.
  intros Hj Hk HN. unfold at2. rewrite eigenspectra_row by exact Hj.
  rewrite nth_dft by (rewrite ?tapered_length; assumption). rewrite tapered_length.
  unfold dftN. apply sumf_ext; intros i Hi. unfold tapered. rewrite nth_mk by exact Hi. reflexivity.
Qed.
(* any NFFT (numpy crops when NFFT < N) *)
Lemma eigenspectra_bin_crop tw tapers (x : list F) nfft j k :
  (j < length tapers)%nat -> (k < nfft)%nat ->
  at2 (eigenspectra tw tapers x nfft) j k = dftN tw nfft (nthF (tapered (row j tapers) x)) (Z.of_nat k).
Proof.
  intros Hj Hk. unfold at2. rewrite eigenspectra_row by exact Hj. apply nth_dft_crop. exact Hk.
Qed.

Theorem pmtm_eigenspectra_thm fuel tw tapers (ev x : list F) nfft m Skc w ev' :
  pmtm_core fuel tw tapers ev x nfft m = (Skc, w, ev') ->
  ev' = ev /\ length Skc = length tapers /\
  forall j, (j < length tapers)%nat ->
    length (row j Skc) = nfft /\
    forall k, (k < nfft)%nat ->
      at2 Skc j k = dftN tw nfft (nthF (tapered (row j tapers) x)) (Z.of_nat k) /\
      ((length x <= nfft)%nat ->
       at2 Skc j k = dftN tw (length x) (fun i => nthF (row j tapers) i * nthF x i) (Z.of_nat k)).
Proof.
  unfold pmtm_core. intros E. injection E as <- <- <-.
  split; [reflexivity|]. split; [apply eigenspectra_length|].
  intros j Hj. split.
  - rewrite eigenspectra_row by exact Hj. apply dft_length.
  - intros k Hk. split; [apply eigenspectra_bin_crop; assumption|].
    intros HN. apply eigenspectra_bin; assumption.
Qed.

(* ---------------- 'unity' and 'eigen' weights ---------------- *)
Theorem weights_unity_thm fuel tw tapers (ev x : list F) nfft Skc w ev' :
  pmtm_core fuel tw tapers ev x nfft Unity = (Skc, w, ev') ->
  length w = length ev /\ forall j, (j < length ev)%nat -> row j w = [1] /\ forall k, wt Unity w j k = 1.
Proof.
  unfold pmtm_core. intros E. injection E as <- <- <-.
  split; [apply mkr_length|]. intros j Hj. unfold wt, at2, w_unity. rewrite row_mkr by exact Hj.
  split; reflexivity.
Qed.
Theorem weights_eigen_thm fuel tw tapers (ev x : list F) nfft Skc w ev' :
  pmtm_core fuel tw tapers ev x nfft Eigen = (Skc, w, ev') ->
  length w = length ev /\
  forall j, (j < length ev)%nat -> row j w = [nthF ev j / ofnat (j + 1)] /\ forall k, wt Eigen w j k = nthF ev j / ofnat (j + 1).
Proof.
  unfold pmtm_core. intros E. injection E as <- <- <-.
  split; [apply mkr_length|]. intros j Hj. unfold wt, at2, w_eigen. rewrite row_mkr by exact Hj.
  split; reflexivity.
Qed.

(* ---------------- the adaptive loop = n passes, n decided by the stopping rule ---------------- *)
Section Loop.
Variables (Sk : list (list F)) (ev : list F) (s2 tol : F) (nfft : nat).
Let step := ad_step Sk ev s2 nfft.

Lemma ad_iter_S n : ad_iter (S n) Sk ev s2 nfft = step (ad_iter n Sk ev s2 nfft).
Proof. reflexivity. Qed.
Lemma ad_iter_count n : ad_i (ad_iter n Sk ev s2 nfft) = n.
Proof. induction n; cbn [ad_iter]; [reflexivity|]. unfold ad_step. cbn [ad_i]. rewrite IHn. reflexivity. Qed.

(* generalised: from any state *)
Lemma iter_succ_r n st : Nat.iter (S n) step st = Nat.iter n step (step st).
Proof. induction n; [reflexivity|]. unfold Nat.iter in *. cbn [nat_rect] in *. rewrite IHn. reflexivity. Qed.
Lemma ad_loop_unfold fuel st :
  exists n, (n <= fuel)%nat /\ ad_loop fuel Sk ev s2 tol nfft st = Nat.iter n step st /\
    (forall q, (q < n)%nat -> ad_continue nfft tol (Nat.iter q step st) = true) /\
    ((n < fuel)%nat -> ad_continue nfft tol (Nat.iter n step st) = false).
Proof.
  revert st. induction fuel as [|f IH]; intros st.
  - exists O. cbn. repeat split; intros; lia.
  - cbn [ad_loop]. destruct (ad_continue nfft tol st) eqn:Ec.
    + destruct (IH (ad_step Sk ev s2 nfft st)) as [n [Hn [E [Hc Hs]]]].
      exists (S n). split; [lia|]. split; [|split].
      * rewrite E. fold step. rewrite iter_succ_r. reflexivity.
      * intros q Hq. destruct q; [exact Ec|]. rewrite iter_succ_r. apply Hc. lia.
      * intros Hlt. rewrite iter_succ_r. apply Hs. lia.
    + exists O. split; [lia|]. split; [reflexivity|]. split; [intros; lia|]. intros _. exact Ec.
Qed.
Lemma iter_is_ad_iter n : Nat.iter n step (ad_init Sk ev nfft) = ad_iter n Sk ev s2 nfft.
Proof. induction n; [reflexivity|]. cbn [Nat.iter ad_iter nat_rect]. unfold Nat.iter in IHn. rewrite IHn. reflexivity. Qed.

Lemma ad_loop_is_iter fuel :
  exists n, (n <= fuel)%nat /\
    ad_loop fuel Sk ev s2 tol nfft (ad_init Sk ev nfft) = ad_iter n Sk ev s2 nfft /\
    (forall q, (q < n)%nat -> ad_continue nfft tol (ad_iter q Sk ev s2 nfft) = true) /\
    ((n < fuel)%nat -> ad_continue nfft tol (ad_iter n Sk ev s2 nfft) = false).
Proof.
  destruct (ad_loop_unfold fuel (ad_init Sk ev nfft)) as [n [Hn [E [Hc Hs]]]].
  exists n. split; [exact Hn|]. rewrite <- iter_is_ad_iter. split; [exact E|]. split.
  - intros q Hq. rewrite <- iter_is_ad_iter. apply Hc. exact Hq.
  - exact Hs.
Qed.

(* what one pass computes, entry by entry *)
Lemma ad_step_wk st k j : (k < nfft)%nat -> (j < length ev)%nat ->
  at2 (ad_wk (step st)) k j = thomson (nthF ev j) s2 (nthF (ad_S st) k).
Proof.
  intros Hk Hj. unfold step, ad_step. cbn [ad_wk]. rewrite at2_mkr by exact Hk. rewrite nth_mk by exact Hj. reflexivity.
Qed.
Lemma ad_step_S1 st : ad_S1 (step st) = ad_S st. Proof. reflexivity. Qed.
Lemma ad_step_S st k : (k < nfft)%nat ->
  nthF (ad_S (step st)) k
  = sumf (length ev) (fun j => at2 (ad_wk (step st)) k j * at2 Sk j k) / sumf (length ev) (fun j => at2 (ad_wk (step st)) k j).
Proof. intros Hk. unfold step, ad_step. cbn [ad_S ad_wk]. rewrite nth_mk by exact Hk. reflexivity. Qed.
Lemma ad_step_S_length st : length (ad_S (step st)) = nfft.
Proof. unfold step, ad_step. cbn [ad_S]. apply mk_length. Qed.
Lemma ad_step_wk_shape st : length (ad_wk (step st)) = nfft /\ forall k, (k < nfft)%nat -> length (row k (ad_wk (step st))) = length ev.
Proof.
  unfold step, ad_step. cbn [ad_wk]. split; [apply mkr_length|]. intros k Hk. rewrite row_mkr by exact Hk. apply mk_length.
Qed.
Lemma ad_init_wk k j : (k < nfft)%nat -> (j < length ev)%nat -> at2 (ad_wk (ad_init Sk ev nfft)) k j = nthF ev j.
Proof.
  intros Hk Hj. unfold ad_init. cbn [ad_wk]. rewrite at2_mkr by exact Hk. rewrite nth_mk by exact Hj. ring.
Qed.
End Loop.

(* the weights returned by pmtm(method='adapt'): Thomson's formula at the estimate that entered the last
   completed pass; the final estimate is the weighted mean of the eigenspectra with exactly these weights;
   when the loop stopped before the pass bound, the stopping test is false at the final state. *)
Theorem adaptive_is_thomson_at_last_S_thm fuel tw tapers (ev x : list F) nfft Skc w ev' :
  pmtm_core fuel tw tapers ev x nfft Adapt = (Skc, w, ev') ->
  let Sk := powspec Skc in
  let s2 := sig2 x in
  exists n, (n <= fuel)%nat /\
    let st := ad_iter n Sk ev s2 nfft in
    w = ad_wk st /\ ad_i st = n /\
    (forall q, (q < n)%nat -> ad_continue nfft (ad_tol s2 nfft) (ad_iter q Sk ev s2 nfft) = true) /\
    ((n < fuel)%nat -> ad_continue nfft (ad_tol s2 nfft) st = false) /\
    (n = O -> forall k j, (k < nfft)%nat -> (j < length ev)%nat -> at2 w k j = nthF ev j) /\
    ((1 <= n)%nat ->
       ad_S1 st = ad_S (ad_iter (n - 1) Sk ev s2 nfft) /\
       forall k, (k < nfft)%nat ->
         (forall j, (j < length ev)%nat -> at2 w k j = thomson (nthF ev j) s2 (nthF (ad_S1 st) k)) /\
         nthF (ad_S st) k = sumf (length ev) (fun j => at2 w k j * at2 Sk j k) / sumf (length ev) (fun j => at2 w k j)).
Proof.
  unfold pmtm_core. intros E. injection E as <- <- <-. cbv zeta.
  unfold adapt_run.
  set (Skc := eigenspectra tw tapers x nfft). set (Sk := powspec Skc). set (s2 := sig2 x).
  destruct (ad_loop_is_iter Sk ev s2 (ad_tol s2 nfft) nfft fuel) as [n [Hn [E [Hc Hs]]]].
  exists n. split; [exact Hn|]. rewrite E. split; [reflexivity|]. split; [apply ad_iter_count|].
  split; [exact Hc|]. split; [exact Hs|]. split.
  - intros -> k j Hk Hj. cbn [ad_iter]. apply ad_init_wk; assumption.
  - intros H1. destruct n as [|n]; [lia|]. replace (S n - 1)%nat with n by lia.
    rewrite ad_iter_S. split; [reflexivity|]. intros k Hk. split.
    + intros j Hj. rewrite ad_step_S1. apply ad_step_wk; assumption.
    + apply ad_step_S. exact Hk.
Qed.

(* ---------------- pmtm depends on (tapers, eigenvalues) only ---------------- *)
Definition pmtm_inputs {NWT : Type} (dpss : nat -> NWT -> option nat -> list (list F) * list F)
  (N : nat) (NW : option NWT) (k : option nat) (e : option (list F)) (v : option (list (list F)))
  : option (list (list F) * list F) :=
  match e, v with
  | None, None => match NW with Some nw => Some (dpss N nw k) | None => None end
  | Some e', Some v' => Some (v', e')
  | _, _ => None
  end.
Lemma pmtm_unfold {NWT : Type} (dpss : nat -> NWT -> option nat -> list (list F) * list F) fuel tw (x : list F) NW k nfft e v m :
  pmtm dpss fuel tw x NW k nfft e v m
  = match pmtm_inputs dpss (length x) NW k e v with
    | Some tv => Some (pmtm_core fuel tw (fst tv) (snd tv) x
                         (match nfft with Some n => n | None => pmtm_default_nfft (length x) end) m)
    | None => None
    end.
Proof. unfold pmtm, pmtm_inputs. destruct e, v, NW; reflexivity. Qed.

(* supplying the tapers and eigenvalues dpss would compute gives the same result, whatever NW/k are passed along
   (and whatever generator is installed: it is not consulted) *)
Theorem precomputed_tapers_same_thm {NWT NWT' : Type} (dpss : nat -> NWT -> option nat -> list (list F) * list F)
  (dpss' : nat -> NWT' -> option nat -> list (list F) * list F) fuel tw (x : list F) nw k NW' k' nfft m :
  let tv := dpss (length x) nw k in
  pmtm dpss' fuel tw x NW' k' nfft (Some (snd tv)) (Some (fst tv)) m = pmtm dpss fuel tw x (Some nw) k nfft None None m.
Proof. reflexivity. Qed.
Theorem precomputed_tapers_same_class_thm {NWT NWT' : Type} (dpss : nat -> NWT -> option nat -> list (list F) * list F)
  (dpss' : nat -> NWT' -> option nat -> list (list F) * list F) fuel tw isr (x : list F) nw k NW' k' nfft m sbf scale :
  let tv := dpss (length x) nw k in
  mt_call dpss' fuel tw isr x NW' k' nfft (Some (snd tv)) (Some (fst tv)) m sbf scale
  = mt_call dpss fuel tw isr x (Some nw) k nfft None None m sbf scale.
Proof. reflexivity. Qed.
(* the ValueError branches *)
Lemma pmtm_raises_iff {NWT : Type} (dpss : nat -> NWT -> option nat -> list (list F) * list F) fuel tw (x : list F) NW k nfft e v m :
  pmtm dpss fuel tw x NW k nfft e v m = None <->
  ((e = None /\ v = None /\ NW = None) \/ (e = None /\ v <> None) \/ (e <> None /\ v = None)).
Proof.
  unfold pmtm. destruct e, v, NW; split; intros H; try discriminate; try reflexivity;
    try (destruct H as [[? [? ?]]|[[? ?]|[? ?]]]; congruence);
    try (left; repeat split; reflexivity);
    try (right; left; split; congruence); try (right; right; split; congruence).
Qed.

(* ---------------- the class pipeline ---------------- *)
Lemma mt_mean_length m (Skc w : list (list F)) nwin nfft : length (mt_mean m Skc w nwin nfft) = nfft.
Proof. apply mk_length. Qed.
Lemma mt_fold_length (isr : bool) nfft (Sv : list F) : length Sv = nfft ->
  length (mt_fold isr nfft Sv) = if isr then Nat.min (mt_keep nfft) nfft else nfft.
Proof.
  intros H. unfold mt_fold. destruct isr; [|exact H]. rewrite map_length, firstn_length, H. reflexivity.
Qed.
Lemma mt_scale_length sbf (scale : F) psd : length (mt_scale sbf scale psd) = length psd.
Proof. unfold mt_scale. destruct sbf; [apply map_length|reflexivity]. Qed.
Lemma nth_mt_fold (isr : bool) nfft (Sv : list F) k : length Sv = nfft ->
  (k < (if isr then Nat.min (mt_keep nfft) nfft else nfft))%nat ->
  nthF (mt_fold isr nfft Sv) k = if isr then nthF Sv k * two else nthF Sv k.
Proof.
  intros HS Hk. unfold mt_fold. destruct isr; [|reflexivity].
  rewrite nthF_map by ring. rewrite nthF_firstn by lia. reflexivity.
Qed.
Lemma nth_mt_scale sbf (scale : F) psd k : nthF (mt_scale sbf scale psd) k = if sbf then nthF psd k * scale else nthF psd k.
Proof. unfold mt_scale. destruct sbf; [|reflexivity]. rewrite nthF_map by ring. reflexivity. Qed.

(* the mean over tapers of weight * |eigenspectrum|^2 at bin k *)
Definition wmean (m : mt_method) (Skc w : list (list F)) (nwin k : nat) : F :=
  sumf nwin (fun j => nrm2 (at2 Skc j k) * wt m w j k) / ofnat nwin.

Theorem class_is_weighted_mean_thm {NWT : Type} (dpss : nat -> NWT -> option nat -> list (list F) * list F)
  fuel tw isr (x : list F) NW k nfft e v m sbf scale psd :
  mt_call dpss fuel tw isr x NW k nfft e v m sbf scale = Some psd ->
  let n := match nfft with Some n => n | None => length x end in
  exists Skc w ev,
    pmtm dpss fuel tw x NW k (Some n) e v m = Some (Skc, w, ev) /\
    length psd = (if isr then Nat.min (mt_keep n) n else n) /\
    forall b, (b < length psd)%nat ->
      nthF psd b = (fun a => if sbf then a * scale else a)
                     ((fun a => if isr then a * two else a) (wmean m Skc w (length ev) b)).
Proof.
  cbv zeta. unfold mt_call.
  set (n := match nfft with Some n => n | None => length x end).
  destruct (pmtm dpss fuel tw x NW k (Some n) e v m) as [[[Skc w] ev]|] eqn:E; [|discriminate].
  intros H. inversion H; subst psd; clear H.
  exists Skc, w, ev. split; [reflexivity|].
  assert (HL : length (mt_fold isr n (mt_mean m Skc w (length ev) n)) = if isr then Nat.min (mt_keep n) n else n)
    by (apply mt_fold_length, mt_mean_length).
  rewrite mt_scale_length. split; [exact HL|]. intros b Hb. rewrite HL in Hb.
  rewrite nth_mt_scale, nth_mt_fold by (try apply mt_mean_length; exact Hb).
  assert (Hbn : (b < n)%nat) by (destruct isr; lia).
  unfold mt_mean. rewrite nth_mk by exact Hbn. reflexivity.
Qed.

(* which bins a real-data result keeps: 0 .. NFFT/2 (NFFT even, Nyquist included), 0 .. (NFFT-1)/2 (NFFT odd) *)
Lemma mt_keep_spec nfft : (1 <= nfft)%nat ->
  (Nat.even nfft = true -> (mt_keep nfft = nfft / 2 + 1 /\ 2 * (nfft / 2) = nfft /\ mt_keep nfft <= nfft)%nat) /\
  (Nat.even nfft = false -> (mt_keep nfft = (nfft - 1) / 2 + 1 /\ 2 * ((nfft - 1) / 2) + 1 = nfft /\ mt_keep nfft <= nfft)%nat).
Proof.
  intros Hn. unfold mt_keep. split; intros He; rewrite He.
  - apply Nat.even_spec in He. destruct He as [q ->].
    rewrite (Nat.mul_comm 2 q), Nat.div_mul by lia. lia.
  - assert (Ho : Nat.odd nfft = true) by (rewrite <- Nat.negb_even, He; reflexivity).
    apply Nat.odd_spec in Ho. destruct Ho as [q ->].
    replace (2 * q + 1 + 1)%nat with ((q + 1) * 2)%nat by lia. rewrite Nat.div_mul by lia.
    replace (2 * q + 1 - 1)%nat with (q * 2)%nat by lia. rewrite Nat.div_mul by lia. lia.
Qed.
End MtmTheory.
