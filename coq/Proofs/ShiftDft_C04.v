(* C04 — list-level rotation / mirror operators and the DFT laws on the executable [dft].

     rot m l      = numpy.roll(l, m)          entry k is l[(k - m) mod len]
     mirror l     = l[(-k) mod len]           (bin k <-> bin -k)
     sphase tw m  = a |-> tw(-(m a))          the modulation exp(+2 pi i m a / n)

   [dft tw n (vmod (sphase tw m) 0 v)] = rot m (dft tw n v), [dft tw n (vconj v)] = vconj (mirror (dft tw n v)),
   and the conjugated time reversal.  Abstract *-field + twiddle character. *)
Require Import Spectrum.Theory.Ops Spectrum.Theory.Sum Spectrum.Theory.Vec Spectrum.Theory.Dft
               Spectrum.Model.Levinson Spectrum.Model.Corr Spectrum.Proofs.ShiftTheory.

Section RotDefs.
Context {F : Type} {OF : Ops F}.
Local Open Scope F_scope.
Definition ridx (n : nat) (z : Z) : nat := Z.to_nat (z mod Z.of_nat n).
Definition rot (m : Z) (l : list F) : list F := mk (length l) (fun k => nthF l (ridx (length l) (Z.of_nat k - m))).
Definition mirror (l : list F) : list F := mk (length l) (fun k => nthF l (ridx (length l) (- Z.of_nat k))).
Definition sphase (tw : Z -> F) (m : Z) : Z -> F := fun a => tw (- (m * a))%Z.
End RotDefs.

Section RotTheory.
Context {F : Type} {OF : Ops F} {L : Laws OF}.
Local Open Scope F_scope.
Add Field FFrot : (fth (O:=OF)).

Lemma ridx_lt n z : (0 < n)%nat -> (ridx n z < n)%nat.
Proof. intros Hn. unfold ridx. pose proof (Z.mod_pos_bound z (Z.of_nat n)). lia. Qed.
Lemma ridx_small n (k : nat) : (k < n)%nat -> ridx n (Z.of_nat k) = k.
Proof. intros Hk. unfold ridx. rewrite Z.mod_small by lia. apply Nat2Z.id. Qed.
Lemma ridx_spec n z : (0 < n)%nat -> exists q : Z, z = (Z.of_nat (ridx n z) + q * Z.of_nat n)%Z.
Proof.
  intros Hn. exists (z / Z.of_nat n)%Z. unfold ridx. pose proof (Z.mod_pos_bound z (Z.of_nat n)).
  rewrite Z2Nat.id by lia. rewrite (Z.div_mod z (Z.of_nat n)) at 1 by lia. ring.
Qed.
Lemma ridx_mod n a b : (a mod Z.of_nat n = b mod Z.of_nat n)%Z -> ridx n a = ridx n b.
Proof. unfold ridx. intros ->. reflexivity. Qed.
Lemma ridx_ridx n a b : (0 < n)%nat -> ridx n (Z.of_nat (ridx n a) + b) = ridx n (a + b).
Proof.
  intros Hn. apply ridx_mod. unfold ridx. pose proof (Z.mod_pos_bound a (Z.of_nat n)).
  rewrite Z2Nat.id by lia. rewrite Zplus_mod_idemp_l. reflexivity.
Qed.
Lemma ridx_ridx_sub n a b : (0 < n)%nat -> ridx n (Z.of_nat (ridx n a) - b) = ridx n (a - b).
Proof. intros Hn. unfold Z.sub. apply ridx_ridx. exact Hn. Qed.
Lemma ridx_neg_ridx n a : (0 < n)%nat -> ridx n (- Z.of_nat (ridx n a)) = ridx n (- a).
Proof.
  intros Hn. apply ridx_mod. unfold ridx. pose proof (Z.mod_pos_bound a (Z.of_nat n)).
  rewrite Z2Nat.id by lia.
  replace (- (a mod Z.of_nat n))%Z with (0 - a mod Z.of_nat n)%Z by lia.
  rewrite Zminus_mod_idemp_r. f_equal.
Qed.

Lemma rot_length m (l : list F) : length (rot m l) = length l. Proof. apply mk_length. Qed.
Lemma mirror_length (l : list F) : length (mirror l) = length l. Proof. apply mk_length. Qed.
Lemma nth_rot m (l : list F) k : (k < length l)%nat -> nthF (rot m l) k = nthF l (ridx (length l) (Z.of_nat k - m)).
Proof. intros H. unfold rot. rewrite nth_mk by exact H. reflexivity. Qed.
Lemma nth_mirror (l : list F) k : (k < length l)%nat -> nthF (mirror l) k = nthF l (ridx (length l) (- Z.of_nat k)).
Proof. intros H. unfold mirror. rewrite nth_mk by exact H. reflexivity. Qed.

Lemma nthF_map_lt (g : F -> F) (l : list F) j : (j < length l)%nat -> nthF (map g l) j = g (nthF l j).
Proof. intros H. unfold nthF. rewrite (nth_indep _ 0 (g 0)) by (rewrite map_length; exact H). apply map_nth. Qed.
Lemma rot_map (g : F -> F) m (l : list F) : rot m (map g l) = map g (rot m l).
Proof.
  apply list_eq_nth; [rewrite rot_length, !map_length, rot_length; reflexivity|].
  intros k Hk. rewrite rot_length, map_length in Hk.
  rewrite nth_rot by (rewrite map_length; exact Hk). rewrite map_length.
  rewrite nthF_map_lt by (apply ridx_lt; lia). rewrite nthF_map_lt by (rewrite rot_length; exact Hk).
  rewrite nth_rot by exact Hk. reflexivity.
Qed.
Lemma mirror_map (g : F -> F) (l : list F) : mirror (map g l) = map g (mirror l).
Proof.
  apply list_eq_nth; [rewrite mirror_length, !map_length, mirror_length; reflexivity|].
  intros k Hk. rewrite mirror_length, map_length in Hk.
  rewrite nth_mirror by (rewrite map_length; exact Hk). rewrite map_length.
  rewrite nthF_map_lt by (apply ridx_lt; lia). rewrite nthF_map_lt by (rewrite mirror_length; exact Hk).
  rewrite nth_mirror by exact Hk. reflexivity.
Qed.
Lemma rot_vscale c m (l : list F) : rot m (vscale c l) = vscale c (rot m l).
Proof. apply rot_map. Qed.
Lemma mirror_vscale c (l : list F) : mirror (vscale c l) = vscale c (mirror l).
Proof. apply mirror_map. Qed.
Lemma rot_mk m n (f : nat -> F) : rot m (mk n f) = mk n (fun k => f (ridx n (Z.of_nat k - m))).
Proof.
  unfold rot. rewrite mk_length. apply mk_ext; intros k Hk. rewrite nth_mk by (apply ridx_lt; lia). reflexivity.
Qed.
Lemma mirror_mk n (f : nat -> F) : mirror (mk n f) = mk n (fun k => f (ridx n (- Z.of_nat k))).
Proof.
  unfold mirror. rewrite mk_length. apply mk_ext; intros k Hk. rewrite nth_mk by (apply ridx_lt; lia). reflexivity.
Qed.
(* rotations compose; rotating by a multiple of the length is the identity; mirror is an involution *)
Lemma rot_rot a b (l : list F) : rot a (rot b l) = rot (a + b) l.
Proof.
  apply list_eq_nth; [rewrite !rot_length; reflexivity|]. intros k Hk. rewrite !rot_length in Hk.
  rewrite nth_rot by (rewrite rot_length; exact Hk). rewrite rot_length.
  rewrite nth_rot by (apply ridx_lt; lia). rewrite nth_rot by exact Hk.
  f_equal. rewrite ridx_ridx_sub by lia. f_equal. lia.
Qed.
Lemma rot_period q (l : list F) : rot (q * Z.of_nat (length l)) l = l.
Proof.
  apply list_eq_nth; [apply rot_length|]. intros k Hk. rewrite rot_length in Hk. rewrite nth_rot by exact Hk.
  f_equal. unfold ridx. replace (Z.of_nat k - q * Z.of_nat (length l))%Z with (Z.of_nat k + (- q) * Z.of_nat (length l))%Z by ring.
  rewrite Z_mod_plus_full, Z.mod_small by lia. apply Nat2Z.id.
Qed.
Lemma rot_0 (l : list F) : rot 0 l = l.
Proof. rewrite <- (rot_period 0 l) at 2. reflexivity. Qed.
Lemma mirror_mirror (l : list F) : mirror (mirror l) = l.
Proof.
  apply list_eq_nth; [rewrite !mirror_length; reflexivity|]. intros k Hk. rewrite !mirror_length in Hk.
  rewrite nth_mirror by (rewrite mirror_length; exact Hk). rewrite mirror_length.
  rewrite nth_mirror by (apply ridx_lt; lia). f_equal.
  rewrite ridx_neg_ridx by lia. rewrite Z.opp_involutive. apply ridx_small. exact Hk.
Qed.
(* the sum of all entries is rotation invariant *)
Lemma sumf_rot1 n (f : nat -> F) : (0 < n)%nat ->
  sumf n (fun k => f (ridx n (Z.of_nat k - 1))) = sumf n f.
Proof.
  intros Hn. destruct n as [|n]; [lia|]. rewrite sumf_shift. rewrite (sumf_S n f).
  replace (ridx (S n) (Z.of_nat 0 - 1)) with n.
  2:{ unfold ridx. replace (Z.of_nat 0 - 1)%Z with (Z.of_nat n + (-1) * Z.of_nat (S n))%Z by lia.
      rewrite Z_mod_plus_full, Z.mod_small by lia. symmetry. apply Nat2Z.id. }
  rewrite (sumf_ext n (fun i => f (ridx (S n) (Z.of_nat (S i) - 1))) f).
  2:{ intros i Hi. f_equal. replace (Z.of_nat (S i) - 1)%Z with (Z.of_nat i) by lia. apply ridx_small. lia. }
  ring.
Qed.
Lemma sumf_rot_nat n (f : nat -> F) (j : nat) : (0 < n)%nat ->
  sumf n (fun k => f (ridx n (Z.of_nat k - Z.of_nat j))) = sumf n f.
Proof.
  intros Hn. induction j.
  - apply sumf_ext; intros k Hk. f_equal. replace (Z.of_nat k - Z.of_nat 0)%Z with (Z.of_nat k) by lia. apply ridx_small. exact Hk.
  - rewrite <- IHj. rewrite <- (sumf_rot1 n (fun k => f (ridx n (Z.of_nat k - Z.of_nat j)))) by exact Hn.
    apply sumf_ext; intros k Hk. f_equal. rewrite ridx_ridx_sub by exact Hn. f_equal. lia.
Qed.
Lemma sumf_rot n (f : nat -> F) (m : Z) : (0 < n)%nat ->
  sumf n (fun k => f (ridx n (Z.of_nat k - m))) = sumf n f.
Proof.
  intros Hn. rewrite <- (sumf_rot_nat n f (ridx n m)) by exact Hn.
  apply sumf_ext; intros k Hk. f_equal. apply ridx_mod.
  unfold ridx. pose proof (Z.mod_pos_bound m (Z.of_nat n)). rewrite Z2Nat.id by lia.
  rewrite Zminus_mod_idemp_r. reflexivity.
Qed.

(* ---------------- the phase sequence of a shift by m bins ---------------- *)
Section Phase.
Context (n : nat) (tw : Z -> F) {T : Twiddle n tw} (n_pos : (0 < n)%nat).
Lemma sphase_add m a b : sphase tw m (a + b)%Z = sphase tw m a * sphase tw m b.
Proof. unfold sphase. rewrite <- tw_add. f_equal. lia. Qed.
Lemma sphase_0 m : sphase tw m 0%Z = 1.
Proof. unfold sphase. rewrite Z.mul_0_r. apply tw_0. Qed.
Lemma sphase_cj m a : conj (sphase tw m a) = sphase tw m (- a)%Z.
Proof. unfold sphase. rewrite tw_cj. f_equal. lia. Qed.
Lemma sphase_per m a : sphase tw m (a + Z.of_nat n)%Z = sphase tw m a.
Proof.
  unfold sphase. replace (- (m * (a + Z.of_nat n)))%Z with (- (m * a) + (- m) * Z.of_nat n)%Z by ring.
  apply (tw_period n tw n_pos).
Qed.
Lemma sphase_unit m a : sphase tw m a * conj (sphase tw m a) = 1.
Proof. apply (phi_unit (sphase tw m) (sphase_add m) (sphase_0 m) (sphase_cj m)). Qed.
Lemma sphase_nrm2 m a : nrm2 (sphase tw m a) = 1.
Proof. apply sphase_unit. Qed.

Lemma dftN_ridx N (x : nat -> F) (z : Z) : dftN tw N x (Z.of_nat (ridx n z)) = dftN tw N x z.
Proof.
  destruct (ridx_spec n z n_pos) as [q Hq]. rewrite Hq at 2. symmetry. apply (dft_periodic n tw n_pos).
Qed.

(* modulation: fft(x * exp(2 pi i m j / n), n) = roll(fft(x, n), m) *)
Theorem dft_list_shift (m : Z) (v : list F) : dft tw n (vmod (sphase tw m) 0 v) = rot m (dft tw n v).
Proof.
  apply list_eq_nth; [rewrite rot_length, !dft_length; reflexivity|].
  intros k Hk. rewrite dft_length in Hk. rewrite nth_rot by (rewrite dft_length; exact Hk). rewrite dft_length.
  rewrite !nth_dft_crop by (try apply ridx_lt; assumption). rewrite dftN_ridx.
  rewrite <- (dft_modulation n tw n_pos). unfold dftN. apply sumf_ext; intros j _.
  rewrite nthF_vmod. unfold sphase. do 3 f_equal. lia.
Qed.
(* conjugation: fft(conj x, n)[k] = conj(fft(x, n)[-k mod n]) *)
Theorem dft_list_conj (v : list F) : dft tw n (vconj v) = vconj (mirror (dft tw n v)).
Proof.
  apply list_eq_nth; [unfold vconj; rewrite map_length, mirror_length, !dft_length; reflexivity|].
  intros k Hk. rewrite dft_length in Hk. rewrite nthF_vconj.
  rewrite nth_mirror by (rewrite dft_length; exact Hk). rewrite dft_length.
  rewrite !nth_dft_crop by (try apply ridx_lt; assumption). rewrite dftN_ridx.
  rewrite <- (dft_conj n tw n_pos). unfold dftN. apply sumf_ext; intros j _. rewrite nthF_vconj. reflexivity.
Qed.
(* conjugated time reversal of N <= n samples: a unimodular factor times the conjugate of the same bin *)
Theorem dft_list_revconj (v : list F) k : (length v <= n)%nat -> (k < n)%nat ->
  nthF (dft tw n (vrevconj v)) k = conj (tw ((Z.of_nat (length v) - 1) * (- Z.of_nat k))%Z * nthF (dft tw n v) k).
Proof.
  intros Hv Hk. rewrite !nth_dft by (rewrite ?vrevconj_length; assumption). rewrite vrevconj_length.
  rewrite <- (Z.opp_involutive (Z.of_nat k)) at 3.
  rewrite <- (dft_reverse n tw n_pos). rewrite <- (dft_conj n tw n_pos).
  unfold dftN. apply sumf_ext; intros j Hj. unfold vrevconj. rewrite nth_mk by exact Hj. reflexivity.
Qed.
Lemma nrm2_conj_tw_mul a z : nrm2 (conj (tw a * z)) = nrm2 z.
Proof.
  unfold nrm2. rewrite conj_conj, conj_mul. transitivity ((tw a * conj (tw a)) * (z * conj z)); [ring|].
  fold (nrm2 (tw a)). rewrite (tw_nrm2 n tw n_pos). ring.
Qed.
End Phase.
End RotTheory.
