(* correlog.CORRELOGRAMPSD: the IR program generated from the Python source - with correlation.CORRELATION embedded twice (rxy and, for a
   cross-correlogram, ryx) and the two xcorr calls as oracle slots - computes the hand-written model Model.Periodogram.correlogram with
   BOTH back ends: a theorem obtained by COMPOSING [correlation_ir] (Proofs/LoopIRCorrelation.v) through the semantics of [SCall1]
   ([scall1_run] of Proofs/LoopIRAryule.v) with the slice stores psd[1:lag+1] = rxy[1:]*w, psd[-1:NFFT-lag-1:-1] = conj(ryx[1:])*w
   (= the model's sequential [writes], overlapping layouts included) and real(fft(psd)) through the hidden twiddle parameter.

   [prog_CORRELOGRAMPSD_ref] is the loop-IR program that tools/props/_loopir.py generates from spectrum.correlog.CORRELOGRAMPSD at the commit
   this file was written for (kept verbatim below, between the BEGIN/END markers, as [prog_CORRELOGRAMPSD_gen0]; the two are equal by
   reflexivity: the two embedded callee bodies ARE [p_body prog_CORRELATION_ref]).  The check regenerates the program on every run and
   instantiates the theorems below only when the text is identical (an edit of CORRELATION breaks them too).

   Arguments as the tie passes them (Model/LoopIRVec.correlogram_args): X with its dtype tag, Y absent or an array, lag a natural number, window
   'hamming' (never read: the window samples are the oracle slot), norm omitted / None / any string, NFFT omitted (4096) / None (= len X) / any
   natural number, correlation_method omitted / any string, ANY window samples wfull, ANY two field values o1, o2 in the pylab_rms_flat slots;
   the four xcorr slots hold the MODEL's xcorr(X, Y), xcorr(Y, X) (the xcorr branch "stays an oracle call").

   PROVED (abstract field with conjugation [Laws]; every feq, stop; EVERY twiddle family tw), on the domain [cg_dom]:
     correlogram_ir_run   run prog_CORRELOGRAMPSD_ref (correlogram_args ...) = correlogram_spec ..., i.e.
                              lag >= len(X)                                 -> AssertionError
                              correlation_method not 'CORRELATION'/'xcorr'  -> AssertionError
                              norm not in {unbiased, biased, coeff, None}   -> AssertionError   (inside the embedded CORRELATION)
                              resolved NFFT = 0                             -> IndexError       (psd[0])
                              NFFT < lag+1 and lag <> 1                     -> ValueError       (the slice psd[1:lag+1] is too short)
                              otherwise -> ORet [float array  Model.Periodogram.correlogram (tw n) (o1*o2) X Y lag wfull NFFT norm backend]
                                           (lag = 1, NFFT = 1 returns by numpy's broadcast into an empty slice, as in the model)
     correlogram_ir_run_correlation / correlogram_ir_run_xcorr   the same statement for each back end with its own hypotheses spelled out
     correlogram_ir_tie   for a reflexive [feq]: tie_correlogram ... = true on the same domain
   THE DOMAIN [cg_dom] (each hypothesis is needed: outside it program and comparator differ):
     (a) len(wfull) = 2*lag+1 (Window(2*lag+1, window).data has 2*lag+1 samples; otherwise rxy[1:] * w is numpy's broadcast ValueError);
     (b) correlation_method = 'CORRELATION': when BOTH dtype tags are float, X and Y are real-valued (the float branch of CORRELATION does not
         conjugate; a float-tagged array with non-real entries is not a numpy value).  Unequal lengths are INCLUDED (CORRELATION zero-pads);
     (c) correlation_method = 'xcorr' / omitted: norm is valid and len(Y) = len(X) (the domain of xcorr itself: otherwise the model's xcorr is
         None and the oracle slot would hold None -> TypeError, while the comparator expects AssertionError).
   NOT PROVED / outside the statement: lag omitted (-1) or negative, integer NFFT < 0, window_params. *)
From Coq Require Import String ZArith List Lia Bool.
Require Import Spectrum.Theory.Ops Spectrum.Theory.Sum Spectrum.Theory.Vec Spectrum.Theory.Dft Spectrum.Model.LoopIR Spectrum.Model.Corr
               Spectrum.Model.Periodogram Spectrum.Model.LoopIRTie Spectrum.Model.LoopIRVec Spectrum.Proofs.LoopIRLevinson Spectrum.Proofs.LoopIRLevup
               Spectrum.Proofs.LoopIRCorrelation Spectrum.Proofs.LoopIRAryule.
Import ListNotations.
Local Open Scope string_scope.

(* ---------------------------------------------------------------- the program, decomposed *)
(* slots 0=X 1=Y 2=lag 3=window 4=norm 5=NFFT 6=window_params 7=correlation_method 8=Window(2*lag+1, window).data
   9,10 = xcorr(X, Y, ..)[0], [1]   11,12 = xcorr(Y, X, ..)[0], [1]   13,14 / 15,16 = the pylab_rms_flat results of the two embedded CORRELATIONs
   17=fft@tw 18=N 19=crosscorrelation 20=psd 21=w 22=rxy 23=_l 24=ryx *)
Definition cg_y : stmt :=
  SIf (EIsNone (EVar 1)) (SSeq (SAssign 1 (ECopy (EVar 0))) (SAssign 19 (EBool false))) (SAssign 19 (EBool true)).
Definition cg_nfft : stmt := SIf (EIsNone (EVar 5)) (SAssign 5 (EVar 18)) SSkip.
Definition cg_corr (dst a b oa ob : nat) : stmt :=
  SCall1 dst (p_nparams prog_CORRELATION_ref) (p_defaults prog_CORRELATION_ref) (p_nslots prog_CORRELATION_ref) (p_body prog_CORRELATION_ref)
         [Some (EVar a); Some (EVar b); Some (EVar 2); Some (EVar 4); Some (EVar oa); Some (EVar ob)].
Definition cg_xc (dst s0 s1 : nat) : stmt :=
  SSeq (SSeq (SAssign dst (EVar s0)) (SAssign 23 (EVar s1))) (SAssign dst (ESlice (EVar dst) (Some (EVar 2)) None None)).
Definition cg_get (dst a b oa ob s0 s1 : nat) : stmt :=
  SIf (ECmp CEq (EVar 7) (EStr "CORRELATION")) (cg_corr dst a b oa ob)
      (SIf (ECmp CEq (EVar 7) (EStr "xcorr")) (cg_xc dst s0 s1) SSkip).
Definition cg_store0 : stmt := SStore 20 (EInt 0) (EIndex (EVar 22) (EInt 0)).
Definition cg_front : stmt :=
  SStoreSlice 20 (Some (EInt 1)) (Some (EBin BAdd (EVar 2) (EInt 1))) None (EBin BMul (ESlice (EVar 22) (Some (EInt 1)) None None) (EVar 21)).
Definition cg_mirror (src : nat) : stmt :=
  SStoreSlice 20 (Some (ENeg (EInt 1))) (Some (EBin BSub (EBin BSub (EVar 5) (EVar 2)) (EInt 1))) (Some (ENeg (EInt 1)))
              (EBin BMul (EConj (ESlice (EVar src) (Some (EInt 1)) None None)) (EVar 21)).
Definition cg_cross : stmt :=
  SIf (EIsBool true (EVar 19)) (SSeq (cg_get 24 1 0 15 16 11 12) (cg_mirror 24)) (cg_mirror 22).
Definition cg_tail : stmt := SSeq (SAssign 20 (EReal (EFft (EVar 20) None (EVar 17)))) (SReturn [EVar 20]).
Definition cg_fill : stmt := SSeq cg_store0 (SSeq cg_front (SSeq cg_cross cg_tail)).
Definition cg_rest : stmt :=
  SSeq (SAssign 20 (EZeros (EVar 5) false))
  (SSeq (SAssign 21 (EVar 8))
  (SSeq (SAssign 21 (ESlice (EVar 21) (Some (EBin BAdd (EVar 2) (EInt 1))) None None))
  (SSeq (cg_get 22 0 1 13 14 9 10)
        cg_fill))).
Definition cg_main : stmt :=
  SSeq (SAssign 18 (ELen (EVar 0)))
  (SSeq (SAssert (ECmp CLt (EVar 2) (EVar 18)))
  (SSeq (SAssert (EOr (ECmp CEq (EVar 7) (EStr "CORRELATION")) (ECmp CEq (EVar 7) (EStr "xcorr"))))
  (SSeq cg_y
  (SSeq cg_nfft
        cg_rest)))).
Definition prog_CORRELOGRAMPSD_ref : program :=
  mkProgram "CORRELOGRAMPSD" 18 [None; Some ENone; Some (ENeg (EInt 1)); Some (EStr "hamming"); Some (EStr "unbiased"); Some (EInt 4096); Some ENone; Some (EStr "xcorr");
                                 None; None; None; None; None; None; None; None; None; None] 25 cg_main.
Local Close Scope string_scope.

(* ---------------------------------------------------------------- lists: slices, slice stores *)
Section CgLists.
Context {F : Type} {OF : Ops F}.
Local Open Scope F_scope.
Local Open Scope list_scope.

Lemma nthF_skipn (l : list F) k j : nthF (skipn k l) j = nthF l (k + j).
Proof.
  unfold nthF. revert l. induction k as [|k IH]; intros l; [reflexivity|].
  destruct l as [|a l]; cbn [skipn Nat.add nth]; [destruct j; reflexivity|apply IH].
Qed.
Lemma skipn_mk (l : list F) k : skipn k l = mk (length l - k) (fun i => nthF l (k + i)).
Proof.
  apply list_eq_nth.
  - rewrite skipn_length, mk_length. reflexivity.
  - intros j Hj. rewrite skipn_length in Hj. rewrite nth_mk by exact Hj. apply nthF_skipn.
Qed.
(* a[k:] *)
Lemma slice_from_skipn (l : list F) k :
  map (fun p => nthF l (Z.to_nat p)) (slice_positions (length l) (Some (Z.of_nat k)) None 1) = skipn k l.
Proof.
  unfold slice_positions. change (0 <? 1)%Z with true. cbv iota.
  replace (Z.of_nat k <? 0)%Z with false by (symmetry; apply Z.ltb_ge; lia).
  replace (Z.max 0 (Z.min (Z.of_nat k) (Z.of_nat (length l)))) with (Z.of_nat (Nat.min k (length l))) by lia.
  unfold range_len. change (0 <? 1)%Z with true. cbv iota. rewrite Z.div_1_r.
  replace (Z.to_nat (Z.of_nat (length l) - Z.of_nat (Nat.min k (length l)) + 1 - 1)) with (length l - k)%nat by lia.
  rewrite map_range_from, skipn_mk. apply mk_ext. intros i Hi. f_equal. lia.
Qed.

Lemma updF_set_nth (l : list F) i v : updF l i v = set_nth i v l.
Proof. revert i. induction l as [|a l IH]; intros i; [destruct i; reflexivity|]. destruct i; cbn [updF set_nth]; [reflexivity|]. rewrite IH. reflexivity. Qed.
Lemma store_at_snoc (l : list F) ps vs p v : length ps = length vs ->
  store_at l (ps ++ [p]) (vs ++ [v]) = updF (store_at l ps vs) (Z.to_nat p) v.
Proof.
  revert l vs. induction ps as [|q ps IH]; intros l vs H.
  - destruct vs; [reflexivity|discriminate].
  - destruct vs as [|u vs]; [discriminate|]. cbn [app store_at]. apply IH. cbn [length] in H. lia.
Qed.
(* a slice store whose positions are idx 0, idx 1, ... in this order = the model's [writes] *)
Lemma store_at_writes n (idx : nat -> nat) (v : nat -> F) (l : list F) :
  store_at l (map (fun t => Z.of_nat (idx t)) (seq 0 n)) (map v (seq 0 n)) = writes n idx v l.
Proof.
  induction n as [|n IH]; [reflexivity|].
  rewrite seq_S, !map_app. cbn [map Nat.add]. rewrite store_at_snoc by (rewrite !map_length; reflexivity).
  rewrite IH, Nat2Z.id, updF_set_nth. reflexivity.
Qed.
Lemma range_from_len lo step n : length (range_from lo step n) = n.
Proof. revert lo. induction n as [|n IH]; intros lo; [reflexivity|]. cbn [range_from length]. rewrite IH. reflexivity. Qed.
Lemma range_from_up_map a m : range_from (Z.of_nat a) 1 m = map (fun t => Z.of_nat (a + t)) (seq 0 m).
Proof.
  revert a. induction m as [|m IH]; intros a; [reflexivity|].
  cbn [range_from seq map]. rewrite Nat.add_0_r. f_equal.
  replace (Z.of_nat a + 1)%Z with (Z.of_nat (S a)) by lia. rewrite IH, <- seq_shift, map_map.
  apply map_ext. intros t. f_equal. lia.
Qed.
Lemma range_from_down_map a m : (m <= a + 1)%nat -> range_from (Z.of_nat a) (-1) m = map (fun t => Z.of_nat (a - t)) (seq 0 m).
Proof.
  revert a. induction m as [|m IH]; intros a H; [reflexivity|].
  cbn [range_from seq map]. rewrite Nat.sub_0_r. f_equal.
  destruct m as [|m']; [reflexivity|].
  replace (Z.of_nat a + -1)%Z with (Z.of_nat (a - 1)) by lia. rewrite IH by lia. rewrite <- seq_shift, map_map.
  apply map_ext. intros t. f_equal. lia.
Qed.

(* psd[1:lag+1]: the positions *)
Lemma front_positions n lag : (1 <= n)%nat ->
  slice_positions n (Some 1%Z) (Some (Z.of_nat lag + 1)%Z) 1 = range_from 1 1 (Nat.min (lag + 1) n - 1).
Proof.
  intros Hn. unfold slice_positions. change (0 <? 1)%Z with true. cbv iota. change (1 <? 0)%Z with false. cbv iota.
  replace (Z.of_nat lag + 1 <? 0)%Z with false by (symmetry; apply Z.ltb_ge; lia).
  replace (Z.max 0 (Z.min 1 (Z.of_nat n))) with 1%Z by lia.
  unfold range_len. change (0 <? 1)%Z with true. cbv iota. rewrite Z.div_1_r. f_equal. lia.
Qed.
(* psd[-1:NFFT-lag-1:-1] when the layout fits: NFFT-1, NFFT-2, ..., NFFT-lag *)
Lemma mirror_positions n lag : (lag + 1 <= n)%nat ->
  slice_positions n (Some (-1)%Z) (Some (Z.of_nat n - Z.of_nat lag - 1)%Z) (-1) = range_from (Z.of_nat (n - 1)) (-1) lag.
Proof.
  intros Hn. unfold slice_positions. change (0 <? -1)%Z with false. cbv iota. change (-1 <? 0)%Z with true. cbv iota.
  replace (Z.of_nat n - Z.of_nat lag - 1 <? 0)%Z with false by (symmetry; apply Z.ltb_ge; lia).
  replace (Z.max (-1) (Z.min (-1 + Z.of_nat n) (Z.of_nat n - 1))) with (Z.of_nat (n - 1)) by lia.
  unfold range_len. change (0 <? -1)%Z with false. cbv iota. change (- -1)%Z with 1%Z. rewrite Z.div_1_r. f_equal. lia.
Qed.

(* rxy[1:] * w and conj(ryx[1:]) * w as the model's value families *)
Lemma front_values (r w : list F) lag : length r = S lag -> length w = lag ->
  map2 mul (skipn 1 r) w = map (fun t => nthF r (1 + t) * nthF w t) (seq 0 lag).
Proof.
  intros Hr Hw. rewrite skipn_mk, Hr. replace (S lag - 1)%nat with lag by lia.
  rewrite (list_eq_mk w) at 1. rewrite Hw, map2_mk. reflexivity.
Qed.
Lemma mirror_values (r w : list F) lag : length r = S lag -> length w = lag ->
  map2 mul (map conj (skipn 1 r)) w = map (fun t => conj (nthF r (1 + t)) * nthF w t) (seq 0 lag).
Proof.
  intros Hr Hw. rewrite skipn_mk, Hr. replace (S lag - 1)%nat with lag by lia.
  rewrite map_mk. rewrite (list_eq_mk w) at 1. rewrite Hw, map2_mk. reflexivity.
Qed.
End CgLists.

Section Cg.
Context {F : Type} {OF : Ops F} {L : Laws OF}.
Variable feq : F -> F -> bool.
Variable stop : Z -> F -> F -> bool.
Local Open Scope F_scope.
Local Open Scope list_scope.
Add Field FFircg : (fth (O:=OF)).
Notation value := (@value F).
Notation store := (@store F).
Notation exec := (@exec F OF feq stop).
Notation eval := (@LoopIR.eval F OF feq).

Ltac evg := cbn [LoopIR.exec LoopIR.eval eval_opt bind try asZ asArr asF ok err fst snd arith arithZ fop compare cmpF cmpZ eqne truthy eval_list].

Definition vnm (nmv : option string) : value := match nmv with Some t => VStr t | None => VNone end.

Lemma vnm_bound nm0 : match vnm nm0 with VUnbound => @err value UnboundLocal | v => ok v end = inl (vnm nm0).
Proof. destruct nm0; reflexivity. Qed.

(* ---------------------------------------------------------------- the stages, generic in the store *)
(* psd[0] = rxy[0] *)
Lemma cg_store0_ok (st : store) (p : list F) tg (r : list F) :
  get st 20 = inl (VArr false p) -> get st 22 = inl (VArr tg r) -> r <> [] ->
  exec cg_store0 st = if (length p =? 0)%nat then (st, CErr IndexError) else (set st 20 (VArr false (set_nth 0 (nthF r 0) p)), CNormal).
Proof.
  intros H20 H22 Hr. unfold cg_store0. evg. rewrite H20. evg. rewrite H22. evg.
  destruct p as [|a p]; [reflexivity|]. cbn [length Nat.eqb].
  change 0%Z with (Z.of_nat 0). rewrite !norm_index_nat by (destruct r; [congruence|cbn [length]; lia]).
  evg. reflexivity.
Qed.

Lemma map2_length_eq (f : F -> F -> F) (a b : list F) : length a = length b -> length (map2 f a b) = length a.
Proof. revert b. induction a as [|u a IH]; intros b H; destruct b as [|v b]; try discriminate; [reflexivity|]. cbn [map2 length]. rewrite IH; [reflexivity|]. cbn [length] in H. lia. Qed.

(* psd[1:lag+1] = rxy[1:] * w *)
Lemma cg_front_ok (st : store) (p : list F) tg (r w : list F) lag :
  get st 20 = inl (VArr false p) -> get st 22 = inl (VArr tg r) -> get st 21 = inl (VArr true w) -> get st 2 = inl (VI (Z.of_nat lag)) ->
  length r = S lag -> length w = lag -> (1 <= length p)%nat ->
  exec cg_front st =
    if (length p <? lag + 1)%nat
    then (if (lag =? 1)%nat then (set st 20 (VArr false p), CNormal) else (st, CErr ValueError))
    else (set st 20 (VArr false (writes lag (fun t => (1 + t)%nat) (fun t => nthF r (1 + t) * nthF w t) p)), CNormal).
Proof.
  intros H20 H22 H21 H2 Hr Hw Hp. unfold cg_front. evg. rewrite H20. evg. rewrite H2. evg.
  change (1 =? 0)%Z with false. cbv iota. rewrite H22. evg. change (1 =? 0)%Z with false. cbv iota.
  change (slice_positions (length r) (Some 1%Z) None 1) with (slice_positions (length r) (Some (Z.of_nat 1)) None 1). rewrite slice_from_skipn. rewrite H21. evg.
  assert (Hs : length (skipn 1 r) = lag) by (rewrite skipn_length; lia).
  rewrite Hs, Hw, Nat.eqb_refl. evg.
  rewrite front_positions by exact Hp.
  assert (Hv : length (map2 mul (skipn 1 r) w) = lag) by (rewrite map2_length_eq; lia).
  rewrite Hv, range_from_len.
  destruct (Nat.ltb_spec (length p) (lag + 1)) as [Hlt|Hge].
  - replace (Nat.min (lag + 1) (length p)) with (length p) by lia.
    replace (lag =? length p - 1)%nat with false by (symmetry; apply Nat.eqb_neq; lia).
    destruct (Nat.eqb_spec lag 1) as [E1|N1].
    + assert (Ep : length p = 1%nat) by lia. rewrite Ep. cbn [Nat.sub range_from map].
      destruct (map2 mul (skipn 1 r) w) as [|z [|z2 t]]; cbn [length] in Hv; try lia.
      evg. cbn [store_at]. reflexivity.
    + destruct (map2 mul (skipn 1 r) w) as [|z [|z2 t]]; cbn [length] in Hv; try lia; reflexivity.
  - replace (Nat.min (lag + 1) (length p)) with (lag + 1)%nat by lia. replace (lag + 1 - 1)%nat with lag by lia.
    rewrite Nat.eqb_refl. evg.
    change 1%Z with (Z.of_nat 1). rewrite range_from_up_map, (front_values r w lag Hr Hw), store_at_writes. reflexivity.
Qed.

(* psd[-1:NFFT-lag-1:-1] = conj(r[1:]) * w *)
Lemma cg_mirror_ok src (st : store) (p : list F) tg (r w : list F) lag n :
  get st 20 = inl (VArr false p) -> get st src = inl (VArr tg r) -> get st 21 = inl (VArr true w) -> get st 2 = inl (VI (Z.of_nat lag)) ->
  get st 5 = inl (VI (Z.of_nat n)) ->
  length p = n -> length r = S lag -> length w = lag -> ((lag + 1 <= n)%nat \/ (lag = 1%nat /\ n = 1%nat)) ->
  exec (cg_mirror src) st =
  (set st 20 (VArr false (if (n <? lag + 1)%nat then p
                          else writes lag (fun t => (n - 1 - t)%nat) (fun t => conj (nthF r (1 + t)) * nthF w t) p)), CNormal).
Proof.
  intros H20 Hs H21 H2 H5 Hp Hr Hw Hcase. unfold cg_mirror. evg. rewrite H20. evg. rewrite H5, H2. evg.
  change (-1 =? 0)%Z with false. cbv iota. rewrite Hs. evg. change (1 =? 0)%Z with false. cbv iota.
  change (slice_positions (length r) (Some 1%Z) None 1) with (slice_positions (length r) (Some (Z.of_nat 1)) None 1). rewrite slice_from_skipn. rewrite H21. evg.
  assert (Hl : length (skipn 1 r) = lag) by (rewrite skipn_length; lia).
  rewrite map_length, Hl, Hw, Nat.eqb_refl. evg. rewrite Hp.
  assert (Hv : length (map2 mul (map conj (skipn 1 r)) w) = lag) by (rewrite map2_length_eq; rewrite map_length; lia).
  destruct Hcase as [HA|[E1 En]].
  - replace (n <? lag + 1)%nat with false by (symmetry; apply Nat.ltb_ge; lia).
    rewrite mirror_positions by exact HA. rewrite Hv, range_from_len, Nat.eqb_refl. evg.
    rewrite range_from_down_map by lia. rewrite (mirror_values r w lag Hr Hw), store_at_writes. reflexivity.
  - rewrite E1 in Hv. rewrite E1, En. cbn [Nat.ltb Nat.leb Nat.add].
    destruct (map2 mul (map conj (skipn 1 r)) w) as [|z [|z2 t]]; cbn [length] in Hv; try lia.
    cbn [Z.of_nat Pos.of_succ_nat]. change (slice_positions 1 (Some (-1)%Z) (Some (1 - 1 - 1)%Z) (-1)) with (@nil Z).
    cbn [length Nat.eqb map]. evg. cbn [store_at]. reflexivity.
Qed.

(* the embedded CORRELATION(a, b, lag, norm) *)
Lemma cg_get_corr dst a b oa ob s0 s1 (st : store) ta (xa : list F) tb (xb : list F) lag nmv oA oB :
  get st 7 = inl (VStr "CORRELATION") -> get st a = inl (VArr ta xa) -> get st b = inl (VArr tb xb) -> get st 2 = inl (VI (Z.of_nat lag)) ->
  get st 4 = inl (vnm nmv) -> get st oa = inl (VF oA) -> get st ob = inl (VF oB) ->
  (ta && tb = true -> isrealL xb) ->
  exec (cg_get dst a b oa ob s0 s1) st =
  match norm_of (Some nmv) with
  | None => (st, CErr AssertionError)
  | Some c => match correlation (oA * oB) xa xb lag c with
              | Some r => (set st dst (VArr (ta && tb) r), CNormal)
              | None => (st, CErr AssertionError)
              end
  end.
Proof.
  intros H7 Ha Hb H2 H4 Hoa Hob Hreal. unfold cg_get. evg. rewrite H7. evg. cbn [String.eqb Ascii.eqb Bool.eqb]. evg.
  unfold cg_corr.
  rewrite (scall1_run feq stop dst prog_CORRELATION_ref _ st
             [Some (VArr ta xa); Some (VArr tb xb); Some (VI (Z.of_nat lag)); Some (vnm nmv); Some (VF oA); Some (VF oB)]).
  2:{ cbn [eval_oargs LoopIR.eval]. rewrite Ha, Hb, H2, H4, Hoa, Hob. reflexivity. }
  pose proof (correlation_ir feq stop ta xa (Some (tb, xb)) (Some (Z.of_nat lag)) (Some nmv) oA oB) as H.
  cbv zeta in H. cbn [fst snd option_map] in H. fold (vnm nmv) in H. rewrite (H Hreal). clear H.
  unfold corr_model_outcome. destruct (norm_of (Some nmv)) as [c|]; [|reflexivity].
  replace (Z.of_nat lag <? 0)%Z with false by (symmetry; apply Z.ltb_ge; lia). rewrite Nat2Z.id.
  destruct (correlation (oA * oB) xa xb lag c); reflexivity.
Qed.

Lemma set_nth_length i v (l : list F) : length (set_nth i v l) = length l.
Proof. rewrite <- updF_set_nth. apply updF_length. Qed.
Lemma writes_length k idx v (l : list F) : length (writes k idx v l) = length l.
Proof. induction k as [|k IH]; [reflexivity|]. cbn [writes]. rewrite set_nth_length. exact IH. Qed.

(* the two back ends and what each needs:
     'CORRELATION': when both dtype tags are float the two records are real-valued (the float branch of CORRELATION does not conjugate);
     'xcorr'      : the oracle slots hold the model's xcorr for a valid norm, and the two records have the same length (xcorr's own domain) *)
Definition be_ok (tx : bool) (x : list F) (ty : bool) (yl : list F) (lag : nat) (nmv : option string) (meth : string) (v9 v11 : value) (o1 o2 : F)
                 (be : backend) : Prop :=
  (meth = "CORRELATION"%string /\ be = BCorrelation /\ (tx && ty = true -> isrealL yl /\ isrealL x))
  \/ (meth = "xcorr"%string /\ be = BXcorr /\ length yl = length x /\
      exists c, norm_of (Some nmv) = Some c /\ v9 = xc_value (xcorr (o1 * o2) x yl lag c) /\ v11 = xc_value (xcorr (o1 * o2) yl x lag c)).

(* ---------------------------------------------------------------- from the resolved arguments on: a concrete store *)
Section Body.
Variables (tx : bool) (x : list F) (ty : bool) (yl : list F) (cross : bool) (lag : nat) (nmv : option string) (n : nat) (meth : string) (wfull : list F)
          (v9 v11 : value) (o1 o2 : F) (tw : nat -> Z -> F).
Definition gst (vpsd vw vrxy vl vryx : value) : store :=
  [VArr tx x; VArr ty yl; VI (Z.of_nat lag); VStr "hamming"; vnm nmv; VI (Z.of_nat n); VNone; VStr meth; VArr true wfull;
   v9; VNone; v11; VNone; VF o1; VF o2; VF o2; VF o1; VTw tw; VI (Z.of_nat (length x)); VB cross; vpsd; vw; vrxy; vl; vryx].
Ltac ev := cbn [LoopIR.exec LoopIR.eval get set nth gst eval_opt bind try asZ asArr asF ok err fst snd arith arithZ fop compare cmpF cmpZ eqne truthy eval_list].

(* the psd buffer the model builds *)
Definition lay (rxy ryx w : list F) : list F :=
  let p0 := set_nth 0 (nthF rxy 0) (mk n (fun _ => 0)) in
  let p1 := writes lag (fun t => (1 + t)%nat) (fun t => nthF rxy (1 + t) * nthF w t) p0 in
  let p2 := writes lag (fun t => (n - 1 - t)%nat) (fun t => conj (nthF ryx (1 + t)) * nthF w t) p1 in
  if (n <? lag + 1)%nat then p0 else p2.
Definition lay_ctl (rxy ryx w : list F) : ctl :=
  if (n =? 0)%nat then CErr IndexError
  else if (n <? lag + 1)%nat && negb (lag =? 1)%nat then CErr ValueError
  else CRet [VArr true (map re (dft (tw n) n (lay rxy ryx w)))].

Lemma exec_if_flag slot (c : bool) a b (st : store) : get st slot = inl (VB c) ->
  exec (SIf (EIsBool true (EVar slot)) a b) st = if c then exec a st else exec b st.
Proof. intros H. cbn [LoopIR.exec LoopIR.eval]. rewrite H. destruct c; reflexivity. Qed.

Definition second_get (tg : bool) (rxy ryx w : list F) (vryx : value) : Prop :=
  forall p vl0, exists tg2 vl',
    exec (cg_get 24 1 0 15 16 11 12) (gst (VArr false p) (VArr true w) (VArr tg rxy) vl0 vryx)
    = (gst (VArr false p) (VArr true w) (VArr tg rxy) vl' (VArr tg2 ryx), CNormal).

Lemma cg_cross_ok tg (rxy ryx w p : list F) vl vryx :
  length rxy = S lag -> length ryx = S lag -> length w = lag -> length p = n ->
  ((lag + 1 <= n)%nat \/ (lag = 1%nat /\ n = 1%nat)) ->
  (cross = true -> second_get tg rxy ryx w vryx) -> (cross = false -> ryx = rxy) ->
  exists vl' vryx',
    exec cg_cross (gst (VArr false p) (VArr true w) (VArr tg rxy) vl vryx)
    = (gst (VArr false (if (n <? lag + 1)%nat then p
                        else writes lag (fun t => (n - 1 - t)%nat) (fun t => conj (nthF ryx (1 + t)) * nthF w t) p))
           (VArr true w) (VArr tg rxy) vl' vryx', CNormal).
Proof.
  intros Hr Hy Hw Hp Hc H2nd Hauto. unfold cg_cross.
  rewrite (exec_if_flag 19 cross) by reflexivity.
  destruct cross.
  - destruct (H2nd eq_refl p vl) as [tg2 [vl' E2]]. erewrite exec_seq by exact E2. clear E2.
    rewrite (cg_mirror_ok 24 _ p tg2 ryx w lag n) by first [reflexivity|assumption].
    cbn [set gst]. do 2 eexists. reflexivity.
  - rewrite (Hauto eq_refl).
    rewrite (cg_mirror_ok 22 _ p tg rxy w lag n) by first [reflexivity|assumption].
    cbn [set gst]. do 2 eexists. reflexivity.
Qed.

Lemma cg_tail_ok (p : list F) vw vrxy vl vryx : length p = n -> n <> 0%nat ->
  exists s', exec cg_tail (gst (VArr false p) vw vrxy vl vryx) = (s', CRet [VArr true (map re (dft (tw n) n p))]).
Proof.
  intros Hp Hn. unfold cg_tail. erewrite exec_seq.
  2:{ ev. unfold fft_points. rewrite Hp. replace (n =? 0)%nat with false by (symmetry; apply Nat.eqb_neq; exact Hn). cbn [bind ok]. reflexivity. }
  eexists. ev. reflexivity.
Qed.

Lemma cg_fill_ok tg (rxy ryx w : list F) vl vryx :
  length rxy = S lag -> length ryx = S lag -> length w = lag ->
  (cross = true -> second_get tg rxy ryx w vryx) -> (cross = false -> ryx = rxy) ->
  exists s', exec cg_fill (gst (VArr false (zeros n)) (VArr true w) (VArr tg rxy) vl vryx) = (s', lay_ctl rxy ryx w).
Proof.
  intros Hr Hy Hw H2nd Hauto. unfold cg_fill, lay_ctl, lay.
  assert (Hne : rxy <> []) by (destruct rxy; [discriminate|congruence]).
  pose proof (cg_store0_ok (gst (VArr false (zeros n)) (VArr true w) (VArr tg rxy) vl vryx) (zeros n) tg rxy eq_refl eq_refl Hne) as H0.
  rewrite zeros_length in H0.
  destruct (Nat.eqb_spec n 0) as [En|Hn].
  { eexists. apply exec_seq_stop; [exact H0|discriminate]. }
  erewrite exec_seq by exact H0. clear H0. cbn [set gst]. fold (zeros n).
  set (p0 := set_nth 0 (nthF rxy 0) (zeros n)).
  assert (L0 : length p0 = n) by (unfold p0; rewrite set_nth_length; apply zeros_length).
  pose proof (cg_front_ok (gst (VArr false p0) (VArr true w) (VArr tg rxy) vl vryx) p0 tg rxy w lag eq_refl eq_refl eq_refl eq_refl Hr Hw ltac:(lia)) as H1.
  rewrite L0 in H1.
  set (p1 := writes lag (fun t => (1 + t)%nat) (fun t => nthF rxy (1 + t) * nthF w t) p0) in *.
  assert (L1 : length p1 = n) by (unfold p1; rewrite writes_length; exact L0).
  destruct (Nat.ltb_spec n (lag + 1)) as [Hlt|Hge]; cbn [andb].
  - destruct (Nat.eqb_spec lag 1) as [E1|N1]; cbn [negb].
    2:{ eexists. apply exec_seq_stop; [exact H1|discriminate]. }
    erewrite exec_seq by exact H1. clear H1. cbn [set gst].
    destruct (cg_cross_ok tg rxy ryx w p0 vl vryx Hr Hy Hw L0 ltac:(right; lia) H2nd Hauto) as [vl' [vryx' E]].
    erewrite exec_seq by exact E. clear E.
    replace (n <? lag + 1)%nat with true by (symmetry; apply Nat.ltb_lt; lia).
    apply cg_tail_ok; assumption.
  - erewrite exec_seq by exact H1. clear H1. cbn [set gst].
    destruct (cg_cross_ok tg rxy ryx w p1 vl vryx Hr Hy Hw L1 ltac:(left; lia) H2nd Hauto) as [vl' [vryx' E]].
    erewrite exec_seq by exact E. clear E.
    replace (n <? lag + 1)%nat with false by (symmetry; apply Nat.ltb_ge; lia).
    apply cg_tail_ok; [rewrite writes_length; exact L1|exact Hn].
Qed.

(* ---------------- the two back ends *)
Variable be : backend.
Hypothesis Hlag : (lag < length x)%nat.
Hypothesis Hwf : length wfull = (2 * lag + 1)%nat.
Hypothesis Hcross : cross = false -> ty = tx /\ yl = x.
Hypothesis Hbe : be_ok tx x ty yl lag nmv meth v9 v11 o1 o2 be.

Lemma corr_pos_some c :
  exists rxy ryx, corr_pos be (o1 * o2) x yl lag c = Some rxy /\ corr_pos be (o1 * o2) yl x lag c = Some ryx /\
                  length rxy = S lag /\ length ryx = S lag.
Proof.
  destruct Hbe as [[_ [-> _]]|[_ [-> [Hlen _]]]]; cbn [corr_pos].
  - unfold correlation.
    replace (lag <? Nat.max (length x) (length yl))%nat with true by (symmetry; apply Nat.ltb_lt; lia).
    replace (lag <? Nat.max (length yl) (length x))%nat with true by (symmetry; apply Nat.ltb_lt; lia).
    do 2 eexists. repeat split; apply mk_length.
  - unfold xcorr. rewrite Hlen, !Nat.eqb_refl. cbn [negb orb].
    replace (length x <? lag)%nat with false by (symmetry; apply Nat.ltb_ge; lia).
    do 2 eexists. repeat split; rewrite skipn_length, mk_length; lia.
Qed.

Lemma cg_get1_ok c rxy vpsd vw vrxy vl vryx :
  norm_of (Some nmv) = Some c -> corr_pos be (o1 * o2) x yl lag c = Some rxy ->
  exists tg vl', exec (cg_get 22 0 1 13 14 9 10) (gst vpsd vw vrxy vl vryx) = (gst vpsd vw (VArr tg rxy) vl' vryx, CNormal).
Proof.
  intros Hc E. destruct Hbe as [[Hm [Eb Hre]]|[Hm [Eb [Hlen [c' [Hc' [H9 _]]]]]]]; rewrite Eb in E; cbn [corr_pos] in E.
  - assert (G7 : get (gst vpsd vw vrxy vl vryx) 7 = inl (VStr "CORRELATION")) by (rewrite <- Hm; reflexivity).
    rewrite (cg_get_corr 22 0 1 13 14 9 10 _ tx x ty yl lag nmv o1 o2) by first [exact G7|reflexivity|(apply vnm_bound)|(intros Hr; apply (proj1 (Hre Hr)))].
    rewrite Hc, E. cbn [set gst]. do 2 eexists. reflexivity.
  - rewrite Hc in Hc'. injection Hc' as <-.
    destruct (xcorr (o1 * o2) x yl lag c) as [r9|]; [|discriminate]. injection E as <-.
    unfold cg_get, cg_xc, gst. rewrite Hm, H9. cbn [xc_value]. ev. cbn [String.eqb Ascii.eqb Bool.eqb]. ev.
    change (1 =? 0)%Z with false. cbv iota. rewrite slice_from_skipn. do 2 eexists. reflexivity.
Qed.

Lemma cg_get2_ok c tg rxy ryx w vryx :
  norm_of (Some nmv) = Some c -> corr_pos be (o1 * o2) yl x lag c = Some ryx -> second_get tg rxy ryx w vryx.
Proof.
  intros Hc E p vl0. destruct Hbe as [[Hm [Eb Hre]]|[Hm [Eb [Hlen [c' [Hc' [_ H11]]]]]]]; rewrite Eb in E; cbn [corr_pos] in E.
  - assert (G7 : get (gst (VArr false p) (VArr true w) (VArr tg rxy) vl0 vryx) 7 = inl (VStr "CORRELATION")) by (rewrite <- Hm; reflexivity).
    rewrite (cg_get_corr 24 1 0 15 16 11 12 _ ty yl tx x lag nmv o2 o1)
      by first [exact G7|reflexivity|(apply vnm_bound)|(intros Hr; rewrite andb_comm in Hr; apply (proj2 (Hre Hr)))].
    rewrite Hc. replace (o2 * o1) with (o1 * o2) by ring. rewrite E. cbn [set gst]. do 2 eexists. reflexivity.
  - rewrite Hc in Hc'. injection Hc' as <-.
    destruct (xcorr (o1 * o2) yl x lag c) as [r11|]; [|discriminate]. injection E as <-.
    unfold cg_get, cg_xc, gst. rewrite Hm, H11. cbn [xc_value]. ev. cbn [String.eqb Ascii.eqb Bool.eqb]. ev.
    change (1 =? 0)%Z with false. cbv iota. rewrite slice_from_skipn. do 2 eexists. reflexivity.
Qed.

Definition rest_ctl : ctl :=
  match norm_of (Some nmv) with
  | None => CErr AssertionError
  | Some c =>
      match corr_pos be (o1 * o2) x yl lag c, (if cross then corr_pos be (o1 * o2) yl x lag c else corr_pos be (o1 * o2) x yl lag c) with
      | Some rxy, Some ryx => lay_ctl rxy ryx (skipn (lag + 1) wfull)
      | _, _ => CErr AssertionError
      end
  end.

Lemma cg_rest_ok : exists s', exec cg_rest (gst VUnbound VUnbound VUnbound VUnbound VUnbound) = (s', rest_ctl).
Proof.
  unfold cg_rest, rest_ctl.
  erewrite exec_seq.
  2:{ ev. replace (Z.of_nat n <? 0)%Z with false by (symmetry; apply Z.ltb_ge; lia). rewrite Nat2Z.id. reflexivity. }
  cbn [set gst]. fold (zeros n).
  erewrite exec_seq; [|ev; reflexivity].
  cbn [set gst].
  erewrite exec_seq.
  2:{ ev. change (1 =? 0)%Z with false. cbv iota. replace (Z.of_nat lag + 1)%Z with (Z.of_nat (lag + 1)) by lia.
      rewrite slice_from_skipn. reflexivity. }
  cbn [set gst].
  assert (Hw : length (skipn (lag + 1) wfull) = lag) by (rewrite skipn_length; lia).
  assert (Hcase : (exists c, norm_of (Some nmv) = Some c) \/ norm_of (Some nmv) = None) by (destruct (norm_of (Some nmv)); eauto).
  destruct Hcase as [[c Hc]|Hc]; rewrite Hc.
  - destruct (corr_pos_some c) as [rxy [ryx [E1 [E2 [L1 L2]]]]].
    assert (E2' : (if cross then corr_pos be (o1 * o2) yl x lag c else corr_pos be (o1 * o2) x yl lag c) = Some (if cross then ryx else rxy))
      by (destruct cross; assumption).
    assert (L2' : length (if cross then ryx else rxy) = S lag) by (destruct cross; assumption).
    rewrite E2', E1. clear E2'.
    destruct (cg_get1_ok c rxy (VArr false (zeros n)) (VArr true (skipn (lag + 1) wfull)) VUnbound VUnbound VUnbound Hc E1) as [tg [vl' G]].
    erewrite exec_seq by exact G. clear G.
    apply cg_fill_ok; try assumption.
    + intros Ec. rewrite Ec. apply (cg_get2_ok c); assumption.
    + intros Ec. rewrite Ec. reflexivity.
  - destruct Hbe as [[Hm [Eb Hre]]|[_ [_ [_ [c' [Hc' _]]]]]]; [|congruence].
    eexists. apply exec_seq_stop; [|discriminate].
    assert (G7 : get (gst (VArr false (zeros n)) (VArr true (skipn (lag + 1) wfull)) VUnbound VUnbound VUnbound) 7 = inl (VStr "CORRELATION"))
      by (rewrite <- Hm; reflexivity).
    rewrite (cg_get_corr 22 0 1 13 14 9 10 _ tx x ty yl lag nmv o1 o2) by first [exact G7|reflexivity|(apply vnm_bound)|(intros Hr; apply (proj1 (Hre Hr)))].
    rewrite Hc. reflexivity.
Qed.
End Body.

(* ---------------------------------------------------------------- the prelude and the whole function *)
Ltac evc := cbn [LoopIR.exec LoopIR.eval get set nth eval_opt bind try asZ asArr asF ok err fst snd arith arithZ fop compare cmpF cmpZ eqne truthy eval_list].

Definition cg_vy (y : option (bool * list F)) : value := match y with Some q => VArr (fst q) (snd q) | None => VNone end.
Definition cg_vnf (nf : option nat) : value := match nf with Some k => VI (Z.of_nat k) | None => VNone end.
Definition ty_of (tx : bool) (y : option (bool * list F)) : bool := match y with Some q => fst q | None => tx end.
Definition yl_of (x : list F) (y : option (bool * list F)) : list F := match y with Some q => snd q | None => x end.
Definition cross_of (y : option (bool * list F)) : bool := match y with Some _ => true | None => false end.

Definition cg_st0 tx (x : list F) y lag nmv nf (meth : string) (wfull : list F) (v9 v11 : value) (o1 o2 : F) (tw : nat -> Z -> F) (vN : value) : store :=
  [VArr tx x; cg_vy y; VI (Z.of_nat lag); VStr "hamming"; vnm nmv; cg_vnf nf; VNone; VStr meth; VArr true wfull;
   v9; VNone; v11; VNone; VF o1; VF o2; VF o2; VF o1; VTw tw; vN; VUnbound; VUnbound; VUnbound; VUnbound; VUnbound; VUnbound].

Lemma cg_pre_ok tx (x : list F) y lag nmv nf meth wfull v9 v11 o1 o2 tw (rest : stmt) :
  exec (SSeq cg_y (SSeq cg_nfft rest)) (cg_st0 tx x y lag nmv nf meth wfull v9 v11 o1 o2 tw (VI (Z.of_nat (length x))))
  = exec rest (gst tx x (ty_of tx y) (yl_of x y) (cross_of y) lag nmv (resolve nf (length x)) meth wfull v9 v11 o1 o2 tw
                   VUnbound VUnbound VUnbound VUnbound VUnbound).
Proof.
  unfold cg_y, cg_nfft, cg_st0.
  destruct y as [[ty yv]|], nf as [k|]; cbn [cg_vy cg_vnf fst snd];
    (erewrite exec_seq; [|evc; reflexivity]); (erewrite exec_seq; [|evc; reflexivity]); reflexivity.
Qed.

Definition ctl_of (o : @outcome F) : ctl := match o with ORet vs => CRet vs | OErr e => CErr e end.

(* the remaining part of the specification once lag < N, the back end and the norm are known *)
Lemma rest_ctl_spec tx (x : list F) y lag nmv nf meth wfull v9 v11 o1 o2 tw be :
  (lag < length x)%nat -> length wfull = (2 * lag + 1)%nat ->
  be_ok tx x (ty_of tx y) (yl_of x y) lag nmv meth v9 v11 o1 o2 be ->
  rest_ctl x (yl_of x y) (cross_of y) lag nmv (resolve nf (length x)) wfull o1 o2 tw be =
  match norm_of (Some nmv) with
  | None => CErr AssertionError
  | Some c =>
      let n := resolve nf (length x) in
      if (n =? 0)%nat then CErr IndexError
      else if (n <? lag + 1)%nat && negb (lag =? 1)%nat then CErr ValueError
      else match correlogram (tw n) (o1 * o2) x (option_map snd y) lag wfull nf c be with
           | Some p => CRet [VArr true p]
           | None => CErr AssertionError
           end
  end.
Proof.
  intros Hlag Hwf Hbe. unfold rest_ctl.
  destruct (norm_of (Some nmv)) as [c|] eqn:Hc; [|reflexivity].
  destruct (corr_pos_some tx x (ty_of tx y) (yl_of x y) lag nmv meth wfull v9 v11 o1 o2 be Hlag Hwf Hbe c) as [rxy [ryx [E1 [E2 [L1 L2]]]]].
  rewrite E1. cbv zeta. unfold lay_ctl, correlogram.
  replace (lag <? length x)%nat with true by (symmetry; apply Nat.ltb_lt; exact Hlag). cbn [negb].
  destruct (resolve nf (length x) =? 0)%nat; [destruct y; cbn [cross_of]; rewrite ?E2; reflexivity|].
  destruct ((resolve nf (length x) <? lag + 1)%nat && negb (lag =? 1)%nat); [destruct y; cbn [cross_of]; rewrite ?E2; reflexivity|].
  destruct y as [[ty yv]|]; cbn [cross_of yl_of ty_of option_map snd fst] in *.
  - rewrite E2, E1. reflexivity.
  - rewrite E1. reflexivity.
Qed.

Definition cg_dom_main tx (x : list F) y lag nmv (meth : string) (wfull : list F) (v9 v11 : value) (o1 o2 : F) : Prop :=
  length wfull = (2 * lag + 1)%nat /\
  forall be, backend_of (Some meth) = Some be -> be_ok tx x (ty_of tx y) (yl_of x y) lag nmv meth v9 v11 o1 o2 be.

Lemma cg_assert_lag_ok tx (x : list F) y lag nmv nf meth wfull v9 v11 o1 o2 tw :
  let st := cg_st0 tx x y lag nmv nf meth wfull v9 v11 o1 o2 tw (VI (Z.of_nat (length x))) in
  exec (SAssert (ECmp CLt (EVar 2) (EVar 18))) st = (st, if (lag <? length x)%nat then CNormal else CErr AssertionError).
Proof.
  intros st. unfold st, cg_st0. evc.
  destruct (Nat.ltb_spec lag (length x)).
  - replace (Z.of_nat lag <? Z.of_nat (length x))%Z with true by (symmetry; apply Z.ltb_lt; lia). reflexivity.
  - replace (Z.of_nat lag <? Z.of_nat (length x))%Z with false by (symmetry; apply Z.ltb_ge; lia). reflexivity.
Qed.
Lemma cg_assert_meth_ok tx (x : list F) y lag nmv nf meth wfull v9 v11 o1 o2 tw vN :
  let st := cg_st0 tx x y lag nmv nf meth wfull v9 v11 o1 o2 tw vN in
  exec (SAssert (EOr (ECmp CEq (EVar 7) (EStr "CORRELATION")) (ECmp CEq (EVar 7) (EStr "xcorr")))) st
  = (st, if String.eqb meth "CORRELATION" || String.eqb meth "xcorr" then CNormal else CErr AssertionError).
Proof.
  intros st. unfold st, cg_st0. evc.
  destruct (String.eqb meth "CORRELATION"); evc; [reflexivity|]. destruct (String.eqb meth "xcorr"); reflexivity.
Qed.

Lemma cg_main_ok tx (x : list F) y lag nmv nf meth wfull v9 v11 o1 o2 tw :
  cg_dom_main tx x y lag nmv meth wfull v9 v11 o1 o2 ->
  exists s', exec cg_main (cg_st0 tx x y lag nmv nf meth wfull v9 v11 o1 o2 tw VUnbound)
             = (s', ctl_of (correlogram_spec tw x y lag wfull (Some nf) (Some nmv) (Some meth) o1 o2)).
Proof.
  intros [Hwf Hdom]. unfold cg_main, correlogram_spec.
  erewrite exec_seq.
  2:{ instantiate (1 := cg_st0 tx x y lag nmv nf meth wfull v9 v11 o1 o2 tw (VI (Z.of_nat (length x)))). unfold cg_st0. evc. reflexivity. }
  pose proof (cg_assert_lag_ok tx x y lag nmv nf meth wfull v9 v11 o1 o2 tw) as HA. cbv zeta in HA.
  pose proof (cg_assert_meth_ok tx x y lag nmv nf meth wfull v9 v11 o1 o2 tw (VI (Z.of_nat (length x)))) as HM. cbv zeta in HM.
  destruct (Nat.ltb_spec lag (length x)) as [Hlag|Hlag]; cbn [negb].
  2:{ eexists. apply exec_seq_stop; [exact HA|discriminate]. }
  erewrite exec_seq by exact HA. clear HA.
  unfold backend_of in *.
  destruct (String.eqb meth "CORRELATION") eqn:Em1; cbn [orb] in HM.
  - erewrite exec_seq by exact HM. clear HM.
    rewrite cg_pre_ok.
    specialize (Hdom BCorrelation eq_refl).
    destruct (cg_rest_ok tx x (ty_of tx y) (yl_of x y) (cross_of y) lag nmv (resolve nf (length x)) meth wfull v9 v11 o1 o2 tw BCorrelation
                         Hlag Hwf ltac:(destruct y; [discriminate|intros _; split; reflexivity]) Hdom) as [s' E].
    exists s'. rewrite E. f_equal. rewrite (rest_ctl_spec tx x y lag nmv nf meth wfull v9 v11 o1 o2 tw BCorrelation Hlag Hwf Hdom).
    destruct (norm_of (Some nmv)); [|reflexivity]. cbv zeta.
    destruct (resolve nf (length x) =? 0)%nat; [reflexivity|].
    destruct ((resolve nf (length x) <? lag + 1)%nat && negb (lag =? 1)%nat); [reflexivity|].
    destruct (correlogram _ _ _ _ _ _ _ _ _); reflexivity.
  - destruct (String.eqb meth "xcorr") eqn:Em2.
    + erewrite exec_seq by exact HM. clear HM.
      rewrite cg_pre_ok.
      specialize (Hdom BXcorr eq_refl).
      destruct (cg_rest_ok tx x (ty_of tx y) (yl_of x y) (cross_of y) lag nmv (resolve nf (length x)) meth wfull v9 v11 o1 o2 tw BXcorr
                           Hlag Hwf ltac:(destruct y; [discriminate|intros _; split; reflexivity]) Hdom) as [s' E].
      exists s'. rewrite E. f_equal. rewrite (rest_ctl_spec tx x y lag nmv nf meth wfull v9 v11 o1 o2 tw BXcorr Hlag Hwf Hdom).
      destruct (norm_of (Some nmv)); [|reflexivity]. cbv zeta.
      destruct (resolve nf (length x) =? 0)%nat; [reflexivity|].
      destruct ((resolve nf (length x) <? lag + 1)%nat && negb (lag =? 1)%nat); [reflexivity|].
      destruct (correlogram _ _ _ _ _ _ _ _ _); reflexivity.
    + eexists. apply exec_seq_stop; [exact HM|discriminate].
Qed.

(* ---------------------------------------------------------------- the arguments as the tie passes them *)
Definition nmv_of (nm : option (option string)) : option string := match nm with None => Some "unbiased"%string | Some v => v end.
Definition nf_of (NFFT : option (option nat)) : option nat := match NFFT with None => Some 4096%nat | Some v => v end.
Definition meth_of (m : option string) : string := match m with Some s => s | None => "xcorr"%string end.

Lemma norm_of_nmv nm : norm_of (Some (nmv_of nm)) = norm_of nm.
Proof. destruct nm as [[s|]|]; reflexivity. Qed.
Lemma backend_of_meth m : backend_of (Some (meth_of m)) = backend_of m.
Proof. destruct m; reflexivity. Qed.

(* the domain of the theorem (see the header) *)
Definition cg_dom (rx : bool) (x : list F) (y : option (bool * list F)) (lag : nat) (wfull : list F) (nm : option (option string)) (meth : option string) : Prop :=
  length wfull = (2 * lag + 1)%nat /\
  match backend_of meth with
  | Some BCorrelation => rx && ty_of rx y = true -> isrealL (yl_of x y) /\ isrealL x
  | Some BXcorr => norm_of nm <> None /\ length (yl_of x y) = length x
  | None => True
  end.

Definition xc_slot (x yl : list F) (lag : nat) (nm : option (option string)) (o1 o2 : F) : value :=
  xc_value (xcorr (o1 * o2) x yl lag (match norm_of nm with Some c => c | None => Unbiased end)).

Lemma cg_dom_to_main rx (x : list F) y lag wfull nm meth o1 o2 :
  cg_dom rx x y lag wfull nm meth ->
  cg_dom_main rx x y lag (nmv_of nm) (meth_of meth) wfull (xc_slot x (yl_of x y) lag nm o1 o2) (xc_slot (yl_of x y) x lag nm o1 o2) o1 o2.
Proof.
  intros [Hwf Hb]. split; [exact Hwf|]. intros be Hbe. rewrite backend_of_meth in Hbe. rewrite Hbe in Hb.
  unfold backend_of in Hbe. unfold be_ok.
  destruct meth as [m|]; cbn [meth_of].
  - destruct (String.eqb m "CORRELATION") eqn:E1.
    + apply String.eqb_eq in E1. injection Hbe as <-. left. repeat split; try assumption; apply Hb; assumption.
    + destruct (String.eqb m "xcorr") eqn:E2; [|discriminate]. apply String.eqb_eq in E2. injection Hbe as <-. right.
      destruct Hb as [Hn Hl]. split; [exact E2|]. split; [reflexivity|]. split; [exact Hl|].
      rewrite norm_of_nmv. unfold xc_slot. destruct (norm_of nm) as [c|]; [|congruence]. exists c. repeat split.
  - injection Hbe as <-. right. destruct Hb as [Hn Hl]. split; [reflexivity|]. split; [reflexivity|]. split; [exact Hl|].
    rewrite norm_of_nmv. unfold xc_slot. destruct (norm_of nm) as [c|]; [|congruence]. exists c. repeat split.
Qed.

Lemma bind_args_cg tw rx (x : list F) y lag wfull NFFT nm meth o1 o2 :
  bind_args feq (p_defaults prog_CORRELOGRAMPSD_ref) (correlogram_args tw rx x y lag wfull NFFT nm meth o1 o2)
  = inl [VArr rx x; cg_vy y; VI (Z.of_nat lag); VStr "hamming"; vnm (nmv_of nm); cg_vnf (nf_of NFFT); VNone; VStr (meth_of meth); VArr true wfull;
         xc_slot x (yl_of x y) lag nm o1 o2; VNone; xc_slot (yl_of x y) x lag nm o1 o2; VNone; VF o1; VF o2; VF o2; VF o1; VTw tw].
Proof.
  unfold correlogram_args, xc_slot, yl_of.
  set (v9 := xc_value _). set (v11 := xc_value _). clearbody v9 v11.
  destruct y as [[ty yv]|], NFFT as [[k|]|], nm as [[s|]|], meth as [m|]; reflexivity.
Qed.

Lemma spec_normalised tw (x : list F) y lag wfull NFFT nm meth o1 o2 :
  correlogram_spec tw x y lag wfull (Some (nf_of NFFT)) (Some (nmv_of nm)) (Some (meth_of meth)) o1 o2
  = correlogram_spec tw x y lag wfull NFFT nm meth o1 o2.
Proof.
  unfold correlogram_spec. rewrite backend_of_meth, norm_of_nmv. destruct NFFT; reflexivity.
Qed.

Theorem correlogram_ir_run tw (rx : bool) (x : list F) (y : option (bool * list F)) (lag : nat) (wfull : list F)
                           (NFFT : option (option nat)) (nm : option (option string)) (meth : option string) (o1 o2 : F) :
  cg_dom rx x y lag wfull nm meth ->
  run feq stop prog_CORRELOGRAMPSD_ref (correlogram_args tw rx x y lag wfull NFFT nm meth o1 o2)
  = correlogram_spec tw x y lag wfull NFFT nm meth o1 o2.
Proof.
  intros Hdom. unfold run. rewrite bind_args_cg.
  destruct (cg_main_ok rx x y lag (nmv_of nm) (nf_of NFFT) (meth_of meth) wfull _ _ o1 o2 tw (cg_dom_to_main rx x y lag wfull nm meth o1 o2 Hdom)) as [s' E].
  cbn [p_body p_nslots p_nparams prog_CORRELOGRAMPSD_ref Nat.sub app repeat]. unfold cg_st0 in E. rewrite E. clear E.
  rewrite spec_normalised. destruct (correlogram_spec tw x y lag wfull NFFT nm meth o1 o2); reflexivity.
Qed.

(* the two back ends separately *)
Corollary correlogram_ir_run_correlation tw (rx : bool) (x : list F) y lag wfull NFFT nm o1 o2 :
  length wfull = (2 * lag + 1)%nat -> (rx && ty_of rx y = true -> isrealL (yl_of x y) /\ isrealL x) ->
  run feq stop prog_CORRELOGRAMPSD_ref (correlogram_args tw rx x y lag wfull NFFT nm (Some "CORRELATION"%string) o1 o2)
  = correlogram_spec tw x y lag wfull NFFT nm (Some "CORRELATION"%string) o1 o2.
Proof. intros Hw Hr. apply correlogram_ir_run. split; [exact Hw|exact Hr]. Qed.
Corollary correlogram_ir_run_xcorr tw (rx : bool) (x : list F) y lag wfull NFFT nm meth o1 o2 :
  meth = None \/ meth = Some "xcorr"%string ->
  length wfull = (2 * lag + 1)%nat -> norm_of nm <> None -> length (yl_of x y) = length x ->
  run feq stop prog_CORRELOGRAMPSD_ref (correlogram_args tw rx x y lag wfull NFFT nm meth o1 o2)
  = correlogram_spec tw x y lag wfull NFFT nm meth o1 o2.
Proof. intros [-> | ->] Hw Hn Hl; apply correlogram_ir_run; (split; [exact Hw|split; assumption]). Qed.
End Cg.

Section CgTie.
Context {F : Type} {OF : Ops F} {L : Laws OF}.
Variable feq : F -> F -> bool.
Hypothesis feq_refl : forall a, feq a a = true.

Lemma leq_refl_cg (l : list F) : leq feq l l = true.
Proof.
  unfold leq. rewrite Nat.eqb_refl. cbn [andb]. induction l as [|a l IH]; [reflexivity|].
  cbn [combine forallb fst snd]. rewrite feq_refl, IH. reflexivity.
Qed.

Theorem correlogram_ir_tie tw (rx : bool) (x : list F) (y : option (bool * list F)) (lag : nat) (wfull : list F)
                           (NFFT : option (option nat)) (nm : option (option string)) (meth : option string) (o1 o2 : F) :
  cg_dom rx x y lag wfull nm meth ->
  tie_correlogram feq tw prog_CORRELOGRAMPSD_ref rx x y lag wfull NFFT nm meth o1 o2 = true.
Proof.
  intros Hdom. unfold tie_correlogram. rewrite (correlogram_ir_run feq (@nostop F)) by exact Hdom.
  unfold correlogram_spec. generalize (match NFFT with None => Some 4096%nat | Some v => v end). intros nf.
  destruct (negb (lag <? length x)%nat); [reflexivity|].
  destruct (backend_of meth); [|reflexivity]. destruct (norm_of nm); [|reflexivity].
  destruct (_ =? 0)%nat; [reflexivity|]. destruct (_ && _); [reflexivity|].
  destruct (correlogram _ _ _ _ _ _ _ _ _); [|reflexivity].
  cbn [out_eq vals_eq val_eq Bool.eqb andb]. rewrite leq_refl_cg. reflexivity.
Qed.
End CgTie.

(* BEGIN GENERATED CORRELOGRAMPSD (verbatim output of tools/props/_loopir.py for spectrum.correlog.CORRELOGRAMPSD, correlation.CORRELATION embedded twice) *)
(* CORRELOGRAMPSD: slots 0=X 1=Y 2=lag 3=window 4=norm 5=NFFT 6=window_params 7=correlation_method 8=Window(2 * lag + 1, window, **window_params).data@0 9=xcorr(X, Y, maxlags=lag, norm=norm)[0]@1 10=xcorr(X, Y, maxlags=lag, norm=norm)[1]@2 11=xcorr(Y, X, maxlags=lag, norm=norm)[0]@3 12=xcorr(Y, X, maxlags=lag, norm=norm)[1]@4 13=CORRELATION.pylab_rms_flat(x)@0#5 14=CORRELATION.pylab_rms_flat(y)@1#6 15=CORRELATION.pylab_rms_flat(x)@0#7 16=CORRELATION.pylab_rms_flat(y)@1#8 17=fft@tw 18=N 19=crosscorrelation 20=psd 21=w 22=rxy 23=_l 24=ryx *)
Definition prog_CORRELOGRAMPSD_gen0 : program := mkProgram "CORRELOGRAMPSD" 18 [None; (Some ENone); (Some (ENeg (EInt 1))); (Some (EStr "hamming")); (Some (EStr "unbiased")); (Some (EInt 4096)); (Some ENone); (Some (EStr "xcorr")); None; None; None; None; None; None; None; None; None; None] 25
(SSeq (SAssign 18 (ELen (EVar 0)))
(SSeq (SAssert (ECmp CLt (EVar 2) (EVar 18)))
(SSeq (SAssert (EOr (ECmp CEq (EVar 7) (EStr "CORRELATION")) (ECmp CEq (EVar 7) (EStr "xcorr"))))
(SSeq (SIf (EIsNone (EVar 1))
(SSeq (SAssign 1 (ECopy (EVar 0)))
(SAssign 19 (EBool false)))
(SAssign 19 (EBool true)))
(SSeq (SIf (EIsNone (EVar 5))
(SAssign 5 (EVar 18))
(SSkip))
(SSeq (SAssign 20 (EZeros (EVar 5) false))
(SSeq (SAssign 21 (EVar 8))
(SSeq (SAssign 21 (ESlice (EVar 21) (Some (EBin BAdd (EVar 2) (EInt 1))) None None))
(SSeq (SIf (ECmp CEq (EVar 7) (EStr "CORRELATION"))
(SCall1 22 6 [None; (Some ENone); (Some ENone); (Some (EStr "unbiased")); None; None] 16
(SSeq (SAssert (EOr (ECmp CEq (EVar 3) (EStr "unbiased")) (EOr (ECmp CEq (EVar 3) (EStr "biased")) (EOr (ECmp CEq (EVar 3) (EStr "coeff")) (ECmp CEq (EVar 3) ENone)))))
(SSeq (SAssign 0 (ECopy (EVar 0)))
(SSeq (SIf (EIsNone (EVar 1))
(SAssign 1 (EVar 0))
(SAssign 1 (ECopy (EVar 1))))
(SSeq (SAssign 6 (EMax (ELen (EVar 0)) (ELen (EVar 1))))
(SSeq (SIf (ECmp CLt (ELen (EVar 0)) (EVar 6))
(SSeq (SAssign 0 (ECopy (EVar 0)))
(SResize 0 (EVar 6)))
(SSkip))
(SSeq (SIf (ECmp CLt (ELen (EVar 1)) (EVar 6))
(SSeq (SAssign 1 (ECopy (EVar 1)))
(SResize 1 (EVar 6)))
(SSkip))
(SSeq (SIf (EIsNone (EVar 2))
(SAssign 2 (EBin BSub (EVar 6) (EInt 1)))
(SSkip))
(SSeq (SAssert (ECmp CLt (EVar 2) (EVar 6)))
(SSeq (SAssign 7 (EAnd (EIsRealObj (EVar 0)) (EIsRealObj (EVar 1))))
(SSeq (SIf (EIsBool true (EVar 7))
(SAssign 8 (EZeros (EVar 2) true))
(SAssign 8 (EZeros (EVar 2) false)))
(SSeq (SIf (ECmp CEq (EVar 3) (EStr "coeff"))
(SSeq (SAssign 9 (EVar 4))
(SAssign 10 (EVar 5)))
(SSkip))
(SSeq (SFor 11 (EInt 0) (EBin BAdd (EVar 2) (EInt 1)) (EInt 1)
(SSeq (SAssign 12 (EBin BSub (EBin BSub (EVar 6) (EVar 11)) (EInt 1)))
(SSeq (SIf (EIsBool true (EVar 7))
(SSeq (SAssign 13 (EInt 0))
(SFor 14 (EInt 0) (EBin BAdd (EVar 12) (EInt 1)) (EInt 1)
(SAssign 13 (EBin BAdd (EVar 13) (EBin BMul (EIndex (EVar 0) (EBin BAdd (EVar 14) (EVar 11))) (EIndex (EVar 1) (EVar 14)))))))
(SSeq (SAssign 13 (EBin BAdd (ELit 0 0) (ELit 0 0)))
(SFor 14 (EInt 0) (EBin BAdd (EVar 12) (EInt 1)) (EInt 1)
(SAssign 13 (EBin BAdd (EVar 13) (EBin BMul (EIndex (EVar 0) (EBin BAdd (EVar 14) (EVar 11))) (EConj (EIndex (EVar 1) (EVar 14)))))))))
(SIf (ECmp CEq (EVar 11) (EInt 0))
(SIf (EOr (ECmp CEq (EVar 3) (EStr "biased")) (ECmp CEq (EVar 3) (EStr "unbiased")))
(SAssign 15 (EBin BDiv (EVar 13) (EFloat (EVar 6))))
(SIf (EIsNone (EVar 3))
(SAssign 15 (EVar 13))
(SAssign 15 (ELit 1 0))))
(SIf (ECmp CEq (EVar 3) (EStr "unbiased"))
(SStore 8 (EBin BSub (EVar 11) (EInt 1)) (EBin BDiv (EVar 13) (EFloat (EBin BSub (EVar 6) (EVar 11)))))
(SIf (ECmp CEq (EVar 3) (EStr "biased"))
(SStore 8 (EBin BSub (EVar 11) (EInt 1)) (EBin BDiv (EVar 13) (EFloat (EVar 6))))
(SIf (EIsNone (EVar 3))
(SStore 8 (EBin BSub (EVar 11) (EInt 1)) (EVar 13))
(SIf (ECmp CEq (EVar 3) (EStr "coeff"))
(SStore 8 (EBin BSub (EVar 11) (EInt 1)) (EBin BDiv (EBin BDiv (EVar 13) (EBin BMul (EVar 9) (EVar 10))) (EFloat (EVar 6))))
(SSkip)))))))))
(SSeq (SAssign 8 (EInsert (EVar 8) (EInt 0) (EVar 15)))
(SReturn [(EVar 8)]))))))))))))))
[(Some (EVar 0)); (Some (EVar 1)); (Some (EVar 2)); (Some (EVar 4)); (Some (EVar 13)); (Some (EVar 14))])
(SIf (ECmp CEq (EVar 7) (EStr "xcorr"))
(SSeq (SSeq (SAssign 22 (EVar 9))
(SAssign 23 (EVar 10)))
(SAssign 22 (ESlice (EVar 22) (Some (EVar 2)) None None)))
(SSkip)))
(SSeq (SStore 20 (EInt 0) (EIndex (EVar 22) (EInt 0)))
(SSeq (SStoreSlice 20 (Some (EInt 1)) (Some (EBin BAdd (EVar 2) (EInt 1))) None (EBin BMul (ESlice (EVar 22) (Some (EInt 1)) None None) (EVar 21)))
(SSeq (SIf (EIsBool true (EVar 19))
(SSeq (SIf (ECmp CEq (EVar 7) (EStr "CORRELATION"))
(SCall1 24 6 [None; (Some ENone); (Some ENone); (Some (EStr "unbiased")); None; None] 16
(SSeq (SAssert (EOr (ECmp CEq (EVar 3) (EStr "unbiased")) (EOr (ECmp CEq (EVar 3) (EStr "biased")) (EOr (ECmp CEq (EVar 3) (EStr "coeff")) (ECmp CEq (EVar 3) ENone)))))
(SSeq (SAssign 0 (ECopy (EVar 0)))
(SSeq (SIf (EIsNone (EVar 1))
(SAssign 1 (EVar 0))
(SAssign 1 (ECopy (EVar 1))))
(SSeq (SAssign 6 (EMax (ELen (EVar 0)) (ELen (EVar 1))))
(SSeq (SIf (ECmp CLt (ELen (EVar 0)) (EVar 6))
(SSeq (SAssign 0 (ECopy (EVar 0)))
(SResize 0 (EVar 6)))
(SSkip))
(SSeq (SIf (ECmp CLt (ELen (EVar 1)) (EVar 6))
(SSeq (SAssign 1 (ECopy (EVar 1)))
(SResize 1 (EVar 6)))
(SSkip))
(SSeq (SIf (EIsNone (EVar 2))
(SAssign 2 (EBin BSub (EVar 6) (EInt 1)))
(SSkip))
(SSeq (SAssert (ECmp CLt (EVar 2) (EVar 6)))
(SSeq (SAssign 7 (EAnd (EIsRealObj (EVar 0)) (EIsRealObj (EVar 1))))
(SSeq (SIf (EIsBool true (EVar 7))
(SAssign 8 (EZeros (EVar 2) true))
(SAssign 8 (EZeros (EVar 2) false)))
(SSeq (SIf (ECmp CEq (EVar 3) (EStr "coeff"))
(SSeq (SAssign 9 (EVar 4))
(SAssign 10 (EVar 5)))
(SSkip))
(SSeq (SFor 11 (EInt 0) (EBin BAdd (EVar 2) (EInt 1)) (EInt 1)
(SSeq (SAssign 12 (EBin BSub (EBin BSub (EVar 6) (EVar 11)) (EInt 1)))
(SSeq (SIf (EIsBool true (EVar 7))
(SSeq (SAssign 13 (EInt 0))
(SFor 14 (EInt 0) (EBin BAdd (EVar 12) (EInt 1)) (EInt 1)
(SAssign 13 (EBin BAdd (EVar 13) (EBin BMul (EIndex (EVar 0) (EBin BAdd (EVar 14) (EVar 11))) (EIndex (EVar 1) (EVar 14)))))))
(SSeq (SAssign 13 (EBin BAdd (ELit 0 0) (ELit 0 0)))
(SFor 14 (EInt 0) (EBin BAdd (EVar 12) (EInt 1)) (EInt 1)
(SAssign 13 (EBin BAdd (EVar 13) (EBin BMul (EIndex (EVar 0) (EBin BAdd (EVar 14) (EVar 11))) (EConj (EIndex (EVar 1) (EVar 14)))))))))
(SIf (ECmp CEq (EVar 11) (EInt 0))
(SIf (EOr (ECmp CEq (EVar 3) (EStr "biased")) (ECmp CEq (EVar 3) (EStr "unbiased")))
(SAssign 15 (EBin BDiv (EVar 13) (EFloat (EVar 6))))
(SIf (EIsNone (EVar 3))
(SAssign 15 (EVar 13))
(SAssign 15 (ELit 1 0))))
(SIf (ECmp CEq (EVar 3) (EStr "unbiased"))
(SStore 8 (EBin BSub (EVar 11) (EInt 1)) (EBin BDiv (EVar 13) (EFloat (EBin BSub (EVar 6) (EVar 11)))))
(SIf (ECmp CEq (EVar 3) (EStr "biased"))
(SStore 8 (EBin BSub (EVar 11) (EInt 1)) (EBin BDiv (EVar 13) (EFloat (EVar 6))))
(SIf (EIsNone (EVar 3))
(SStore 8 (EBin BSub (EVar 11) (EInt 1)) (EVar 13))
(SIf (ECmp CEq (EVar 3) (EStr "coeff"))
(SStore 8 (EBin BSub (EVar 11) (EInt 1)) (EBin BDiv (EBin BDiv (EVar 13) (EBin BMul (EVar 9) (EVar 10))) (EFloat (EVar 6))))
(SSkip)))))))))
(SSeq (SAssign 8 (EInsert (EVar 8) (EInt 0) (EVar 15)))
(SReturn [(EVar 8)]))))))))))))))
[(Some (EVar 1)); (Some (EVar 0)); (Some (EVar 2)); (Some (EVar 4)); (Some (EVar 15)); (Some (EVar 16))])
(SIf (ECmp CEq (EVar 7) (EStr "xcorr"))
(SSeq (SSeq (SAssign 24 (EVar 11))
(SAssign 23 (EVar 12)))
(SAssign 24 (ESlice (EVar 24) (Some (EVar 2)) None None)))
(SSkip)))
(SStoreSlice 20 (Some (ENeg (EInt 1))) (Some (EBin BSub (EBin BSub (EVar 5) (EVar 2)) (EInt 1))) (Some (ENeg (EInt 1))) (EBin BMul (EConj (ESlice (EVar 24) (Some (EInt 1)) None None)) (EVar 21))))
(SStoreSlice 20 (Some (ENeg (EInt 1))) (Some (EBin BSub (EBin BSub (EVar 5) (EVar 2)) (EInt 1))) (Some (ENeg (EInt 1))) (EBin BMul (EConj (ESlice (EVar 22) (Some (EInt 1)) None None)) (EVar 21))))
(SSeq (SAssign 20 (EReal (EFft (EVar 20) None (EVar 17))))
(SReturn [(EVar 20)])))))))))))))).

(* END GENERATED CORRELOGRAMPSD *)
Example prog_CORRELOGRAMPSD_ref_is_generated : prog_CORRELOGRAMPSD_ref = prog_CORRELOGRAMPSD_gen0.
Proof. reflexivity. Qed.

Print Assumptions correlogram_ir_run.
Print Assumptions correlogram_ir_run_correlation.
Print Assumptions correlogram_ir_run_xcorr.
Print Assumptions correlogram_ir_tie.
