(* aryule: the IR program generated from yulewalker.py - with the programs of CORRELATION (correlation.py) and LEVINSON (levinson.py)
   embedded as calls - computes the hand-written model Model.Yule.aryule, for ALL inputs: a theorem obtained by COMPOSING
   [correlation_ir_run] (Proofs/LoopIRCorrelation.v) and [levinson_ir_run] (Proofs/LoopIRLevinson.v) through the semantics of
   [SCall1] / [SCall].

   [prog_aryule_ref] is the loop-IR program that tools/props/_loopir.py generates from the source of spectrum.yulewalker.aryule at
   the commit this file was written for (kept verbatim below as [prog_aryule_gen0], between the BEGIN/END markers, and proved equal
   to the decomposed definition by reflexivity: the two embedded callee bodies ARE [p_body prog_CORRELATION_ref] and
   [p_body prog_LEVINSON_ref]).  On every run the check regenerates the program; if its text is the one below, the generated file
   proves [prog_aryule = prog_aryule_ref] by reflexivity and instantiates the theorems of this file.  The text contains the texts
   of CORRELATION and LEVINSON: an edit of either of them makes the theorems inapplicable (reported as broken obligations).

   Arguments as the tie passes them (Model/LoopIRWrap.tie_aryule): X with its dtype tag, order a natural number, norm omitted or
   any string, allow_singularity omitted or a bool, any two field values in the hidden oracle slots (the pylab_rms_flat results of
   the embedded CORRELATION, never read: norm is 'biased' or 'unbiased').

   PROVED (abstract field with conjugation [Laws]; any X - the empty one included -, any order):
     scall1_run, scall_run   the semantics of a call in terms of [run] of the callee's program (generic)
     aryule_ir_run c         run prog_aryule_ref (X tagged [negb c]) = [garyule c]: norm not in {'biased','unbiased'} -> AssertionError;
                             order >= len(X) -> AssertionError (the assertion of CORRELATION); the recursion meets P <= 0 with
                             allow_singularity False -> ValueError; else ORet [A; P; k] tagged [negb c], where [garyule c] is the model with
                             [conj] replaced by [cj c] (c = false: what the float branches of CORRELATION and LEVINSON compute)
     aryule_ir_complex       complex dtype: run = Model.Yule.aryule (unconditionally; allow_singularity omitted = True included)
     aryule_ir_real          float dtype: run = Model.Yule.aryule for real-valued X, allow_singularity=False, provided the autocorrelation
                             the model computes is real-valued with a positive lag 0 (in an ordered field this follows from X real, X <> 0;
                             it is a hypothesis here because [Laws] does not give  ofnat N <> 0)
     aryule_ir_tie           for every reflexive [feq]: the boolean [tie_aryule] of the exact evaluation tie is true for every
                             complex-tagged input (so a sampled exact case with the complex tag can never fail for this text)
   NOT PROVED: float dtype with allow_singularity True / omitted (the default!) or a non-positive lag 0: the float branch of LEVINSON
   divides by a P that may be 0 and the abstract field does not determine conj (x/0) (as for LEVINSON itself, T1): exact evaluation only. *)
From Coq Require Import String ZArith List Lia Bool.
Require Import Spectrum.Theory.Ops Spectrum.Theory.Sum Spectrum.Theory.Vec Spectrum.Model.LoopIR Spectrum.Model.Levinson Spectrum.Model.Corr
               Spectrum.Model.Yule Spectrum.Model.LoopIRTie Spectrum.Model.LoopIRWrap Spectrum.Proofs.LoopIRLevinson Spectrum.Proofs.LoopIRCorrelation.
Import ListNotations.
Local Open Scope string_scope.

(* ---------------------------------------------------------------- the program, decomposed *)
Definition ary_assert : stmt :=
  SAssert (EOr (ECmp CEq (EVar 2) (EStr "biased")) (ECmp CEq (EVar 2) (EStr "unbiased"))).
Definition ary_corr : stmt :=
  SCall1 6 (p_nparams prog_CORRELATION_ref) (p_defaults prog_CORRELATION_ref) (p_nslots prog_CORRELATION_ref) (p_body prog_CORRELATION_ref)
         [Some (EVar 0); None; Some (EVar 1); Some (EVar 2); Some (EVar 4); Some (EVar 5)].
Definition ary_lev : stmt :=
  SCall [7%nat; 8%nat; 9%nat] (p_nparams prog_LEVINSON_ref) (p_defaults prog_LEVINSON_ref) (p_nslots prog_LEVINSON_ref) (p_body prog_LEVINSON_ref)
        [Some (EVar 6); None; Some (EVar 3)].
Definition ary_bind : stmt := SSeq (SAssign 10 (EVar 7)) (SSeq (SAssign 11 (EVar 8)) (SAssign 12 (EVar 9))).
Definition ary_ret : stmt := SReturn [EVar 10; EVar 11; EVar 12].
Definition ary_main : stmt := SSeq ary_assert (SSeq ary_corr (SSeq (SSeq ary_lev ary_bind) ary_ret)).
Definition prog_aryule_ref : program :=
  mkProgram "aryule" 6 [None; None; (Some (EStr "biased")); (Some (EBool true)); None; None] 13 ary_main.

(* ---------------------------------------------------------------- a call in terms of [run] of the callee *)
Section Calls.
Context {F : Type} {OF : Ops F}.
Variable feq : F -> F -> bool.
Variable stop : Z -> F -> F -> bool.
Notation value := (@value F).
Notation store := (@store F).
Notation exec := (@exec F OF feq stop).

Lemma scall1_run dst (p : program) args (st : store) vs :
  eval_oargs feq st args = inl vs ->
  exec (SCall1 dst (p_nparams p) (p_defaults p) (p_nslots p) (p_body p) args) st =
  match run feq stop p vs with
  | ORet [r] => (set st dst r, CNormal)
  | ORet _ => (st, CErr Unsupported)
  | OErr e => (st, CErr e)
  end.
Proof.
  intros H. cbn [LoopIR.exec]. rewrite H. unfold run. cbn [bind].
  destruct (bind_args feq (p_defaults p) vs) as [vals|e]; cbn [try]; [|reflexivity].
  destruct (LoopIR.exec feq stop (p_body p) (vals ++ repeat VUnbound (p_nslots p - p_nparams p))%list) as [s c].
  destruct c as [| | |rs|e]; reflexivity.
Qed.

Lemma scall_run dsts (p : program) args (st : store) vs :
  eval_oargs feq st args = inl vs -> (2 <= length dsts)%nat ->
  match run feq stop p vs with
  | ORet rs => length rs = length dsts ->
               exec (SCall dsts (p_nparams p) (p_defaults p) (p_nslots p) (p_body p) args) st = (set_all st dsts rs, CNormal)
  | OErr e => exec (SCall dsts (p_nparams p) (p_defaults p) (p_nslots p) (p_body p) args) st = (st, CErr e)
  end.
Proof.
  intros H H2. cbn [LoopIR.exec]. rewrite H. unfold run. cbn [bind].
  destruct (bind_args feq (p_defaults p) vs) as [vals|e]; cbn [try]; [|reflexivity].
  destruct (LoopIR.exec feq stop (p_body p) (vals ++ repeat VUnbound (p_nslots p - p_nparams p))%list) as [s c].
  destruct c as [| | |rs|e]; try reflexivity.
  - cbn [length]. intros E. exfalso. lia.
  - intros E. rewrite E, Nat.eqb_refl. cbn [andb].
    replace (2 <=? length dsts)%nat with true by (symmetry; apply Nat.leb_le; exact H2). reflexivity.
Qed.
End Calls.

(* ---------------------------------------------------------------- the model with [cj c] in place of [conj] *)
Section GModel.
Context {F : Type} {OF : Ops F}.
Variable feq : F -> F -> bool.
Local Open Scope F_scope.

Definition garyule (c : bool) (rp : F) (x : list F) (order : nat) (nm : cnorm) (allow : bool) : @yw_result F :=
  match nm with
  | Biased | Unbiased =>
      match gcorrelation c rp x x order nm with
      | None => inl YAssert
      | Some r => match glevinson c r (length r - 1) allow with
                  | None => inl YSingular
                  | Some st => inr st
                  end
      end
  | _ => inl YAssert
  end.

Definition yw_outcome (t : bool) (res : @yw_result F) : @outcome F :=
  match res with
  | inr (a, p, k) => ORet [VArr t a; VF p; VArr t k]
  | inl YAssert => OErr AssertionError
  | inl YSingular => OErr ValueError
  end.

(* for 'biased' / 'unbiased' the product of the rms values is not read *)
Lemma gcorrelation_rp c rp rp' (x y : list F) ml nm : (nm = Biased \/ nm = Unbiased) ->
  gcorrelation c rp x y ml nm = gcorrelation c rp' x y ml nm.
Proof.
  intros H. unfold gcorrelation. destruct (ml <? Nat.max (length x) (length y))%nat; [|reflexivity].
  f_equal. apply mk_ext. intros k _. unfold gentry, nentry. destruct H as [-> | ->]; destruct k; reflexivity.
Qed.

Lemma garyule_true rp x order nm allow : garyule true rp x order nm allow = aryule x order nm allow.
Proof.
  unfold garyule, aryule, acorr.
  destruct nm; try reflexivity.
  - rewrite (gcorrelation_rp true rp (mean_pow x)) by (left; reflexivity). rewrite gcorrelation_true.
    destruct (correlation (mean_pow x) x x order Biased) as [r|]; [|reflexivity]. rewrite glevinson_true. reflexivity.
  - rewrite (gcorrelation_rp true rp (mean_pow x)) by (right; reflexivity). rewrite gcorrelation_true.
    destruct (correlation (mean_pow x) x x order Unbiased) as [r|]; [|reflexivity]. rewrite glevinson_true. reflexivity.
Qed.
End GModel.

(* ---------------------------------------------------------------- the composition *)
Section Main.
Context {F : Type} {OF : Ops F} {L : Laws OF}.
Variable feq : F -> F -> bool.
Variable stop : Z -> F -> F -> bool.
Local Open Scope F_scope.
Notation value := (@value F).
Notation store := (@store F).
Notation exec := (@exec F OF feq stop).

Add Field FFary : (fth (O:=OF)).

(* the float branch of LEVINSON on a real-valued sequence with a positive lag 0, allow_singularity False: the model *)
Lemma glevinson_false_real (r : list F) (order : nat) :
  isrealL r -> le0 (re (nthF r 0)) = false -> glevinson false r order false = levinson r order false.
Proof.
  intros Rr Pr. unfold glevinson, levinson. destruct (order <=? length r - 1)%nat; [|reflexivity].
  apply glev_iter_real; [intros j; rewrite !nth_tl; apply Rr| |exact Pr].
  unfold re. rewrite conj_div by (apply two_neq_0). rewrite conj_add, conj_conj. unfold two. rewrite conj_add, conj_1.
  f_equal. ring.
Qed.

Definition cn_str (cn : cnorm) : string := match cn with Biased => "biased" | Unbiased => "unbiased" | Coeff => "coeff" | NoNorm => "none" end.

(* the store after the argument binding: X, order, norm, allow_singularity, the two oracle slots; r, three results, A, P, k unbound *)
Definition ast (t : bool) (x : list F) (order : nat) (s : string) (al : bool) (o1 o2 : F) (v6 v7 v8 v9 : value) : store :=
  [VArr t x; VI (Z.of_nat order); VStr s; VB al; VF o1; VF o2; v6; v7; v8; v9; VUnbound; VUnbound; VUnbound].

Lemma ary_assert_ok t x order s al o1 o2 :
  String.eqb s "biased" || String.eqb s "unbiased" = true ->
  exec ary_assert (ast t x order s al o1 o2 VUnbound VUnbound VUnbound VUnbound)
  = (ast t x order s al o1 o2 VUnbound VUnbound VUnbound VUnbound, CNormal).
Proof.
  intros H. unfold ary_assert, ast.
  cbn [LoopIR.exec eval get nth bind try compare eqne truthy ok].
  destruct (String.eqb s "biased"); cbn [truthy bind ok try].
  - reflexivity.
  - cbn [orb] in H. rewrite H. reflexivity.
Qed.

Lemma ary_assert_bad t x order s al o1 o2 :
  String.eqb s "biased" || String.eqb s "unbiased" = false ->
  exec ary_assert (ast t x order s al o1 o2 VUnbound VUnbound VUnbound VUnbound)
  = (ast t x order s al o1 o2 VUnbound VUnbound VUnbound VUnbound, CErr AssertionError).
Proof.
  intros H. unfold ary_assert, ast. apply orb_false_elim in H. destruct H as [H1 H2].
  cbn [LoopIR.exec eval get nth bind try compare eqne truthy ok].
  rewrite H1. cbn [truthy bind ok try]. rewrite H2. reflexivity.
Qed.

(* the call of CORRELATION: r is bound, or the AssertionError of [assert maxlags < N] propagates *)
Lemma ary_corr_ok c x order cn al o1 o2 : (cn = Biased \/ cn = Unbiased) ->
  exec ary_corr (ast (negb c) x order (cn_str cn) al o1 o2 VUnbound VUnbound VUnbound VUnbound) =
  match gcorrelation c (o1 * o2) x x order cn with
  | Some r => (ast (negb c) x order (cn_str cn) al o1 o2 (VArr (negb c) r) VUnbound VUnbound VUnbound, CNormal)
  | None => (ast (negb c) x order (cn_str cn) al o1 o2 VUnbound VUnbound VUnbound VUnbound, CErr AssertionError)
  end.
Proof.
  intros Hcn. unfold ary_corr.
  rewrite (scall1_run feq stop 6 prog_CORRELATION_ref _ _
             [Some (VArr (negb c) x); None; Some (VI (Z.of_nat order)); Some (VStr (cn_str cn)); Some (VF o1); Some (VF o2)]) by reflexivity.
  pose proof (correlation_ir_run feq stop (negb c) x None (Some (Z.of_nat order)) (Some (Some (cn_str cn))) o1 o2) as H.
  cbv zeta in H. cbn [option_map] in H. rewrite H. clear H.
  unfold corr_outcome. rewrite andb_diag, negb_involutive.
  replace (norm_of (Some (Some (cn_str cn)))) with (Some cn) by (destruct Hcn as [-> | ->]; reflexivity).
  replace (Z.of_nat order <? 0)%Z with false by (symmetry; apply Z.ltb_ge; lia).
  rewrite Nat2Z.id.
  destruct (gcorrelation c (o1 * o2) x x order cn) as [r|]; reflexivity.
Qed.

Lemma gcorrelation_nonempty c rp (x y : list F) ml cn r : gcorrelation c rp x y ml cn = Some r -> r <> [] /\ length r = S ml.
Proof.
  unfold gcorrelation. destruct (ml <? Nat.max (length x) (length y))%nat; [|discriminate].
  intros H. inversion H; subst. split; [|apply mk_length].
  intros E. apply (f_equal (@length F)) in E. rewrite mk_length in E. discriminate.
Qed.

(* the call of LEVINSON on r (order omitted, allow_singularity passed on), the three assignments and the return *)
Lemma ary_lev_ok c x order s al o1 o2 (r : list F) : r <> [] ->
  exec (SSeq (SSeq ary_lev ary_bind) ary_ret) (ast (negb c) x order s al o1 o2 (VArr (negb c) r) VUnbound VUnbound VUnbound) =
  match glevinson c r (length r - 1) al with
  | Some (A, P, ks) =>
      ([VArr (negb c) x; VI (Z.of_nat order); VStr s; VB al; VF o1; VF o2; VArr (negb c) r;
        VArr (negb c) A; VF P; VArr (negb c) ks; VArr (negb c) A; VF P; VArr (negb c) ks],
       CRet [VArr (negb c) A; VF P; VArr (negb c) ks])
  | None => (ast (negb c) x order s al o1 o2 (VArr (negb c) r) VUnbound VUnbound VUnbound, CErr ValueError)
  end.
Proof.
  intros Hr.
  pose proof (scall_run feq stop [7%nat; 8%nat; 9%nat] prog_LEVINSON_ref [Some (EVar 6); None; Some (EVar 3)]
                (ast (negb c) x order s al o1 o2 (VArr (negb c) r) VUnbound VUnbound VUnbound)
                [Some (VArr (negb c) r); None; Some (VB al)] eq_refl (le_S _ _ (le_n 2))) as H.
  pose proof (levinson_ir_run feq stop c r None (Some al) Hr) as HL. cbv zeta in HL. cbn [option_map] in HL.
  rewrite HL in H. clear HL. rewrite Nat.leb_refl in H. fold ary_lev in H.
  destruct (glevinson c r (length r - 1) al) as [[[A P] ks]|].
  - specialize (H eq_refl).
    rewrite (exec_seq feq stop (SSeq ary_lev ary_bind) ary_ret _
               [VArr (negb c) x; VI (Z.of_nat order); VStr s; VB al; VF o1; VF o2; VArr (negb c) r;
                VArr (negb c) A; VF P; VArr (negb c) ks; VArr (negb c) A; VF P; VArr (negb c) ks]).
    + reflexivity.
    + rewrite (exec_seq feq stop ary_lev ary_bind _ _ H). reflexivity.
  - assert (H2 : exec (SSeq ary_lev ary_bind) (ast (negb c) x order s al o1 o2 (VArr (negb c) r) VUnbound VUnbound VUnbound)
                 = (ast (negb c) x order s al o1 o2 (VArr (negb c) r) VUnbound VUnbound VUnbound, CErr ValueError)).
    { rewrite (exec_seq_stop feq stop ary_lev ary_bind _ _ (CErr ValueError) H) by discriminate. reflexivity. }
    rewrite (exec_seq_stop feq stop _ ary_ret _ _ (CErr ValueError) H2) by discriminate. reflexivity.
Qed.

Theorem aryule_ir_run c (x : list F) (order : nat) (nm : option string) (allow : option bool) (o1 o2 : F) :
  let al := match allow with Some b => b | None => true end in
  run feq stop prog_aryule_ref (aryule_args (negb c) x order nm allow o1 o2) =
  match yw_norm nm with
  | None => OErr AssertionError
  | Some cn => yw_outcome (negb c) (garyule c (o1 * o2) x order cn al)
  end.
Proof.
  intros al.
  set (s := match nm with Some s => s | None => "biased" end).
  unfold run, prog_aryule_ref, aryule_args. cbn [p_defaults p_body p_nslots p_nparams Nat.sub].
  assert (B : bind_args feq [None; None; Some (EStr "biased"); Some (EBool true); None; None]
                [Some (VArr (negb c) x); Some (vint order); option_map VStr nm; option_map VB allow; Some (VF o1); Some (VF o2)]
              = inl [VArr (negb c) x; VI (Z.of_nat order); VStr s; VB al; VF o1; VF o2]).
  { unfold s, al. destruct nm, allow; reflexivity. }
  rewrite B. clear B. cbn [app repeat].
  change ([VArr (negb c) x; VI (Z.of_nat order); VStr s; VB al; VF o1; VF o2; VUnbound; VUnbound; VUnbound; VUnbound; VUnbound; VUnbound; VUnbound])
    with (ast (negb c) x order s al o1 o2 VUnbound VUnbound VUnbound VUnbound).
  assert (Y : yw_norm nm = if String.eqb s "biased" then Some Biased else if String.eqb s "unbiased" then Some Unbiased else None).
  { unfold s. destruct nm; reflexivity. }
  rewrite Y. clear Y. unfold ary_main.
  destruct (String.eqb s "biased") eqn:E1; [|destruct (String.eqb s "unbiased") eqn:E2].
  - (* biased *)
    apply String.eqb_eq in E1. change "biased" with (cn_str Biased) in E1. rewrite E1.
    rewrite (exec_seq feq stop ary_assert _ _ _ (ary_assert_ok (negb c) x order (cn_str Biased) al o1 o2 eq_refl)).
    pose proof (ary_corr_ok c x order Biased al o1 o2 (or_introl eq_refl)) as HC.
    unfold garyule.
    destruct (gcorrelation c (o1 * o2) x x order Biased) as [r|] eqn:Eg.
    + rewrite (exec_seq feq stop ary_corr _ _ _ HC).
      destruct (gcorrelation_nonempty _ _ _ _ _ _ _ Eg) as [Hr _].
      rewrite (ary_lev_ok c x order (cn_str Biased) al o1 o2 r Hr).
      destruct (glevinson c r (length r - 1) al) as [[[A P] ks]|]; reflexivity.
    + rewrite (exec_seq_stop feq stop ary_corr _ _ _ (CErr AssertionError) HC) by discriminate. reflexivity.
  - (* unbiased *)
    apply String.eqb_eq in E2. change "unbiased" with (cn_str Unbiased) in E2. rewrite E2.
    rewrite (exec_seq feq stop ary_assert _ _ _ (ary_assert_ok (negb c) x order (cn_str Unbiased) al o1 o2 eq_refl)).
    pose proof (ary_corr_ok c x order Unbiased al o1 o2 (or_intror eq_refl)) as HC.
    unfold garyule.
    destruct (gcorrelation c (o1 * o2) x x order Unbiased) as [r|] eqn:Eg.
    + rewrite (exec_seq feq stop ary_corr _ _ _ HC).
      destruct (gcorrelation_nonempty _ _ _ _ _ _ _ Eg) as [Hr _].
      rewrite (ary_lev_ok c x order (cn_str Unbiased) al o1 o2 r Hr).
      destruct (glevinson c r (length r - 1) al) as [[[A P] ks]|]; reflexivity.
    + rewrite (exec_seq_stop feq stop ary_corr _ _ _ (CErr AssertionError) HC) by discriminate. reflexivity.
  - (* any other string: the assertion of aryule *)
    rewrite (exec_seq_stop feq stop ary_assert _ _ _ (CErr AssertionError) (ary_assert_bad (negb c) x order s al o1 o2 (eq_trans (f_equal2 orb E1 E2) eq_refl)))
      by discriminate.
    reflexivity.
Qed.

(* the outcome of the hand-written model *)
Definition aryule_model_outcome (t : bool) (x : list F) (order : nat) (nm : option string) (allow : option bool) : @outcome F :=
  match yw_norm nm with
  | None => OErr AssertionError
  | Some cn => yw_outcome t (aryule x order cn (match allow with Some b => b | None => true end))
  end.

(* complex dtype: the hand-written model itself, unconditionally *)
Theorem aryule_ir_complex (x : list F) (order : nat) (nm : option string) (allow : option bool) (o1 o2 : F) :
  run feq stop prog_aryule_ref (aryule_args false x order nm allow o1 o2) = aryule_model_outcome false x order nm allow.
Proof.
  pose proof (aryule_ir_run true x order nm allow o1 o2) as H. cbv zeta in H. cbn [negb] in H. rewrite H.
  unfold aryule_model_outcome. destruct (yw_norm nm); [|reflexivity]. rewrite garyule_true. reflexivity.
Qed.

(* float dtype *)
Theorem aryule_ir_real (x : list F) (order : nat) (nm : option string) (o1 o2 : F) :
  isrealL x ->
  (forall cn r, yw_norm nm = Some cn -> acorr x order cn = Some r -> isrealL r /\ le0 (re (nthF r 0)) = false) ->
  run feq stop prog_aryule_ref (aryule_args true x order nm (Some false) o1 o2) = aryule_model_outcome true x order nm (Some false).
Proof.
  intros Rx Hr.
  pose proof (aryule_ir_run false x order nm (Some false) o1 o2) as H. cbv zeta in H. cbn [negb] in H. rewrite H. clear H.
  unfold aryule_model_outcome. destruct (yw_norm nm) as [cn|] eqn:En; [|reflexivity].
  f_equal. specialize (Hr cn).
  assert (Hcn : cn = Biased \/ cn = Unbiased).
  { unfold yw_norm in En. destruct nm as [s|]; [|inversion En; left; reflexivity].
    destruct (String.eqb s "biased"); [inversion En; left; reflexivity|].
    destruct (String.eqb s "unbiased"); [inversion En; right; reflexivity|discriminate]. }
  unfold garyule, aryule, acorr in *.
  rewrite (gcorrelation_rp false (o1 * o2) (mean_pow x)) by exact Hcn.
  rewrite gcorrelation_false by exact Rx.
  destruct Hcn as [-> | ->].
  - destruct (correlation (mean_pow x) x x order Biased) as [r|] eqn:Ec; [|reflexivity].
    destruct (Hr r eq_refl eq_refl) as [Rr Pr].
    rewrite (glevinson_false_real r _ Rr Pr). reflexivity.
  - destruct (correlation (mean_pow x) x x order Unbiased) as [r|] eqn:Ec; [|reflexivity].
    destruct (Hr r eq_refl eq_refl) as [Rr Pr].
    rewrite (glevinson_false_real r _ Rr Pr). reflexivity.
Qed.
End Main.

(* ---------------------------------------------------------------- the boolean of the exact evaluation tie *)
Section TieTrue.
Context {F : Type} {OF : Ops F} {L : Laws OF}.
Variable feq : F -> F -> bool.
Hypothesis feq_refl : forall a, feq a a = true.

Theorem aryule_ir_tie (x : list F) (order : nat) (nm : option string) (allow : option bool) (o1 o2 : F) :
  tie_aryule feq prog_aryule_ref false x order nm allow o1 o2 = true.
Proof.
  unfold tie_aryule.
  rewrite (aryule_ir_complex feq (@nostop F) x order nm allow o1 o2). unfold aryule_model_outcome.
  destruct (yw_norm nm) as [cn|]; [|reflexivity].
  destruct (aryule x order cn match allow with Some b => b | None => true end) as [[|]|[[a p] k]]; try reflexivity.
  cbn [yw_outcome Bool.eqb andb]. rewrite !(leq_refl feq feq_refl), feq_refl. reflexivity.
Qed.
End TieTrue.

(* BEGIN GENERATED aryule (verbatim output of tools/props/_loopir.py for spectrum.yulewalker.aryule) *)
(* aryule: slots 0=X 1=order 2=norm 3=allow_singularity 4=CORRELATION.pylab_rms_flat(x)@0#0 5=CORRELATION.pylab_rms_flat(y)@1#1 6=r 7=LEVINSON@ret0#7 8=LEVINSON@ret1#8 9=LEVINSON@ret2#9 10=A 11=P 12=k *)
Definition prog_aryule_gen0 : program := mkProgram "aryule" 6 [None; None; (Some (EStr "biased")); (Some (EBool true)); None; None] 13
(SSeq (SAssert (EOr (ECmp CEq (EVar 2) (EStr "biased")) (ECmp CEq (EVar 2) (EStr "unbiased"))))
(SSeq (SCall1 6 6 [None; (Some ENone); (Some ENone); (Some (EStr "unbiased")); None; None] 16
(SSeq (SAssert (EOr (ECmp CEq (EVar 3) (EStr "unbiased")) (EOr (ECmp CEq (EVar 3) (EStr "biased")) (EOr (ECmp CEq (EVar 3) (EStr "coeff")) (ECmp CEq (EVar 3) ENone)))))
(SSeq (SAssign 0 (ECopy (EVar 0)))
(SSeq (SIf (EIsNone (EVar 1))
(SAssign 1 (EVar 0))
(SAssign 1 (ECopy (EVar 1))))
(SSeq (SAssign 6 (EMax (ELen (EVar 0)) (ELen (EVar 1))))
(SSeq (SIf (ECmp CLt (ELen (EVar 0)) (EVar 6))
(SSeq (SAssign 0 (ECopy (EVar 0)))
(SResize 0 (EVar 6)))
(SSkip))
(SSeq (SIf (ECmp CLt (ELen (EVar 1)) (EVar 6))
(SSeq (SAssign 1 (ECopy (EVar 1)))
(SResize 1 (EVar 6)))
(SSkip))
(SSeq (SIf (EIsNone (EVar 2))
(SAssign 2 (EBin BSub (EVar 6) (EInt 1)))
(SSkip))
(SSeq (SAssert (ECmp CLt (EVar 2) (EVar 6)))
(SSeq (SAssign 7 (EAnd (EIsRealObj (EVar 0)) (EIsRealObj (EVar 1))))
(SSeq (SIf (EIsBool true (EVar 7))
(SAssign 8 (EZeros (EVar 2) true))
(SAssign 8 (EZeros (EVar 2) false)))
(SSeq (SIf (ECmp CEq (EVar 3) (EStr "coeff"))
(SSeq (SAssign 9 (EVar 4))
(SAssign 10 (EVar 5)))
(SSkip))
(SSeq (SFor 11 (EInt 0) (EBin BAdd (EVar 2) (EInt 1)) (EInt 1)
(SSeq (SAssign 12 (EBin BSub (EBin BSub (EVar 6) (EVar 11)) (EInt 1)))
(SSeq (SIf (EIsBool true (EVar 7))
(SSeq (SAssign 13 (EInt 0))
(SFor 14 (EInt 0) (EBin BAdd (EVar 12) (EInt 1)) (EInt 1)
(SAssign 13 (EBin BAdd (EVar 13) (EBin BMul (EIndex (EVar 0) (EBin BAdd (EVar 14) (EVar 11))) (EIndex (EVar 1) (EVar 14)))))))
(SSeq (SAssign 13 (EBin BAdd (ELit 0 0) (ELit 0 0)))
(SFor 14 (EInt 0) (EBin BAdd (EVar 12) (EInt 1)) (EInt 1)
(SAssign 13 (EBin BAdd (EVar 13) (EBin BMul (EIndex (EVar 0) (EBin BAdd (EVar 14) (EVar 11))) (EConj (EIndex (EVar 1) (EVar 14)))))))))
(SIf (ECmp CEq (EVar 11) (EInt 0))
(SIf (EOr (ECmp CEq (EVar 3) (EStr "biased")) (ECmp CEq (EVar 3) (EStr "unbiased")))
(SAssign 15 (EBin BDiv (EVar 13) (EFloat (EVar 6))))
(SIf (EIsNone (EVar 3))
(SAssign 15 (EVar 13))
(SAssign 15 (ELit 1 0))))
(SIf (ECmp CEq (EVar 3) (EStr "unbiased"))
(SStore 8 (EBin BSub (EVar 11) (EInt 1)) (EBin BDiv (EVar 13) (EFloat (EBin BSub (EVar 6) (EVar 11)))))
(SIf (ECmp CEq (EVar 3) (EStr "biased"))
(SStore 8 (EBin BSub (EVar 11) (EInt 1)) (EBin BDiv (EVar 13) (EFloat (EVar 6))))
(SIf (EIsNone (EVar 3))
(SStore 8 (EBin BSub (EVar 11) (EInt 1)) (EVar 13))
(SIf (ECmp CEq (EVar 3) (EStr "coeff"))
(SStore 8 (EBin BSub (EVar 11) (EInt 1)) (EBin BDiv (EBin BDiv (EVar 13) (EBin BMul (EVar 9) (EVar 10))) (EFloat (EVar 6))))
(SSkip)))))))))
(SSeq (SAssign 8 (EInsert (EVar 8) (EInt 0) (EVar 15)))
(SReturn [(EVar 8)]))))))))))))))
[(Some (EVar 0)); None; (Some (EVar 1)); (Some (EVar 2)); (Some (EVar 4)); (Some (EVar 5))])
(SSeq (SSeq (SCall [7%nat; 8%nat; 9%nat] 3 [None; (Some ENone); (Some (EBool false))] 16
(SSeq (SAssign 3 (EReal (EIndex (EVar 0) (EInt 0))))
(SSeq (SAssign 4 (ESlice (EVar 0) (Some (EInt 1)) None None))
(SSeq (SAssign 5 (ELen (EVar 4)))
(SSeq (SIf (EIsNone (EVar 1))
(SAssign 5 (ELen (EVar 4)))
(SSeq (SAssert (ECmp CLe (EVar 1) (EVar 5)))
(SAssign 5 (EVar 1))))
(SSeq (SAssign 6 (EIsRealObj (EVar 0)))
(SSeq (SIf (EIsBool true (EVar 6))
(SSeq (SAssign 7 (EZeros (EVar 5) true))
(SAssign 8 (EZeros (EVar 5) true)))
(SSeq (SAssign 7 (EZeros (EVar 5) false))
(SAssign 8 (EZeros (EVar 5) false))))
(SSeq (SAssign 9 (EVar 3))
(SSeq (SFor 10 (EInt 0) (EVar 5) (EInt 1)
(SSeq (SAssign 11 (EIndex (EVar 4) (EVar 10)))
(SSeq (SIf (ECmp CEq (EVar 10) (EInt 0))
(SAssign 12 (EBin BDiv (ENeg (EVar 11)) (EVar 9)))
(SSeq (SFor 13 (EInt 0) (EVar 10) (EInt 1)
(SAssign 11 (EBin BAdd (EVar 11) (EBin BMul (EIndex (EVar 7) (EVar 13)) (EIndex (EVar 4) (EBin BSub (EBin BSub (EVar 10) (EVar 13)) (EInt 1)))))))
(SAssign 12 (EBin BDiv (ENeg (EVar 11)) (EVar 9)))))
(SSeq (SIf (EVar 6)
(SAssign 9 (EBin BMul (EVar 9) (EBin BSub (ELit 1 0) (EBin BMul (EVar 12) (EVar 12)))))
(SAssign 9 (EBin BMul (EVar 9) (EBin BSub (ELit 1 0) (EBin BAdd (EBin BMul (EReal (EVar 12)) (EReal (EVar 12))) (EImagSq (EVar 12)))))))
(SSeq (SIf (EAnd (ELe0 (EVar 9)) (EIsBool false (EVar 2)))
(SRaise ValueError)
(SSkip))
(SSeq (SStore 7 (EVar 10) (EVar 12))
(SSeq (SStore 8 (EVar 10) (EVar 12))
(SSeq (SIf (ECmp CEq (EVar 10) (EInt 0))
(SContinue)
(SSkip))
(SSeq (SAssign 14 (EBin BFloorDiv (EBin BAdd (EVar 10) (EInt 1)) (EInt 2)))
(SIf (EIsBool true (EVar 6))
(SFor 13 (EInt 0) (EVar 14) (EInt 1)
(SSeq (SAssign 15 (EBin BSub (EBin BSub (EVar 10) (EVar 13)) (EInt 1)))
(SSeq (SAssign 11 (EIndex (EVar 7) (EVar 13)))
(SSeq (SStore 7 (EVar 13) (EBin BAdd (EVar 11) (EBin BMul (EVar 12) (EIndex (EVar 7) (EVar 15)))))
(SIf (ECmp CNe (EVar 13) (EVar 15))
(SStore 7 (EVar 15) (EBin BAdd (EIndex (EVar 7) (EVar 15)) (EBin BMul (EVar 12) (EVar 11))))
(SSkip))))))
(SFor 13 (EInt 0) (EVar 14) (EInt 1)
(SSeq (SAssign 15 (EBin BSub (EBin BSub (EVar 10) (EVar 13)) (EInt 1)))
(SSeq (SAssign 11 (EIndex (EVar 7) (EVar 13)))
(SSeq (SStore 7 (EVar 13) (EBin BAdd (EVar 11) (EBin BMul (EVar 12) (EConj (EIndex (EVar 7) (EVar 15))))))
(SIf (ECmp CNe (EVar 13) (EVar 15))
(SStore 7 (EVar 15) (EBin BAdd (EIndex (EVar 7) (EVar 15)) (EBin BMul (EVar 12) (EConj (EVar 11)))))
(SSkip))))))))))))))))
(SReturn [(EVar 7); (EVar 9); (EVar 8)])))))))))
[(Some (EVar 6)); None; (Some (EVar 3))])
(SSeq (SAssign 10 (EVar 7))
(SSeq (SAssign 11 (EVar 8))
(SAssign 12 (EVar 9)))))
(SReturn [(EVar 10); (EVar 11); (EVar 12)])))).
(* END GENERATED aryule *)

Example prog_aryule_ref_is_generated : prog_aryule_ref = prog_aryule_gen0.
Proof. reflexivity. Qed.

Print Assumptions aryule_ir_run.
Print Assumptions aryule_ir_complex.
Print Assumptions aryule_ir_real.
Print Assumptions aryule_ir_tie.
