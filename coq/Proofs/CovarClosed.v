(* Closed forms of the C14 theorems: generic least squares stated without auxiliary definitions,
   and the statements for the executed model (lstsq := ls_solve). *)
Require Import Spectrum.Theory.Ops Spectrum.Theory.Sum Spectrum.Theory.Vec Spectrum.Theory.Order
               Spectrum.Model.Corr Spectrum.Model.Ls
               Spectrum.Proofs.LsTheory Spectrum.Proofs.CovarTheory Spectrum.Proofs.CovarOpt Spectrum.Proofs.CovarExp.

Section CovarClosed.
Context {F : Type} {OF : Ops F} {L : Laws OF} {OL : OrdLaws OF}.
Local Open Scope F_scope.

Theorem ls_pythagoras_thm (M p : nat) (A : nat -> nat -> F) (b a a' : nat -> F) :
  (forall i, (i < p)%nat -> sumf M (fun n => conj (A n i) * (b n + sumf p (fun j => A n j * a j))) = 0) ->
  let E := fun c => sumf M (fun n => nrm2 (b n + sumf p (fun j => A n j * c j))) in
  E a' - E a = sumf M (fun n => nrm2 (sumf p (fun j => A n j * (a' j - a j)))) /\ le (E a) (E a').
Proof.
  intros H. split; [exact (ls_pythagoras_f M p A b a a' H)|exact (ls_minimum_f M p A b a a' H)].
Qed.

Theorem exponentials_annihilated_thm (x : list F) p q (amp z c : nat -> F) :
  (forall t, (t < length x)%nat -> nthF x t = expsum q amp z t) ->
  (forall i, (i < q)%nat -> monic_eval p c (z i) = 0) ->
  (forall n, (n < length x - p)%nat -> fwd_res x p c n = 0) /\
  ((forall i, (i < q)%nat -> z i * conj (z i) = 1) -> forall n, (n < length x - p)%nat -> bwd_res x p c n = 0).
Proof.
  intros Hx Hr. split; [exact (exp_fwd_annihilated x p q amp z c Hx Hr)|].
  intros Hu. exact (exp_bwd_annihilated x p q amp z c Hx Hr Hu).
Qed.

Theorem arcovar_model_optimal_thm tol (x : list F) p a e : arcovar tol x p = Some (a, e) ->
  length a = p
  /\ (forall i, (i < p)%nat -> sumf (length x - p) (fun n => conj (nthF x (p + n - 1 - i)) * fwd_res x p (nthF a) n) = 0)
  /\ e = fwd_energy x p (nthF a) /\ forall c : nat -> F, le e (fwd_energy x p c).
Proof.
  intros H. destruct (covar_residual_orthogonal_thm ls_solve tol x p a e ls_solve_spec_thm H) as [Hl Ho].
  destruct (covar_e_is_min_thm ls_solve tol x p a e ls_solve_spec_thm H) as (He & _ & Hm).
  split; [exact Hl|]. split; [exact Ho|]. split; [exact He|exact Hm].
Qed.

Theorem modcovar_model_optimal_thm tol (x : list F) p a e : modcovar tol x p = Some (a, e) ->
  length a = p
  /\ (forall i, (i < p)%nat ->
        sumf (length x - p) (fun n => conj (nthF x (p + n - 1 - i)) * fwd_res x p (nthF a) n)
        + sumf (length x - p) (fun n => nthF x (n + 1 + i) * bwd_res x p (nthF a) n) = 0)
  /\ e = fwd_energy x p (nthF a) + bwd_energy x p (nthF a)
  /\ forall c : nat -> F, le e (fwd_energy x p c + bwd_energy x p c).
Proof.
  intros H. destruct (modcovar_residual_orthogonal_thm ls_solve tol x p a e ls_solve_spec_thm H) as [Hl Ho].
  destruct (modcovar_e_is_min_thm ls_solve tol x p a e ls_solve_spec_thm H) as (He & _ & Hm).
  split; [exact Hl|]. split; [exact Ho|]. split; [exact He|exact Hm].
Qed.
End CovarClosed.
