(* C03 — DaniellPeriodogram is homogeneous: the smoother is linear (sums of bins divided by a count that depends on the
   number of bins only), and speriodogram(c*x) = |c|^2 speriodogram(x) (ScalePeriodogram_C03). No hypothesis on c. *)
Require Import Spectrum.Theory.Ops Spectrum.Theory.Sum Spectrum.Theory.Vec Spectrum.Theory.Dft
               Spectrum.Model.Periodogram Spectrum.Model.Daniell
               Spectrum.Proofs.ScaleUtil_C03 Spectrum.Proofs.ScalePeriodogram_C03.

Section ScaleDaniell.
Context {F : Type} {OF : Ops F} {L : Laws OF}.
Local Open Scope F_scope.
Add Field FFsdan : (fth (O:=OF)).

Theorem daniell_smooth_scale_thm s (psd : list F) P : daniell_smooth (vscale s psd) P = vscale s (daniell_smooth psd P).
Proof.
  unfold daniell_smooth. cbv zeta. rewrite su_vscale_length, su_vscale_mk. apply mk_ext; intros i _.
  rewrite <- su_div_scale. f_equal. rewrite !sumL_mk, <- sumf_scale. apply sumf_ext; intros t _.
  destruct (daniell_valid (length psd) P i t); [apply nthF_vscale|ring].
Qed.
Theorem daniell_smooth_length_thm (psd : list F) P : length (daniell_smooth psd P) = daniell_len (length psd) P.
Proof. apply mk_length. Qed.

Theorem daniell_scale_thm tw twopi c (x w : list F) P NFFT isreal dt sbf fs :
  daniell tw twopi (vscale c x) w P NFFT isreal dt sbf fs = vscale (nrm2 c) (daniell tw twopi x w P NFFT isreal dt sbf fs).
Proof. unfold daniell. rewrite periodogram_scale_thm. apply daniell_smooth_scale_thm. Qed.
End ScaleDaniell.
