(* The interpreter of the extracted pipeline record, at the record of the current tree, is the hand-written
   class model: the theorems about [p_call] are theorems about what the translator reads off the source. *)
Require Import Spectrum.Theory.Ops Spectrum.Theory.Sum Spectrum.Theory.Vec Spectrum.Theory.Dft
               Spectrum.Model.Corr Spectrum.Model.Periodogram Spectrum.Model.PeriodogramGen.

Ltac pipeline_tac :=
  intros; match goal with s : pstate |- _ => destruct s end;
  unfold p_call_gen, p_call, p_scale_gen, p_store_gen, p_store;
  cbn -[speriodogram sbf_factor];
  repeat (match goal with |- context [if ?b then _ else _] => destruct b eqn:? end; cbn -[speriodogram sbf_factor] in *);
  try reflexivity; try congruence.

Section GenT.
Context {F : Type} {OF : Ops F}.
Theorem current_pipeline_is_model_thm (tw : Z -> F) (twopi : F) (s : pstate) :
  p_call_gen current_pipe tw twopi s = p_call tw twopi s.
Proof. pipeline_tac. Qed.
End GenT.
