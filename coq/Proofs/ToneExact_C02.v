(* C02 — noiseless exact location for the covariance / modified-covariance estimates, composed from C14 (exact recovery),
   C08 (arma2psd) and the twiddle character:

   data = p distinct ON-GRID exponentials  x_t = sum_i amp_i tw(-bin_i)^t  (non-zero amplitudes, N >= 2p), order p.
   Then arcovar / modcovar return e = 0 and the AR polynomial A(z) = 1 + sum_j a_j z^(j+1) of arma2psd's denominator satisfies
        A(w^b) = 0   <->   b is congruent to one of the true bins modulo NFFT          (w = exp(-2 pi i / NFFT)).
   So the denominator |A|^2 of the model spectrum vanishes EXACTLY on the reported frequencies of the tones and nowhere else.
   What the classes pcovar / pmodcovar then store is degenerate in exact arithmetic: rho = e/(N-p) = 0, the numerator is 0 too;
   the code evaluates 0/0 (nan, RuntimeWarning) at the true bins and 0 elsewhere; the model (totalised field, 0 * inv 0 = 0)
   returns the all-zero spectrum.  With any positive rho the entries at the true bins are rho/T/0.  Both facts are stated.

   The root polynomial with the z_i as roots is CONSTRUCTED here (rootpoly_exists), so the statements carry no hypothesis on it. *)
Require Import Spectrum.Theory.Ops Spectrum.Theory.Sum Spectrum.Theory.Vec Spectrum.Theory.Order Spectrum.Theory.Dft
               Spectrum.Model.Corr Spectrum.Model.Ls Spectrum.Model.Arma2psd
               Spectrum.Proofs.CovarTheory Spectrum.Proofs.CovarExp Spectrum.Proofs.CovarVdm Spectrum.Proofs.CovarFinal
               Spectrum.Proofs.Arma2psdTheory.
From Coq Require Import Lia.

Section RootPoly.
Context {F : Type} {OF : Ops F} {L : Laws OF}.
Local Open Scope F_scope.
Add Field FFte : (fth (O:=OF)).

Fixpoint prodf (p : nat) (f : nat -> F) : F := match p with O => 1 | S q => prodf q f * f q end.

Lemma powF_step (w : F) p j : (j < p)%nat -> powF w (p - j) = w * powF w (p - 1 - j).
Proof. intros Hj. replace (p - j)%nat with (S (p - 1 - j)) by lia. reflexivity. Qed.

(* the monic polynomial prod_i (w - z_i) in the coefficient convention of monic_eval (descending powers) *)
Lemma rootpoly_exists p (z : nat -> F) : exists c : nat -> F, forall w, monic_eval p c w = prodf p (fun i => w - z i).
Proof.
  induction p as [|p [c IH]].
  - exists (fun _ => 0). intros w. unfold monic_eval. cbn. ring.
  - exists (fun j => (if (j <? p)%nat then c j else 0) - z p * (if (j =? 0)%nat then 1 else c (j - 1)%nat)).
    intros w. cbn [prodf]. rewrite <- IH. unfold monic_eval.
    set (Sg := sumf p (fun j => c j * powF w (p - 1 - j))).
    assert (E1 : sumf (S p) (fun j => ((if (j <? p)%nat then c j else 0) - z p * (if (j =? 0)%nat then 1 else c (j - 1)%nat)) * powF w (S p - 1 - j))
                 = w * Sg - z p * (powF w p + Sg)).
    { rewrite (sumf_ext (S p) _ (fun j => (if (j <? p)%nat then c j else 0) * powF w (p - j)
                                          - z p * ((if (j =? 0)%nat then 1 else c (j - 1)%nat) * powF w (p - j)))).
      2:{ intros j Hj. replace (S p - 1 - j)%nat with (p - j)%nat by lia. ring. }
      rewrite sumf_sub, sumf_scale. f_equal.
      - rewrite sumf_S, Nat.ltb_irrefl. unfold Sg. rewrite <- sumf_scale.
        transitivity (sumf p (fun j => w * (c j * powF w (p - 1 - j))) + 0); [|ring]. f_equal; [|ring].
        apply sumf_ext; intros j Hj. destruct (Nat.ltb_spec j p); [|lia]. rewrite powF_step by lia. ring.
      - f_equal. rewrite sumf_shift. cbn [Nat.eqb]. rewrite Nat.sub_0_r. f_equal; [ring|].
        unfold Sg. apply sumf_ext; intros i Hi. replace (S i - 1)%nat with i by lia.
        replace (p - S i)%nat with (p - 1 - i)%nat by lia. reflexivity. }
    rewrite E1. cbn [powF]. ring.
Qed.
Lemma prodf_root p (f : nat -> F) i : (i < p)%nat -> f i = 0 -> prodf p f = 0.
Proof.
  induction p; intros Hi E; [lia|]. cbn [prodf]. destruct (Nat.eq_dec i p) as [->|Hne]; [rewrite E; ring|].
  rewrite IHp by (try exact E; lia). ring.
Qed.
Lemma rootpoly_roots p (z : nat -> F) : exists c : nat -> F, forall i, (i < p)%nat -> monic_eval p c (z i) = 0.
Proof.
  destruct (rootpoly_exists p z) as [c Hc]. exists c. intros i Hi. rewrite Hc. apply (prodf_root p _ i Hi). ring.
Qed.
End RootPoly.

Section Grid.
Context {F : Type} {OF : Ops F} {L : Laws OF}.
Local Open Scope F_scope.
Add Field FFte2 : (fth (O:=OF)).
Context (n : nat) (tw : Z -> F) {T : Twiddle n tw}.
Hypothesis n_pos : (0 < n)%nat.

Lemma powF_tw (b : Z) k : powF (tw b) k = tw (Z.of_nat k * b)%Z.
Proof.
  induction k; [cbn [powF]; rewrite Z.mul_0_l; symmetry; apply tw_0|].
  cbn [powF]. rewrite IHk, <- tw_add. f_equal. lia.
Qed.

(* arma2psd's denominator polynomial at bin b is (a unit times) the monic polynomial of C14 at the on-grid point tw(-b) *)
Lemma polyz_monic (a : list F) (b : Z) :
  polyz tw a b = tw (Z.of_nat (length a) * b)%Z * monic_eval (length a) (nthF a) (tw (- b)%Z).
Proof.
  unfold polyz, monic_eval. rewrite powF_tw.
  transitivity (tw (Z.of_nat (length a) * b)%Z * tw (Z.of_nat (length a) * - b)%Z
                + sumf (length a) (fun j => tw (Z.of_nat (length a) * b)%Z * (nthF a j * powF (tw (- b)%Z) (length a - 1 - j)))).
  - f_equal.
    + rewrite <- tw_add. replace (Z.of_nat (length a) * b + Z.of_nat (length a) * - b)%Z with 0%Z by lia. symmetry. apply tw_0.
    + apply sumf_ext; intros j Hj. rewrite powF_tw.
      transitivity (nthF a j * (tw (Z.of_nat (length a) * b)%Z * tw (Z.of_nat (length a - 1 - j) * - b)%Z)); [|ring].
      rewrite <- tw_add. do 2 f_equal.
      replace (Z.of_nat (length a - 1 - j)) with (Z.of_nat (length a) - 1 - Z.of_nat j)%Z by lia.
      replace (Z.of_nat (j + 1)) with (Z.of_nat j + 1)%Z by lia. ring.
  - rewrite sumf_scale. ring.
Qed.
Lemma polyz_zero_iff (a : list F) (b : Z) : polyz tw a b = 0 <-> monic_eval (length a) (nthF a) (tw (- b)%Z) = 0.
Proof.
  rewrite polyz_monic. split.
  - intros E. apply (mul_cancel_l _ _ E). apply (tw_neq_0 n tw n_pos).
  - intros ->. ring.
Qed.

(* equal twiddles = congruent arguments (exact period n) *)
Lemma tw_eq_congr (a b : Z) : tw a = tw b -> ((a - b) mod Z.of_nat n = 0)%Z.
Proof.
  intros E. destruct (Z.eq_dec ((a - b) mod Z.of_nat n) 0) as [H|H]; [exact H|]. exfalso.
  apply (tw_prim_mod n tw n_pos (a - b)%Z H).
  replace (a - b)%Z with (a + - b)%Z by lia. rewrite tw_add, E. apply (tw_opp n tw n_pos).
Qed.
End Grid.

Section ToneExact.
Context {F : Type} {OF : Ops F} {L : Laws OF} {OL : OrdLaws OF}.
Local Open Scope F_scope.
Add Field FFte3 : (fth (O:=OF)).
Context (n : nat) (tw : Z -> F) {T : Twiddle n tw}.
Hypothesis n_pos : (0 < n)%nat.

Variables (x : list F) (p : nat) (amp : nat -> F) (bin : nat -> Z).
(* x_t = sum_i amp_i exp(+2 pi i bin_i t / n), distinct bins modulo n, non-zero amplitudes, N >= 2p *)
Hypothesis Hx : forall t, (t < length x)%nat -> nthF x t = expsum p amp (fun i => tw (- bin i)%Z) t.
Hypothesis Hbins : forall i j, (i < j < p)%nat -> ((bin i - bin j) mod Z.of_nat n <> 0)%Z.
Hypothesis Hamp : forall i, (i < p)%nat -> amp i <> 0.
Hypothesis HN : (2 * p <= length x)%nat.

Let z := fun i => tw (- bin i)%Z.
Lemma z_distinct : forall i j, (i < j < p)%nat -> z i <> z j.
Proof.
  intros i j Hij E. apply (Hbins i j Hij). unfold z in E.
  pose proof (tw_eq_congr n tw n_pos _ _ E) as H.
  replace (bin i - bin j)%Z with (- (- bin i - - bin j))%Z by lia.
  apply Z.mod_opp_l_z; [lia|exact H].
Qed.
Lemma z_unit : forall i, (i < p)%nat -> z i * conj (z i) = 1.
Proof. intros i _. exact (tw_nrm2 n tw n_pos (- bin i)%Z). Qed.

(* the zero set of the returned AR polynomial on the NFFT grid, given what C14 proves about the returned coefficients *)
Lemma zero_set (a : list F) : length a = p ->
  (forall i, (i < p)%nat -> monic_eval p (nthF a) (z i) = 0) ->
  (forall w, monic_eval p (nthF a) w = 0 -> ~ (forall i, (i < p)%nat -> z i <> w)) ->
  (forall i (c : Z), (i < p)%nat -> polyz tw a (bin i + c * Z.of_nat n)%Z = 0)
  /\ (forall b : Z, (forall i, (i < p)%nat -> ((b - bin i) mod Z.of_nat n <> 0)%Z) -> polyz tw a b <> 0).
Proof.
  intros Hl Hr Hno. split.
  - intros i c Hi. rewrite (polyz_periodic n tw a (bin i) c n_pos). apply (polyz_zero_iff n tw n_pos). rewrite Hl. apply Hr, Hi.
  - intros b Hb E. apply (polyz_zero_iff n tw n_pos) in E. rewrite Hl in E.
    apply (Hno _ E). intros i Hi Ez. apply (Hb i Hi). unfold z in Ez.
    pose proof (tw_eq_congr n tw n_pos _ _ Ez) as H.
    replace (b - bin i)%Z with (- bin i - - b)%Z by lia. exact H.
Qed.

Lemma ar_ls_length lstsq tol X a e : lstsq_spec lstsq -> ar_ls lstsq tol X p = Some (a, e) -> length a = p.
Proof.
  intros Hs. unfold ar_ls. cbv zeta.
  destruct (lstsq p (mneg (cols1 X)) (col0 X)) as [a0|] eqn:El; [|discriminate].
  destruct (le0 _); [|discriminate]. intros E; injection E as <- _. apply (Hs _ _ _ _ El).
Qed.

Theorem covar_tone_exact_thm lstsq tol a e : lstsq_spec lstsq ->
  arcovar_with lstsq tol x p = Some (a, e) ->
  e = 0 /\ length a = p
  /\ (forall i (c : Z), (i < p)%nat -> polyz tw a (bin i + c * Z.of_nat n)%Z = 0)
  /\ (forall b : Z, (forall i, (i < p)%nat -> ((b - bin i) mod Z.of_nat n <> 0)%Z) -> polyz tw a b <> 0).
Proof.
  intros Hs H. destruct (rootpoly_roots p z) as [c Hc].
  destruct (covar_exact_recovery_thm lstsq tol x p amp z c a e Hs Hx z_distinct Hamp HN Hc H) as (E0 & _ & Hr & Hno).
  assert (Hl : length a = p) by (apply (ar_ls_length lstsq tol _ a e Hs H)).
  split; [exact E0|]. split; [exact Hl|]. apply zero_set; assumption.
Qed.

Theorem modcovar_tone_exact_thm lstsq tol a e : lstsq_spec lstsq ->
  modcovar_with lstsq tol x p = Some (a, e) ->
  e = 0 /\ length a = p
  /\ (forall i (c : Z), (i < p)%nat -> polyz tw a (bin i + c * Z.of_nat n)%Z = 0)
  /\ (forall b : Z, (forall i, (i < p)%nat -> ((b - bin i) mod Z.of_nat n <> 0)%Z) -> polyz tw a b <> 0).
Proof.
  intros Hs H. destruct (rootpoly_roots p z) as [c Hc].
  destruct (modcovar_exact_recovery_thm lstsq tol x p amp z c a e Hs Hx z_distinct Hamp HN Hc z_unit H) as (E0 & _ & Hr & Hno).
  assert (Hl : length a = p) by (apply (ar_ls_length lstsq tol _ a e Hs H)).
  split; [exact E0|]. split; [exact Hl|]. apply zero_set; assumption.
Qed.

(* the executed models (lstsq := Gaussian elimination) DO return on such data, so the statements are not vacuous *)
Theorem covar_tone_returns tol : exists a, arcovar tol x p = Some (a, 0) /\ length a = p.
Proof.
  destruct (rootpoly_roots p z) as [c Hc].
  destruct (arcovar_model_recovers_thm tol x p amp z c Hx z_distinct Hamp HN Hc) as (a & H & Hl & _).
  exists a. split; assumption.
Qed.
Theorem modcovar_tone_returns tol : exists a, modcovar tol x p = Some (a, 0) /\ length a = p.
Proof.
  destruct (rootpoly_roots p z) as [c Hc].
  destruct (modcovar_model_recovers_thm tol x p amp z c Hx z_distinct Hamp HN Hc z_unit) as (a & H & Hl & _).
  exists a. split; assumption.
Qed.
End ToneExact.

(* what arma2psd makes of rho = 0: the all-zero spectrum (in the totalised field 0 * inv 0 = 0; the code computes 0/0 = nan
   at the zeros of the denominator) *)
Section ZeroRho.
Context {F : Type} {OF : Ops F} {L : Laws OF}.
Local Open Scope F_scope.
Add Field FFte4 : (fth (O:=OF)).
Theorem arma2psd_rho_zero (tw : Z -> F) A B T n : admissible A B n ->
  exists psd, arma2psd tw A B 0 T n SidesDefault false = Some psd /\ length psd = n /\ forall k, (k < n)%nat -> nthF psd k = 0.
Proof.
  intros Hadm. eexists. split; [apply arma2psd_unfold; exact Hadm|]. cbn [arma_post]. split; [apply mk_length|].
  intros k Hk. rewrite nth_mk by exact Hk.
  replace (rawbin tw A B 0 T n k) with (0 * rawbin tw A B 0 T n k).
  - replace (0 * rawbin tw A B 0 T n k) with (0 : F) by ring. apply re_0.
  - rewrite <- rawbin_rho. f_equal. ring.
Qed.
End ZeroRho.
