(* C05 — class level: what every PSD class stores (functional estimator -> slice / doubling / flips / side conversion ->
   scale() calls, coq/Model/PipelineLib.v) commutes with the sub-sampling k |-> c*k of the grid.
   Static part: one lemma per store form; the theorem over the GENERATED table (tools/props/_c05_theorems.v.in) dispatches on the rows.
   [grid_rel lay n c S1 S2] says that the functional estimator's arrays on the coarse grid n (S1) and on the fine grid c*n (S2)
   agree at common frequencies, in the layout the estimator returns (two-sided from bin 0, rfft bins, centred). *)
From Coq Require Import String.
Require Import Spectrum.Theory.Ops Spectrum.Theory.Sum Spectrum.Theory.Vec Spectrum.Theory.Dft
               Spectrum.Model.PipelineLib Spectrum.Proofs.PipelineTheory Spectrum.Proofs.EigenAxis
               Spectrum.Proofs.GridTheory Spectrum.Proofs.GridFourier_C05.

Inductive flayout := LTwoSided | LRfft | LCentred | LNone.
(* the layout of the array each functional estimator returns (Model/Periodogram.v, Arma2psd.v, Minvar.v, Eigen.v, Mtm.v) *)
Definition lay_of (e : festim) (real : bool) : flayout :=
  match e with
  | FSperiodogram => if real then LRfft else LTwoSided
  | FCorrelogrampsd | FArma2psd | FMinvar | FPmtm => LTwoSided
  | FEigen => LCentred
  | FDaniell => LNone          (* Daniell smoothing averages neighbouring bins OF THE GRID: outside the property *)
  end.
(* the store forms whose commutation with the sub-sampling is proved below *)
Definition store_ok (st : store) (lay : flayout) : bool :=
  match st, lay with
  | SAsIs, LTwoSided | SAsIs, LRfft => true
  | SHalf HalfPlus1 HalfUp _ false, LTwoSided => true
  | SHalf HalfPlus1 HalfUp _ true, LCentred => true
  | STwo2One, LTwoSided => true
  | SCenter2Two, LCentred => true
  | _, _ => false
  end.
(* no mention of NFFT in a source expression of the table *)
Definition mentions_nfft (e : string) : bool := match index 0 "NFFT" e with Some _ => true | None => false end.


(* ---- "the model parameters do not depend on NFFT", read off a row of the table ----
   the parameter estimator (arburg, aryule, arcovar, modcovar, arma_estimate, ma) is not passed anything computed from NFFT;
   no stored attribute (ar, ma, rho, reflection, eigenvalues, weights, Sk) is computed from NFFT in __call__;
   NFFT reaches the functional estimator only as its NFFT parameter (= self.NFFT);
   a class without parameter estimator either stores nothing besides psd, or takes its attributes from minvar / eigen / pmtm
   (whose returned parameters are NFFT-free by minvar_grid, music_grid, pmtm_grid);
   a class with a parameter estimator draws its PSD with arma2psd (arma2psd_grid). *)
Definition no_nfft (l : list (string * string)) : bool := forallb (fun ae => negb (mentions_nfft (snd ae))) l.
Definition nfft_only_as_nfft (l : list (string * string)) : bool :=
  forallb (fun ae => implb (mentions_nfft (snd ae)) (String.eqb (fst ae) "NFFT" && String.eqb (snd ae) "self.NFFT")) l.
Definition params_ok (p : pipeline) : bool :=
  no_nfft (p_param_args p) && no_nfft (p_stores p) && nfft_only_as_nfft (p_est_args p) &&
  (if String.eqb (p_param_est p) ""
   then match p_stores p with [] => true | _ => match p_est p with FMinvar | FEigen | FPmtm => true | _ => false end end
   else match p_est p with FArma2psd => true | _ => false end).
Definition params_spec (p : pipeline) : Prop :=
  (forall a e, In (a, e) (p_param_args p) -> mentions_nfft e = false) /\
  (forall a e, In (a, e) (p_stores p) -> mentions_nfft e = false) /\
  (forall a e, In (a, e) (p_est_args p) -> mentions_nfft e = true -> a = "NFFT"%string /\ e = "self.NFFT"%string) /\
  (p_param_est p = ""%string -> p_stores p = [] \/ p_est p = FMinvar \/ p_est p = FEigen \/ p_est p = FPmtm) /\
  (p_param_est p <> ""%string -> p_est p = FArma2psd).
Lemma no_nfft_spec l : no_nfft l = true -> forall a e, In (a, e) l -> mentions_nfft e = false.
Proof.
  intros H a e HI. unfold no_nfft in H. rewrite forallb_forall in H. specialize (H (a, e) HI). cbn [snd] in H.
  destruct (mentions_nfft e); [discriminate H|reflexivity].
Qed.
Lemma params_ok_spec p : params_ok p = true -> params_spec p.
Proof.
  unfold params_ok, params_spec. intros H.
  apply Bool.andb_true_iff in H. destruct H as [H H4]. apply Bool.andb_true_iff in H. destruct H as [H H3].
  apply Bool.andb_true_iff in H. destruct H as [H1 H2].
  split; [apply no_nfft_spec; exact H1|]. split; [apply no_nfft_spec; exact H2|]. split; [|split].
  - intros a e HI Hm. unfold nfft_only_as_nfft in H3. rewrite forallb_forall in H3. specialize (H3 (a, e) HI).
    cbn [fst snd] in H3. rewrite Hm in H3. cbn [implb] in H3. apply Bool.andb_true_iff in H3. destruct H3 as [E1 E2].
    apply String.eqb_eq in E1, E2. split; assumption.
  - intros E. rewrite E in H4. cbn in H4. destruct (p_stores p); [left; reflexivity|right].
    destruct (p_est p); try discriminate H4; auto.
  - intros E. destruct (String.eqb_spec (p_param_est p) ""); [contradiction|]. destruct (p_est p); try discriminate H4; reflexivity.
Qed.

Section GridClass.
Context {F : Type} {OF : Ops F} {L : Laws OF}.
Local Open Scope F_scope.
Add Field FFgc : (fth (O:=OF)).

Definition grid_rel (lay : flayout) (n c : nat) (S1 S2 : list F) : Prop :=
  match lay with
  | LTwoSided => length S1 = n /\ length S2 = (c * n)%nat /\ forall k, (k < n)%nat -> nthF S2 (c * k) = nthF S1 k
  | LRfft => length S1 = (n / 2 + 1)%nat /\ length S2 = ((c * n) / 2 + 1)%nat /\ forall k, (k <= n / 2)%nat -> nthF S2 (c * k) = nthF S1 k
  | LCentred => length S1 = n /\ length S2 = (c * n)%nat /\ forall j, (j < n)%nat -> nthF S2 (c * j + centre_off n c) = nthF S1 j
  | LNone => False
  end.

(* index facts on the two grids *)
Lemma halves (n c : nat) : (0 < c)%nat -> (0 < n)%nat ->
  exists h H ch, (n / 2 = h /\ (c * n) / 2 = H /\ c * h = ch /\ (n = 2 * h \/ n = 2 * h + 1) /\ (c * n = 2 * H \/ c * n = 2 * H + 1)
                 /\ ch <= H /\ H < ch + c)%nat.
Proof.
  intros Hc Hn. exists (n / 2)%nat, ((c * n) / 2)%nat, (c * (n / 2))%nat.
  pose proof (Nat.div_mod n 2 ltac:(lia)) as E. pose proof (Nat.mod_upper_bound n 2 ltac:(lia)) as B.
  pose proof (Nat.div_mod (c * n) 2 ltac:(lia)) as E'. pose proof (Nat.mod_upper_bound (c * n) 2 ltac:(lia)) as B'.
  repeat split; try lia; nia.
Qed.

Lemma hi_is_keep n : (if Nat.even n then hi_eval HalfPlus1 n else hi_eval HalfUp n) = keep n.
Proof. reflexivity. Qed.

(* ---- psd[0:hi] * fac ---- *)
Lemma half_grid_store (n c fac : nat) (S1 S2 : list F) : (0 < c)%nat -> (0 < n)%nat -> grid_rel LTwoSided n c S1 S2 ->
  let P1 := do_store (SHalf HalfPlus1 HalfUp fac false) n S1 in
  let P2 := do_store (SHalf HalfPlus1 HalfUp fac false) (c * n) S2 in
  forall k, (k < length P1)%nat -> (c * k < length P2)%nat /\ nthF P2 (c * k) = nthF P1 k.
Proof.
  intros Hc Hn (L1 & L2 & H) P1 P2 k Hk. unfold P1, P2 in *. rewrite do_store_length in *. rewrite hi_is_keep in *.
  pose proof (keep_le n Hn). pose proof (keep_le (c * n) ltac:(nia)).
  rewrite L1, Nat.min_l in Hk by lia. rewrite L2, Nat.min_l by lia.
  pose proof (keep_grid n c k Hc Hn Hk) as Hk'. split; [exact Hk'|].
  cbn [do_store]. rewrite !hi_is_keep, !nthF_vscale, !nthF_firstn by assumption.
  rewrite H by lia. reflexivity.
Qed.
(* ---- (psd[0:hi] * fac)[::-1] on the centred vector of eigen() ---- *)
Lemma half_flip_grid_store (n c fac : nat) (S1 S2 : list F) : (0 < c)%nat -> (0 < n)%nat -> grid_rel LCentred n c S1 S2 ->
  let P1 := do_store (SHalf HalfPlus1 HalfUp fac true) n S1 in
  let P2 := do_store (SHalf HalfPlus1 HalfUp fac true) (c * n) S2 in
  forall k, (k < length P1)%nat -> (c * k < length P2)%nat /\ nthF P2 (c * k) = nthF P1 k.
Proof.
  intros Hc Hn (L1 & L2 & H) P1 P2 k Hk. unfold P1, P2 in *. rewrite do_store_length in *. rewrite hi_is_keep in *.
  pose proof (keep_le n Hn). pose proof (keep_le (c * n) ltac:(nia)).
  rewrite L1, Nat.min_l in Hk by lia. rewrite L2, Nat.min_l by lia.
  pose proof (keep_grid n c k Hc Hn Hk) as Hk'. split; [exact Hk'|].
  cbn [do_store]. rewrite !hi_is_keep.
  assert (E1 : length (vscale (ofnat fac) (firstn (keep n) S1)) = keep n) by (rewrite vscale_length, firstn_length; lia).
  assert (E2 : length (vscale (ofnat fac) (firstn (keep (c * n)) S2)) = keep (c * n)) by (rewrite vscale_length, firstn_length; lia).
  rewrite !nthF_rev by lia. rewrite E1, E2. rewrite !nthF_vscale, !nthF_firstn by lia. f_equal.
  destruct (keep_spec n Hn) as (h & Kn & _ & Eh & _). destruct (keep_spec (c * n) ltac:(nia)) as (Hh & Kc & _ & EH & _).
  destruct (halves n c Hc Hn) as (h' & H' & ch & A1 & A2 & A3 & A4 & A5 & A6 & A7).
  rewrite <- (H (keep n - 1 - k)%nat) by lia. f_equal. unfold centre_off.
  rewrite Kn, Kc in *. rewrite A1, A2, A3. subst h Hh. rewrite A1, A2 in *.
  replace (h' + 1 - 1 - k)%nat with (h' - k)%nat by lia.
  assert (c * (h' - k) = ch - c * k)%nat by (rewrite Nat.mul_sub_distr_l; lia).
  assert (c * k <= ch)%nat by (rewrite <- A3; apply Nat.mul_le_mono_l; lia). lia.
Qed.
(* ---- tools.twosided_2_onesided ---- *)
Lemma two2one_grid_store (n c : nat) (S1 S2 : list F) : (0 < c)%nat -> (0 < n)%nat -> grid_rel LTwoSided n c S1 S2 ->
  forall k, (k < length (two2one S1))%nat -> (c * k < length (two2one S2))%nat /\ nthF (two2one S2) (c * k) = nthF (two2one S1) k.
Proof.
  intros Hc Hn (L1 & L2 & H) k Hk. unfold two2one in *. rewrite mk_length in *. rewrite L1 in *. rewrite L2.
  pose proof (half_grid n c k ltac:(lia)) as Hk'. split; [lia|]. rewrite !nth_mk by lia.
  assert (Hkn : (k < n)%nat). { pose proof (Nat.div_lt n 2 Hn ltac:(lia)). lia. }
  rewrite H by exact Hkn.
  assert (E0 : (c * k =? 0)%nat = (k =? 0)%nat).
  { destruct (Nat.eqb_spec k 0) as [->|]; [rewrite Nat.mul_0_r; reflexivity|]. apply Nat.eqb_neq. nia. }
  assert (EN : (Nat.even (c * n) && (c * k =? (c * n) / 2)%nat)%bool = (Nat.even n && (k =? n / 2)%nat)%bool).
  { destruct (halves n c Hc Hn) as (h & Hh & ch & A1 & A2 & A3 & A4 & A5 & A6 & A7). rewrite A1, A2.
    destruct (Nat.even n) eqn:En; destruct (Nat.eqb_spec k h) as [Ek|Ek]; cbn [andb].
    - apply Nat.even_spec in En. destruct En as [q Eq]. subst k.
      assert (Ec : Nat.even (c * n) = true) by (apply Nat.even_spec; exists (c * q)%nat; rewrite Eq; ring).
      rewrite Ec. cbn [andb]. apply Nat.eqb_eq.
      assert (Ec' := Ec). apply Nat.even_spec in Ec'. destruct Ec' as [r Er]. lia.
    - apply Bool.andb_false_iff. right. apply Nat.eqb_neq. intros Eq.
      apply Nat.even_spec in En. destruct En as [q Eq']. assert (h = q) by lia. subst q.
      assert (c * k = c * h)%nat by nia. apply Ek. apply (Nat.mul_cancel_l k h c); lia.
    - apply Bool.andb_false_iff. destruct (Nat.even (c * n)) eqn:Ec; [right|left; reflexivity].
      apply Nat.eqb_neq. intros Eq. subst k.
      apply Nat.even_spec in Ec. destruct Ec as [r Er]. assert (Hh = r) by lia. subst r.
      assert (c * n = c * (2 * h))%nat by nia.
      assert (n = 2 * h)%nat by (apply (Nat.mul_cancel_l n (2 * h) c); lia).
      assert (Nat.even n = true) by (apply Nat.even_spec; exists h; assumption). congruence.
    - apply Bool.andb_false_iff. destruct (Nat.even (c * n)) eqn:Ec; [right|left; reflexivity].
      apply Nat.eqb_neq. intros Eq.
      apply Nat.even_spec in Ec. destruct Ec as [r Er]. assert (Hh = r) by lia. subst r.
      assert (c * n = c * (2 * k))%nat by nia.
      assert (n = 2 * k)%nat by (apply (Nat.mul_cancel_l n (2 * k) c); lia).
      assert (Nat.even n = true) by (apply Nat.even_spec; exists k; assumption). congruence. }
  rewrite E0, EN. reflexivity.
Qed.
(* ---- tools.centerdc_2_twosided = ifftshift on the centred vector of eigen() ---- *)
Lemma ifftshift_grid_store (n c : nat) (S1 S2 : list F) : (0 < c)%nat -> (0 < n)%nat -> grid_rel LCentred n c S1 S2 ->
  forall k, (k < length (ifftshift S1))%nat -> (c * k < length (ifftshift S2))%nat /\ nthF (ifftshift S2) (c * k) = nthF (ifftshift S1) k.
Proof.
  intros Hc Hn (L1 & L2 & H) k Hk. unfold ifftshift in *. rewrite mk_length in *. rewrite L1 in *. rewrite L2.
  split; [nia|]. rewrite !nth_mk by nia.
  destruct (halves n c Hc Hn) as (h & Hh & ch & A1 & A2 & A3 & A4 & A5 & A6 & A7). rewrite A1, A2.
  assert (Eck : (c * (k + h) = c * k + ch)%nat) by (rewrite <- A3; ring).
  destruct (Nat.ltb_spec k (n - h)) as [B|B].
  - assert (Bc : (c * k + c <= c * (n - h))%nat).
    { replace (c * k + c)%nat with (c * (k + 1))%nat by ring. apply Nat.mul_le_mono_l. lia. }
    rewrite Nat.mul_sub_distr_l, A3 in Bc.
    destruct (Nat.ltb_spec (c * k) (c * n - Hh)); [|lia].
    rewrite <- (H (k + h)%nat) by lia. f_equal. unfold centre_off. rewrite A1, A2, A3. lia.
  - assert (Bc : (c * (n - h) <= c * k)%nat) by (apply Nat.mul_le_mono_l; lia).
    rewrite Nat.mul_sub_distr_l, A3 in Bc.
    destruct (Nat.ltb_spec (c * k) (c * n - Hh)); [lia|].
    rewrite <- (H (k - (n - h))%nat) by lia. f_equal. unfold centre_off. rewrite A1, A2, A3.
    assert (c * (k - (n - h)) = c * k - (c * n - ch))%nat by (rewrite !Nat.mul_sub_distr_l, A3; reflexivity).
    assert (ch <= c * n)%nat by (rewrite <- A3; apply Nat.mul_le_mono_l; lia). lia.
Qed.

(* ---- every store form of the table ---- *)
Theorem do_store_grid (st : store) (lay : flayout) (n c : nat) (S1 S2 : list F) :
  store_ok st lay = true -> (0 < c)%nat -> (0 < n)%nat -> grid_rel lay n c S1 S2 ->
  forall k, (k < length (do_store st n S1))%nat ->
    (c * k < length (do_store st (c * n) S2))%nat /\ nthF (do_store st (c * n) S2) (c * k) = nthF (do_store st n S1) k.
Proof.
  intros Hok Hc Hn HR.
  destruct st as [|he ho fac flip| |]; [|destruct he, ho, flip| |]; destruct lay; try discriminate Hok.
  - destruct HR as (L1 & L2 & H). cbn [do_store]. intros k Hk. rewrite L1 in Hk. rewrite L2. split; [nia|apply H; exact Hk].
  - destruct HR as (L1 & L2 & H). cbn [do_store]. intros k Hk. rewrite L1 in Hk. rewrite L2.
    pose proof (half_grid n c k ltac:(lia)). split; [lia|apply H; lia].
  - apply half_flip_grid_store; assumption.
  - apply half_grid_store; assumption.
  - cbn [do_store]. apply (two2one_grid_store n c); assumption.
  - cbn [do_store]. apply (ifftshift_grid_store n c); assumption.
Qed.

(* ---- the stored PSD: the pipeline is one scalar coefficient times the layout; with scale_by_freq off the coefficient
        does not see NFFT (hypothesis Hcoef, discharged row by row on the generated table) ---- *)
Theorem stored_grid (twopi : F) (m : psdmodel) (p : pipeline) (real : bool) (s1 s2 : sstate) (n c : nat) (S1 S2 : list F) :
  (0 < c)%nat -> (0 < n)%nat -> st_NFFT s1 = n -> st_NFFT s2 = (c * n)%nat ->
  store_ok (if real then p_real p else p_cplx p) (lay_of (p_est p) real) = true ->
  (forall l1 l2, coef twopi m p real false s2 l2 = coef twopi m p real false s1 l1) ->
  grid_rel (lay_of (p_est p) real) n c S1 S2 ->
  forall k, (k < length (stored twopi m p real false s1 S1))%nat ->
    (c * k < length (stored twopi m p real false s2 S2))%nat
    /\ nthF (stored twopi m p real false s2 S2) (c * k) = nthF (stored twopi m p real false s1 S1) k.
Proof.
  intros Hc Hn N1 N2 Hok Hcoef HR k Hk.
  rewrite !stored_length in *. rewrite !stored_coef, !nthF_vscale. unfold layout in *. rewrite N1, N2 in *.
  destruct (do_store_grid _ _ n c S1 S2 Hok Hc Hn HR k Hk) as [Hb Hv].
  split; [exact Hb|]. rewrite Hv. f_equal. apply Hcoef.
Qed.
End GridClass.
