(* C03 — minimum variance: minvar(c*x) = (|c|^2 PSD, A, k).  From arburg_scale: the Burg triple of c*x is
   (a, |c|^2 P, k); every entry of psi is divided by P, so psi and its transform are divided by |c|^2, and
   PSD = sampling / real(fft(psi)) is multiplied by |c|^2. *)
Require Import Spectrum.Theory.Ops Spectrum.Theory.Sum Spectrum.Theory.Vec Spectrum.Theory.Dft Spectrum.Theory.Order
               Spectrum.Model.Levinson Spectrum.Model.Burg Spectrum.Model.Minvar
               Spectrum.Proofs.LevinsonTheory Spectrum.Proofs.BurgTheory Spectrum.Proofs.ScaleTheory
               Spectrum.Proofs.MinvarTheory Spectrum.Proofs.MinvarFinal Spectrum.Proofs.ScaleUtil_C03.

Section ScaleMinvar.
Context {F : Type} {OF : Ops F} {L : Laws OF} {OL : OrdLaws OF}.
Local Open Scope F_scope.
Add Field FFsm : (fth (O:=OF)).

Lemma no_stop_homogeneous : stop_homogeneous (@no_stop F).
Proof. intros s k r1 r2 _. reflexivity. Qed.

Lemma upd_vscale t (l : list F) i v : upd (vscale t l) i (t * v) = vscale t (upd l i v).
Proof. revert i. induction l as [|a l IH]; intros i; [destruct i; reflexivity|]. destruct i; cbn; [reflexivity|]. f_equal. apply IH. Qed.
Lemma psi_step_scale s m nfft (A : list F) P (psi : list F) K : pos s -> P <> 0 ->
  psi_step m nfft A (s * P) (vscale (inv s) psi) K = vscale (inv s) (psi_step m nfft A P psi K).
Proof.
  intros Hs HP. assert (Hs0 : s <> 0) by apply Hs.
  assert (Hir : conj (inv s) = inv s) by (apply real_inv; [apply pos_real; exact Hs|exact Hs0]).
  unfold psi_step. cbv zeta.
  assert (E : mv_sum m A K / (s * P) = inv s * (mv_sum m A K / P)) by (field; split; assumption).
  rewrite E. destruct (K =? 0)%nat; [apply upd_vscale|].
  rewrite conj_mul, Hir, upd_vscale. apply upd_vscale.
Qed.
Lemma psi_loop_scale s m nfft (A : list F) P : pos s -> P <> 0 ->
  psi_loop m nfft A (s * P) = vscale (inv s) (psi_loop m nfft A P).
Proof.
  intros Hs HP. unfold psi_loop.
  assert (E0 : mk nfft (fun _ => 0) = vscale (inv s) (mk nfft (fun _ : nat => 0)))
    by (rewrite su_vscale_mk; apply mk_ext; intros; ring).
  rewrite E0 at 1. generalize (mk nfft (fun _ : nat => (0 : F))). generalize (seq 0 m).
  induction l as [|K l IH]; intros acc; [reflexivity|]. cbn [fold_left].
  rewrite psi_step_scale by assumption. apply IH.
Qed.

(* the vector the code inverts: real(fft(psi, NFFT)) *)
Definition minvar_den (tw : Z -> F) (m nfft : nat) (a : list F) (P : F) : list F :=
  map re (dft tw nfft (psi_loop m nfft (1 :: a) P)).
Theorem minvar_den_scale_thm tw s m nfft (a : list F) P : pos s -> P <> 0 ->
  minvar_den tw m nfft a (s * P) = vscale (inv s) (minvar_den tw m nfft a P).
Proof.
  intros Hs HP. unfold minvar_den. rewrite psi_loop_scale, su_dft_vscale by assumption.
  apply su_map_vscale. intros z. apply su_re_scale. apply real_inv; [apply pos_real; exact Hs|apply Hs].
Qed.

(* no bin of real(fft(psi)) vanishes (the division the code performs) *)
Definition minvar_regular (tw : Z -> F) (x : list F) (m nfft : nat) : Prop :=
  forall a P k, arburg x (m - 1) no_stop = Some (a, P, k) -> forall z, In z (minvar_den tw m nfft a P) -> z <> 0.

Definition mv_scale (s : F) (r : option (list F * list F * list F)) : option (list F * list F * list F) :=
  match r with None => None | Some (psd, A, k) => Some (vscale s psd, A, k) end.

Theorem minvar_scale_thm tw c (x : list F) m sampling nfft : c <> 0 ->
  burg_nondeg no_stop x (m - 1) -> minvar_regular tw x m nfft ->
  minvar tw (vscale c x) m sampling nfft = mv_scale (nrm2 c) (minvar tw x m sampling nfft).
Proof.
  intros Hc Hnd Hreg. unfold minvar.
  rewrite (arburg_scale_thm c no_stop x (m - 1) Hc no_stop_homogeneous Hnd).
  destruct (arburg x (m - 1) no_stop) as [[[a P] k]|] eqn:E; [|reflexivity].
  destruct (nfft <? m)%nat; [reflexivity|]. cbn [mv_scale].
  apply f_equal. apply (f_equal (fun p => (p, k))). apply (f_equal (fun p => (p, 1 :: a))).
  destruct (arburg_shape_thm x (m - 1) a P k E) as (_ & _ & _ & Hle).
  pose proof (le0_false_neq _ Hle) as HP. pose proof (pos_nrm2 c Hc) as Hs.
  assert (Hs0 : nrm2 c <> 0) by apply Hs.
  assert (Hir : conj (inv (nrm2 c)) = inv (nrm2 c)) by (apply real_inv; [apply nrm2_real|exact Hs0]).
  rewrite psi_loop_scale, su_dft_vscale by assumption.
  specialize (Hreg a P k E). unfold minvar_den in Hreg.
  set (D := dft tw nfft (psi_loop m nfft (1 :: a) P)) in *.
  unfold vscale. rewrite !map_map. apply map_ext_in. intros z Hz.
  assert (Hrz : re z <> 0) by (apply Hreg; apply in_map; exact Hz).
  rewrite (su_re_scale _ _ Hir). field. split; assumption.
Qed.

(* on a proper grid (tw a character of exact period NFFT, NFFT >= 2*order-1: no aliasing of psi) the bins are the
   positive Capon sums, so the regularity hypothesis holds by itself *)
Theorem minvar_regular_grid_thm nfft (tw : Z -> F) {T : Twiddle nfft tw} (x : list F) m :
  (2 * m - 1 <= nfft)%nat -> minvar_regular tw x m nfft.
Proof.
  intros Hn a P k E z Hz.
  destruct (Nat.ltb_spec nfft m) as [G|G].
  { (* nfft < m <= 2m-1 <= nfft forces m = 0 or 1: arburg x (m-1) raises *)
    exfalso. pose proof (arburg_some_order _ _ _ _ E). lia. }
  assert (Hmv : minvar tw x m 1 nfft = Some (map (fun z => 1 / re z) (dft tw nfft (psi_loop m nfft (1 :: a) P)), 1 :: a, k)).
  { unfold minvar. rewrite E. destruct (Nat.ltb_spec nfft m); [lia|reflexivity]. }
  pose proof (arburg_some_order _ _ _ _ E) as Ho.
  assert (HN : ofnat (length x) <> 0) by (apply (pos_ofnat (length x)); lia).
  destruct (minvar_positive_thm nfft tw x m 1 _ _ _ Hn pos_1 Hmv) as [HPk _].
  destruct (arburg_shape_thm x (m - 1) a P k E) as (Hl & _ & Hr & _).
  unfold minvar_den in Hz. apply in_map_iff in Hz. destruct Hz as (w & <- & Hw).
  apply (In_nth _ _ 0) in Hw. destruct Hw as (f & Hf & <-). rewrite dft_length in Hf.
  destruct (minvar_psd_musicus_thm nfft tw x m 1 _ _ _ HN Hn Hmv f Hf) as (_ & Hd & Hcr).
  rewrite <- Hr in Hd. change (nth f (dft tw nfft (psi_loop m nfft (1 :: a) P)) 0) with (nthF (dft tw nfft (psi_loop m nfft (1 :: a) P)) f).
  rewrite Hd, (re_real _ Hcr).
  apply (capon_sum_pos nfft tw); [lia|]. intros j Hj. apply HPk. lia.
Qed.
Theorem minvar_scale_grid_thm nfft (tw : Z -> F) {T : Twiddle nfft tw} c (x : list F) m sampling : c <> 0 ->
  (2 * m - 1 <= nfft)%nat -> burg_nondeg no_stop x (m - 1) ->
  minvar tw (vscale c x) m sampling nfft = mv_scale (nrm2 c) (minvar tw x m sampling nfft).
Proof.
  intros Hc Hn Hnd. apply minvar_scale_thm; [exact Hc|exact Hnd|apply (minvar_regular_grid_thm nfft tw); exact Hn].
Qed.
End ScaleMinvar.
