(* Noiseless sums of exponentials: the monic polynomial whose roots are the z_i has zero
   forward residual (and zero backward residual when |z_i| = 1); hence the minimum found by
   arcovar / modcovar is 0 and, under full column rank, the returned polynomial is that one. *)
Require Import Spectrum.Theory.Ops Spectrum.Theory.Sum Spectrum.Theory.Vec Spectrum.Theory.Order
               Spectrum.Model.Corr Spectrum.Model.Ls Spectrum.Proofs.LsTheory Spectrum.Proofs.CovarTheory
               Spectrum.Proofs.CovarOpt.

Section CovarExp.
Context {F : Type} {OF : Ops F} {L : Laws OF}.
Local Open Scope F_scope.
Add Field FFce : (fth (O:=OF)).

Lemma powF_add z a b : powF z (a + b) = powF z a * powF z b.
Proof. induction a; cbn [powF Nat.add]; [ring|]. rewrite IHa. ring. Qed.
Lemma conj_powF z n : conj (powF z n) = powF (conj z) n.
Proof. induction n; cbn [powF]; [apply conj_1|]. rewrite conj_mul, IHn. reflexivity. Qed.
(* z w = 1  =>  w^(a+b) z^b = w^a *)
Lemma powF_cancel z w a b : z * w = 1 -> powF w (a + b) * powF z b = powF w a.
Proof.
  intros H. induction b; [rewrite Nat.add_0_r; cbn [powF]; ring|].
  rewrite Nat.add_succ_r. cbn [powF].
  transitivity ((z * w) * (powF w (a + b) * powF z b)); [ring|]. rewrite H, IHb. ring.
Qed.

Variables (x : list F) (p q : nat) (amp z : nat -> F) (c : nat -> F).
Hypothesis Hx : forall t, (t < length x)%nat -> nthF x t = expsum q amp z t.
Hypothesis Hroot : forall i, (i < q)%nat -> monic_eval p c (z i) = 0.

(* the forward prediction error of the root polynomial vanishes at every n = p..N-1 *)
Theorem exp_fwd_annihilated n : (n < length x - p)%nat -> fwd_res x p c n = 0.
Proof.
  intros Hn. unfold fwd_res.
  rewrite Hx by lia.
  rewrite (sumf_ext p _ (fun j => sumf q (fun i => amp i * powF (z i) n * (c j * powF (z i) (p - 1 - j))))).
  2:{ intros j Hj. rewrite Hx by lia. unfold expsum. rewrite <- sumf_scale_r. apply sumf_ext; intros i _.
      replace (p + n - 1 - j)%nat with (n + (p - 1 - j))%nat by lia. rewrite powF_add. ring. }
  rewrite sumf_exch. unfold expsum. rewrite <- sumf_add. apply sumf_zero_ext; intros i Hi.
  rewrite sumf_scale. replace (p + n)%nat with (n + p)%nat by lia. rewrite powF_add.
  transitivity (amp i * powF (z i) n * monic_eval p c (z i)); [unfold monic_eval; ring|].
  rewrite (Hroot i Hi). ring.
Qed.

(* with all z_i on the unit circle the backward prediction error vanishes too *)
Hypothesis Hunit : forall i, (i < q)%nat -> z i * conj (z i) = 1.

Theorem exp_bwd_annihilated n : (n < length x - p)%nat -> bwd_res x p c n = 0.
Proof.
  intros Hn. unfold bwd_res.
  rewrite Hx by lia.
  rewrite (sumf_ext p _ (fun j => sumf q (fun i => conj (amp i) * powF (conj (z i)) n * (c j * powF (conj (z i)) (1 + j))))).
  2:{ intros j Hj. rewrite Hx by lia. unfold expsum. rewrite sumf_conj, <- sumf_scale_r. apply sumf_ext; intros i _.
      rewrite conj_mul, conj_powF. replace (n + 1 + j)%nat with (n + (1 + j))%nat by lia. rewrite powF_add. ring. }
  rewrite sumf_exch. unfold expsum. rewrite sumf_conj, <- sumf_add. apply sumf_zero_ext; intros i Hi.
  rewrite sumf_scale, conj_mul, conj_powF. set (w := conj (z i)).
  (* 1 + sum_j c_j w^(1+j) = w^p * (z^p + sum_j c_j z^(p-1-j)) *)
  assert (E : 1 + sumf p (fun j => c j * powF w (1 + j)) = powF w p * monic_eval p c (z i)).
  { unfold monic_eval.
    transitivity (powF w (0 + p) * powF (z i) p + sumf p (fun j => c j * (powF w ((1 + j) + (p - 1 - j)) * powF (z i) (p - 1 - j)))).
    - rewrite (powF_cancel (z i) w 0 p (Hunit i Hi)). cbn [powF]. f_equal.
      apply sumf_ext; intros j Hj. rewrite (powF_cancel (z i) w (1 + j) (p - 1 - j) (Hunit i Hi)). reflexivity.
    - rewrite (sumf_ext p (fun j => c j * (powF w (1 + j + (p - 1 - j)) * powF (z i) (p - 1 - j)))
                 (fun j => powF w p * (c j * powF (z i) (p - 1 - j)))).
      2:{ intros j Hj. replace (1 + j + (p - 1 - j))%nat with p by lia. ring. }
      rewrite sumf_scale. cbn [Nat.add]. ring. }
  transitivity (conj (amp i) * powF w n * (1 + sumf p (fun j => c j * powF w (1 + j)))); [ring|].
  rewrite E, (Hroot i Hi). ring.
Qed.
End CovarExp.

Section CovarExpCode.
Context {F : Type} {OF : Ops F} {L : Laws OF} {OL : OrdLaws OF}.
Local Open Scope F_scope.
Add Field FFcf : (fth (O:=OF)).

(* what the code returns on such data: the minimum 0, every forward error 0; with full column
   rank the returned coefficients are exactly those of the root polynomial *)
Theorem covar_exponentials_thm lstsq tol (x : list F) p q amp z c a e : lstsq_spec lstsq ->
  (forall t, (t < length x)%nat -> nthF x t = expsum q amp z t) ->
  (forall i, (i < q)%nat -> monic_eval p c (z i) = 0) ->
  arcovar_with lstsq tol x p = Some (a, e) ->
  e = 0 /\ (forall n, (n < length x - p)%nat -> fwd_res x p (nthF a) n = 0)
  /\ (cov_full_rank x p -> forall j, (j < p)%nat -> nthF a j = c j).
Proof.
  intros Hs Hx Hroot H. destruct (arcovar_sound lstsq tol x p a e Hs H) as (_ & Ho & He).
  assert (Hc : forall n, (n < length x - p)%nat -> res p (cov_A x p) (cov_b x p) c n = 0).
  { intros n Hn. rewrite cov_res. exact (exp_fwd_annihilated x p q amp z c Hx Hroot n Hn). }
  destruct (ls_zero_min_f _ _ _ _ (nthF a) c Ho Hc) as [E0 R0].
  split; [rewrite He; exact E0|]. split; [exact R0|].
  intros Hr j Hj.
  apply (ls_unique_f (length x - p) p (cov_A x p) (cov_b x p) c (nthF a) Hr); [|exact Ho|exact Hj].
  apply res_zero_orth. exact Hc.
Qed.

Theorem modcovar_exponentials_thm lstsq tol (x : list F) p q amp z c a e : lstsq_spec lstsq ->
  (forall t, (t < length x)%nat -> nthF x t = expsum q amp z t) ->
  (forall i, (i < q)%nat -> monic_eval p c (z i) = 0) ->
  (forall i, (i < q)%nat -> z i * conj (z i) = 1) ->
  modcovar_with lstsq tol x p = Some (a, e) ->
  e = 0 /\ (forall n, (n < length x - p)%nat -> fwd_res x p (nthF a) n = 0 /\ bwd_res x p (nthF a) n = 0)
  /\ (mod_full_rank x p -> forall j, (j < p)%nat -> nthF a j = c j).
Proof.
  intros Hs Hx Hroot Hunit H. destruct (modcovar_sound lstsq tol x p a e Hs H) as (_ & Ho & He).
  assert (Hc : forall n, (n < 2 * (length x - p))%nat -> res p (mod_A x p) (mod_b x p) c n = 0).
  { intros n Hn. destruct (Nat.lt_ge_cases n (length x - p)) as [Hlt|Hge].
    - rewrite mod_res_fwd by exact Hlt. exact (exp_fwd_annihilated x p q amp z c Hx Hroot n Hlt).
    - replace n with (length x - p + (n - (length x - p)))%nat by lia. rewrite mod_res_bwd.
      apply (exp_bwd_annihilated x p q amp z c Hx Hroot Hunit). lia. }
  destruct (ls_zero_min_f _ _ _ _ (nthF a) c Ho Hc) as [E0 R0].
  split; [rewrite He, <- mod_energy; exact E0|]. split.
  - intros n Hn. split.
    + rewrite <- mod_res_fwd by exact Hn. apply R0. lia.
    + rewrite <- mod_res_bwd. apply R0. lia.
  - intros Hr j Hj.
    assert (Ec : fwd_energy x p c + bwd_energy x p c = e).
    { rewrite He, <- !mod_energy, E0. unfold energy. apply sumf_zero_ext; intros n Hn. rewrite (Hc n Hn). unfold nrm2; ring. }
    symmetry. exact (modcovar_unique_thm lstsq tol x p a e c Hs Hr H Ec j Hj).
Qed.
End CovarExpCode.
