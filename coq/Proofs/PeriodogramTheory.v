(* speriodogram: definition at every bin, lengths, Parseval, scaling, detrending, 2-D input. *)
Require Import Spectrum.Theory.Ops Spectrum.Theory.Sum Spectrum.Theory.Vec Spectrum.Theory.Dft
               Spectrum.Model.Corr Spectrum.Model.Periodogram.

Section PerT.
Context {F : Type} {OF : Ops F} {L : Laws OF}.
Local Open Scope F_scope.
Add Field FFp : (fth (O:=OF)).

(* ---------- generic list facts ---------- *)
Lemma nthF_map0 (g : F -> F) (l : list F) j : (j < length l)%nat -> nthF (map g l) j = g (nthF l j).
Proof.
  intros H. unfold nthF. rewrite (nth_indep _ 0 (g 0)) by (rewrite map_length; exact H). apply map_nth.
Qed.
Lemma spectrum_of_length tw isreal n (v : list F) : (1 <= n)%nat -> length (spectrum_of tw isreal n v) = nbins isreal n.
Proof.
  intros Hn. unfold spectrum_of, nbins. destruct isreal.
  - rewrite rdft_length. apply Nat.min_l.
    assert (n / 2 < n)%nat by (apply Nat.div_lt; lia). lia.
  - apply dft_length.
Qed.
Lemma nth_spectrum_of tw isreal n (v : list F) k : (k < nbins isreal n)%nat -> (1 <= n)%nat ->
  nthF (spectrum_of tw isreal n v) k = nthF (dft tw n v) k.
Proof.
  intros Hk Hn. unfold spectrum_of, nbins in *. destruct isreal; [apply nth_rdft; exact Hk|reflexivity].
Qed.
Lemma nbins_le isreal n : (1 <= n)%nat -> (nbins isreal n <= n)%nat.
Proof.
  intros Hn. unfold nbins. destruct isreal; [|lia].
  assert (n / 2 < n)%nat by (apply Nat.div_lt; lia). lia.
Qed.
Lemma psd_scale_length twopi sbf fs n (l : list F) : length (psd_scale twopi sbf fs n l) = length l.
Proof. unfold psd_scale. destruct (py_is_true sbf); [apply map_length|reflexivity]. Qed.

(* ---------- length ---------- *)
Theorem periodogram_length_thm tw twopi (x w : list F) NFFT isreal dt sbf fs :
  (1 <= resolve NFFT (length x))%nat ->
  length (speriodogram tw twopi x w NFFT isreal dt sbf fs) = nbins isreal (resolve NFFT (length x)).
Proof.
  intros Hn. unfold speriodogram. rewrite psd_scale_length, map_length. apply spectrum_of_length. exact Hn.
Qed.

(* ---------- the value of every bin, all flag values, cropping allowed ---------- *)
Definition detrend_mean (dt : pyval) (x : list F) : F := if py_eq_true dt then mean x else 0.
Definition scale_of (twopi : F) (sbf : pyval) (fs : F) (n : nat) : F := if py_is_true sbf then sbf_factor twopi fs n else 1.

Theorem periodogram_general_thm tw twopi (x w : list F) NFFT isreal dt sbf fs k :
  let n := resolve NFFT (length x) in
  (1 <= n)%nat -> (k < nbins isreal n)%nat ->
  nthF (speriodogram tw twopi x w NFFT isreal dt sbf fs) k
  = nrm2 (dftN tw (Nat.min (length x) n) (fun i => nthF x i * nthF w i - detrend_mean dt x) (Z.of_nat k)) / ofnat (length x)
    * scale_of twopi sbf fs n.
Proof.
  intros n Hn Hk. unfold speriodogram. fold n.
  set (xw := mk (length x) (fun i => nthF x i * nthF w i - (if py_eq_true dt then mean x else 0))).
  assert (Hkn : (k < n)%nat) by (pose proof (nbins_le isreal n Hn); lia).
  assert (E : nthF (map (fun z => nrm2 z / ofnat (length x)) (spectrum_of tw isreal n xw)) k
              = nrm2 (dftN tw (Nat.min (length x) n) (fun i => nthF x i * nthF w i - detrend_mean dt x) (Z.of_nat k)) / ofnat (length x)).
  { rewrite nthF_map0 by (rewrite spectrum_of_length by exact Hn; exact Hk).
    rewrite nth_spectrum_of by assumption. f_equal. f_equal.
    rewrite nth_dft_crop by exact Hkn. unfold dftN.
    destruct (Nat.le_ge_cases (length x) n) as [Hle|Hge].
    - rewrite Nat.min_l by exact Hle.
      rewrite (sumf_le_ext (length x) n) by
        (try exact Hle; intros i Hi; unfold xw; rewrite nth_mk_ge by lia; ring).
      apply sumf_ext; intros i Hi. unfold xw. rewrite nth_mk by exact Hi. reflexivity.
    - rewrite Nat.min_r by exact Hge.
      apply sumf_ext; intros i Hi. unfold xw. rewrite nth_mk by lia. reflexivity. }
  unfold psd_scale, scale_of. destruct (py_is_true sbf).
  - rewrite nthF_map0 by (rewrite map_length, spectrum_of_length by exact Hn; exact Hk). rewrite E. reflexivity.
  - rewrite E. ring.
Qed.

(* ---------- C01: no detrending, no frequency scaling, NFFT >= N ---------- *)
Theorem periodogram_def_thm tw twopi (x w : list F) NFFT isreal dt sbf fs k :
  py_eq_true dt = false -> py_is_true sbf = false ->
  let n := resolve NFFT (length x) in
  (1 <= length x <= n)%nat -> (k < nbins isreal n)%nat ->
  nthF (speriodogram tw twopi x w NFFT isreal dt sbf fs) k
  = nrm2 (dftN tw (length x) (fun i => nthF x i * nthF w i) (Z.of_nat k)) / ofnat (length x).
Proof.
  intros Hdt Hsbf n HN Hk. rewrite periodogram_general_thm by (fold n; try lia; exact Hk). fold n.
  unfold scale_of, detrend_mean. rewrite Hdt, Hsbf. rewrite Nat.min_l by lia.
  replace (dftN tw (length x) (fun i => nthF x i * nthF w i - 0) (Z.of_nat k))
    with (dftN tw (length x) (fun i => nthF x i * nthF w i) (Z.of_nat k)).
  - ring.
  - unfold dftN. apply sumf_ext; intros i _. ring.
Qed.
(* the same value written with the list-level transform of the windowed data (Appendix C form) *)
Lemma vmul_length (x w : list F) : length (vmul x w) = length x. Proof. apply mk_length. Qed.
Theorem periodogram_def_list_thm tw twopi (x w : list F) NFFT isreal dt sbf fs k :
  py_eq_true dt = false -> py_is_true sbf = false ->
  let n := resolve NFFT (length x) in
  (1 <= length x <= n)%nat -> (k < nbins isreal n)%nat ->
  nthF (speriodogram tw twopi x w NFFT isreal dt sbf fs) k = nrm2 (nthF (dft tw n (vmul x w)) k) / ofnat (length x).
Proof.
  intros Hdt Hsbf n HN Hk. rewrite periodogram_def_thm by (try fold n; assumption).
  assert (Hkn : (k < n)%nat) by (pose proof (nbins_le isreal n ltac:(lia)); lia).
  rewrite nth_dft by (rewrite ?vmul_length; lia). rewrite vmul_length.
  f_equal. f_equal. unfold dftN. apply sumf_ext; intros i Hi. unfold vmul. rewrite nth_mk by exact Hi. reflexivity.
Qed.

(* ---------- Parseval: complex data, every bin returned ---------- *)
Lemma div_as_mul (a b : F) : a / b = a * inv b.
Proof. apply (Fdiv_def (fth (O:=OF))). Qed.
Theorem parseval_periodogram_thm n tw {T : Twiddle n tw} twopi (x w : list F) dt sbf fs :
  py_eq_true dt = false -> py_is_true sbf = false -> (1 <= length x <= n)%nat ->
  sumf n (fun k => nthF (speriodogram tw twopi x w (Some n) false dt sbf fs) k)
  = ofnat n * (sumf (length x) (fun i => nrm2 (nthF x i * nthF w i)) / ofnat (length x)).
Proof.
  intros Hdt Hsbf HN.
  rewrite (sumf_ext n _ (fun k => nrm2 (dftN tw (length x) (fun i => nthF x i * nthF w i) (Z.of_nat k)) * inv (ofnat (length x)))).
  2:{ intros k Hk. rewrite periodogram_def_thm by (try assumption; cbn [resolve nbins]; lia). apply div_as_mul. }
  rewrite sumf_scale_r. rewrite (parseval n tw) by lia. rewrite div_as_mul. ring.
Qed.
(* "the mean of the NFFT values equals sum |x w|^2 / N" *)
Theorem parseval_mean_thm n tw {T : Twiddle n tw} twopi (x w : list F) dt sbf fs :
  py_eq_true dt = false -> py_is_true sbf = false -> (1 <= length x <= n)%nat -> ofnat n <> 0 ->
  sumf n (fun k => nthF (speriodogram tw twopi x w (Some n) false dt sbf fs) k) / ofnat n
  = sumf (length x) (fun i => nrm2 (nthF x i * nthF w i)) / ofnat (length x).
Proof.
  intros Hdt Hsbf HN Hn. rewrite (parseval_periodogram_thm n tw) by assumption.
  rewrite (div_as_mul _ (ofnat (length x))). generalize (inv (ofnat (length x))); intros q. field. exact Hn.
Qed.

(* ---------- 2-D input is the column-wise 1-D result ---------- *)
Lemma nth_map_seq {A} (g : nat -> A) (d : A) n i : (i < n)%nat -> nth i (map g (seq 0 n)) d = g i.
Proof.
  intros H. rewrite (nth_indep _ d (g O)) by (rewrite map_length, seq_length; exact H).
  rewrite map_nth, seq_nth by exact H. reflexivity.
Qed.
Lemma transposeL_length r c (M : list (list F)) : length (transposeL r c M) = r.
Proof. unfold transposeL. rewrite map_length, seq_length. reflexivity. Qed.
Lemma nth_transposeL r c (M : list (list F)) i j : (i < r)%nat -> (j < c)%nat ->
  nthF (nth i (transposeL r c M) []) j = nthF (nth j M []) i.
Proof. intros Hi Hj. unfold transposeL. rewrite nth_map_seq by exact Hi. rewrite nth_mk by exact Hj. reflexivity. Qed.
Lemma transposeL_row_length r c (M : list (list F)) i : (i < r)%nat -> length (nth i (transposeL r c M) []) = c.
Proof. intros Hi. unfold transposeL. rewrite nth_map_seq by exact Hi. apply mk_length. Qed.
Lemma colL_length (M : list (list F)) j : length (colL M j) = length M.
Proof. apply map_length. Qed.
Lemma nth_colL (M : list (list F)) j i : nthF (colL M j) i = nthF (nth i M []) j.
Proof.
  unfold colL. destruct (Nat.lt_ge_cases i (length M)) as [H|H].
  - unfold nthF at 1. rewrite (nth_indep _ 0 (nthF [] j)) by (rewrite map_length; exact H).
    rewrite (map_nth (fun row => nthF row j) M [] i). reflexivity.
  - rewrite nthF_overflow by (rewrite map_length; exact H). rewrite (nth_overflow M) by exact H.
    unfold nthF. destruct j; reflexivity.
Qed.
Lemma nth_repeat_lt {A} (a d : A) n j : (j < n)%nat -> nth j (repeat a n) d = a.
Proof. revert j; induction n; intros j H; [lia|]. destruct j; [reflexivity|]. cbn. apply IHn. lia. Qed.

Theorem periodogram_2d_thm tw twopi (X : list (list F)) c (w : list F) NFFT isreal dt sbf fs k j :
  let n := resolve NFFT (length X) in
  (1 <= n)%nat -> (k < nbins isreal n)%nat -> (j < c)%nat ->
  nthF (nth k (speriodogram2d tw twopi X c w NFFT isreal dt sbf fs) []) j
  = nthF (speriodogram tw twopi (colL X j) w NFFT isreal dt sbf fs) k.
Proof.
  intros n Hn Hk Hj. unfold speriodogram2d, speriodogram. rewrite colL_length. fold n.
  set (r := length X).
  set (Y := map (fun i => mk c (fun j0 => nthF (nth i X []) j0 * nthF (nth i (transposeL r c (repeat w c)) []) j0
                                          - (if py_eq_true dt then mean (colL X j0) else 0))) (seq 0 r)).
  set (xw := mk r (fun i => nthF (colL X j) i * nthF w i - (if py_eq_true dt then mean (colL X j) else 0))).
  assert (EY : colL Y j = xw).
  { apply list_eq_nth.
    - rewrite colL_length. unfold Y, xw. rewrite map_length, seq_length, mk_length. reflexivity.
    - intros i Hi. rewrite colL_length in Hi. unfold Y in Hi. rewrite map_length, seq_length in Hi.
      rewrite nth_colL. unfold Y. rewrite nth_map_seq by exact Hi. rewrite nth_mk by exact Hj.
      unfold xw. rewrite nth_mk by exact Hi. rewrite nth_transposeL by assumption.
      rewrite nth_repeat_lt by exact Hj. rewrite nth_colL. reflexivity. }
  set (S := map (fun j0 => map (fun z => nrm2 z / ofnat r) (spectrum_of tw isreal n (colL Y j0))) (seq 0 c)).
  assert (ES : nthF (nth k (transposeL (nbins isreal n) c S) []) j
               = nthF (map (fun z => nrm2 z / ofnat r) (spectrum_of tw isreal n xw)) k).
  { rewrite nth_transposeL by assumption. unfold S. rewrite nth_map_seq by exact Hj. rewrite EY. reflexivity. }
  unfold psd_scale. destruct (py_is_true sbf).
  - assert (Hrow : (k < length (transposeL (nbins isreal n) c S))%nat) by (rewrite transposeL_length; exact Hk).
    rewrite (nth_indep _ [] (map (fun p => p * sbf_factor twopi fs n) [])) by (rewrite map_length; exact Hrow).
    rewrite (map_nth (map (fun p => p * sbf_factor twopi fs n))).
    rewrite nthF_map0 by (rewrite transposeL_row_length by exact Hk; exact Hj).
    rewrite nthF_map0 by (rewrite map_length, spectrum_of_length by exact Hn; exact Hk).
    rewrite ES. reflexivity.
  - exact ES.
Qed.
Theorem periodogram_2d_shape_thm tw twopi (X : list (list F)) c (w : list F) NFFT isreal dt sbf fs :
  let n := resolve NFFT (length X) in
  length (speriodogram2d tw twopi X c w NFFT isreal dt sbf fs) = nbins isreal n /\
  forall k, (k < nbins isreal n)%nat -> length (nth k (speriodogram2d tw twopi X c w NFFT isreal dt sbf fs) []) = c.
Proof.
  intros n. unfold speriodogram2d. fold n. set (R := transposeL (nbins isreal n) c _).
  destruct (py_is_true sbf).
  - split; [rewrite map_length; apply transposeL_length|].
    intros k Hk. rewrite (nth_indep _ [] (map (fun p => p * sbf_factor twopi fs n) [])) by (rewrite map_length; unfold R; rewrite transposeL_length; exact Hk).
    rewrite (map_nth (map (fun p => p * sbf_factor twopi fs n))), map_length. apply transposeL_row_length. exact Hk.
  - split; [apply transposeL_length|]. intros k Hk. apply transposeL_row_length. exact Hk.
Qed.
Theorem periodogram_2d_full_thm tw twopi (X : list (list F)) c (w : list F) NFFT isreal dt sbf fs :
  let n := resolve NFFT (length X) in
  (1 <= n)%nat ->
  length (speriodogram2d tw twopi X c w NFFT isreal dt sbf fs) = nbins isreal n /\
  forall k, (k < nbins isreal n)%nat ->
    length (nth k (speriodogram2d tw twopi X c w NFFT isreal dt sbf fs) []) = c /\
    forall j, (j < c)%nat ->
      nthF (nth k (speriodogram2d tw twopi X c w NFFT isreal dt sbf fs) []) j
      = nthF (speriodogram tw twopi (colL X j) w NFFT isreal dt sbf fs) k.
Proof.
  intros n Hn. destruct (periodogram_2d_shape_thm tw twopi X c w NFFT isreal dt sbf fs) as [H1 H2].
  split; [exact H1|]. intros k Hk. split; [apply H2; exact Hk|]. intros j Hj. apply periodogram_2d_thm; assumption.
Qed.
End PerT.
