(* rc2poly: the IR program generated from linear_prediction.py - a loop over the embedded levup (levinson.py) - computes the hand-written model
   Model.LinPred.rc2poly, for ALL inputs: [levup_ir_run] (Proofs/LoopIRLevup.v) through the call lemma [scall_run] and an induction over the range.

   PROVED (abstract field with conjugation [Laws]; every [feq] with [feq 1 1 = true] - the code tests a[0] != 1 inside levup -; any dtype tag; r0
   omitted or given):
     rc2poly_ir_run    run = IndexError for the empty sequence (kr[0]); else ORet [a; efinal] of Model.LinPred.rc2poly kr r0 (r0 omitted = 0); the array
                       is tagged complex by the IR (a list display of scalars; the tag is not compared by the tie, see Model/LoopIRWrap.v)
     rc2poly_ir_tie    for every reflexive [feq]: the boolean [tie_rc2poly] is true for EVERY input
   NOT PROVED: nothing within the IR semantics. *)
From Coq Require Import String ZArith List Lia Bool.
Require Import Spectrum.Theory.Ops Spectrum.Theory.Sum Spectrum.Theory.Vec Spectrum.Model.LoopIR Spectrum.Model.Levinson Spectrum.Model.LinPred
               Spectrum.Model.LoopIRTie Spectrum.Model.LoopIRWrap Spectrum.Proofs.LoopIRLevinson Spectrum.Proofs.LoopIRLevup
               Spectrum.Proofs.LoopIRCorrelation Spectrum.Proofs.LoopIRAryule.
Import ListNotations.
Local Open Scope string_scope.

(* ---------------------------------------------------------------- the program, decomposed *)
Definition r2p_call : stmt :=
  SCall [7%nat; 8%nat] (p_nparams prog_levup_ref) (p_defaults prog_levup_ref) (p_nslots prog_levup_ref) (p_body prog_levup_ref)
        [Some (EVar 3); Some (EIndex (EVar 0) (EVar 6)); Some (EIndex (EVar 4) (EBin BSub (EVar 6) (EInt 1)))].
Definition r2p_body : stmt := SSeq r2p_call (SSeq (SAssign 3 (EVar 7)) (SStore 4 (EVar 6) (EVar 8))).
Definition r2p_loop : stmt := SFor 6 (EInt 1) (EVar 2) (EInt 1) r2p_body.
Definition r2p_e0 : stmt := SIf (EIsNone (EVar 1)) (SAssign 5 (EInt 0)) (SAssign 5 (EVar 1)).
Definition r2p_store0 : stmt :=
  SStore 4 (EInt 0) (EBin BMul (EVar 5) (EBin BSub (ELit 1 0) (EConj (EBin BMul (EConj (EIndex (EVar 0) (EInt 0))) (EIndex (EVar 0) (EInt 0)))))).
Definition r2p_main : stmt :=
  SSeq (SAssign 2 (ELen (EVar 0)))
  (SSeq (SAssign 3 (ECopy (EArrCons (EInt 1) (EArrCons (EIndex (EVar 0) (EInt 0)) EArrNil))))
  (SSeq (SAssign 4 (EZeros (ELen (EVar 0)) true))
  (SSeq r2p_e0
  (SSeq r2p_store0
  (SSeq r2p_loop
  (SSeq (SAssign 9 (EIndex (EVar 4) (ENeg (EInt 1))))
        (SReturn [EVar 3; EVar 9]))))))).
Definition prog_rc2poly_ref : program := mkProgram "rc2poly" 2 [None; (Some ENone)] 10 r2p_main.

Section Main.
Context {F : Type} {OF : Ops F} {L : Laws OF}.
Variable feq : F -> F -> bool.
Variable stop : Z -> F -> F -> bool.
Local Open Scope F_scope.
Hypothesis feq_11 : feq 1 1 = true.
Local Open Scope list_scope.
Add Field FFr2p : (fth (O:=OF)).
Notation value := (@value F).
Notation store := (@store F).
Notation exec := (@exec F OF feq stop).

Lemma ofZ_1r : @ofZ F OF 1 = 1.
Proof. unfold ofZ. change (Pos.to_nat 1) with 1%nat. cbn [ofnat]. ring. Qed.
Lemma lit_1r : @lit F OF 1 0 = 1.
Proof. unfold lit. apply ofZ_1r. Qed.

Lemma for_loop_from (f : store -> store * ctl) v (I : nat -> store -> Prop) lo n st :
  I O st ->
  (forall i s, (i < n)%nat -> I i s -> exists s', f (set s v (VI (lo + Z.of_nat i))) = (s', CNormal) /\ I (S i) s') ->
  exists s', for_loop f v (range_from lo 1 n) st = (s', CNormal) /\ I n s'.
Proof.
  intros H0 Hs. induction n.
  - exists st. split; [reflexivity|exact H0].
  - destruct IHn as [s1 [E1 I1]]. { intros i s Hi. apply Hs. lia. }
    destruct (Hs n s1 (Nat.lt_succ_diag_r n) I1) as [s2 [E2 I2]].
    exists s2. split; [|exact I2].
    replace (S n) with (n + 1)%nat by lia. rewrite range_from_app, for_loop_app, E1. cbn [range_from for_loop]. rewrite E2. reflexivity.
Qed.

(* the model's stages *)
Definition stage (k0 : F) (t : list F) (E0 : F) (i : nat) : list F * F := rc2poly_iter (firstn i t) [1; k0] E0.
Lemma iter_snoc (l : list F) k a e :
  rc2poly_iter (l ++ [k]) a e = levup (fst (rc2poly_iter l a e)) k (snd (rc2poly_iter l a e)).
Proof.
  revert a e. induction l as [|k' l IH]; intros a e.
  - cbn [app rc2poly_iter fst snd]. destruct (levup a k e) as [a' e']. reflexivity.
  - cbn [app rc2poly_iter]. destruct (levup a k' e) as [a' e']. apply IH.
Qed.
Lemma firstn_S_nth (t : list F) i : (i < length t)%nat -> firstn (S i) t = firstn i t ++ [nthF t i].
Proof.
  revert i. induction t as [|a t IH]; intros i H; [cbn [length] in H; lia|].
  destruct i; [reflexivity|]. cbn [firstn app]. rewrite nthF_consS. f_equal. apply IH. cbn [length] in H. lia.
Qed.
Lemma stage_S k0 t E0 i : (i < length t)%nat ->
  stage k0 t E0 (S i) = levup (fst (stage k0 t E0 i)) (nthF t i) (snd (stage k0 t E0 i)).
Proof. intros H. unfold stage. rewrite (firstn_S_nth t i H). apply iter_snoc. Qed.
Lemma stage_head k0 t E0 i : (i <= length t)%nat -> exists tl', fst (stage k0 t E0 i) = 1 :: tl'.
Proof.
  intros H. destruct i.
  - exists [k0]. reflexivity.
  - rewrite stage_S by lia. unfold levup. cbn [fst]. eexists. reflexivity.
Qed.

(* the error array after i passes: entries 0..i hold the stage errors, the rest is zero *)
Definition evec (k0 : F) (t : list F) (E0 : F) (i : nat) : list F :=
  mk (S (length t)) (fun j => if (j <=? i)%nat then snd (stage k0 t E0 j) else 0).

Lemma updF_mk (l : list F) i v : (i < length l)%nat -> updF l i v = mk (length l) (fun j => if Nat.eqb j i then v else nthF l j).
Proof.
  intros H. apply list_eq_nth.
  - rewrite updF_length, mk_length. reflexivity.
  - intros j Hj. rewrite updF_length in Hj. rewrite nthF_updF by exact H. rewrite nth_mk by exact Hj. reflexivity.
Qed.

Lemma evec_S k0 t E0 i : (S i <= length t)%nat ->
  updF (evec k0 t E0 i) (S i) (snd (stage k0 t E0 (S i))) = evec k0 t E0 (S i).
Proof.
  intros H. rewrite updF_mk by (unfold evec; rewrite mk_length; lia). unfold evec. rewrite mk_length. apply mk_ext. intros j Hj.
  rewrite nth_mk by exact Hj.
  destruct (Nat.eqb_spec j (S i)) as [->|N].
  - rewrite Nat.leb_refl. reflexivity.
  - destruct (Nat.leb_spec j i); destruct (Nat.leb_spec j (S i)); try reflexivity; lia.
Qed.

(* the loop body: one levup through the call *)
Definition rst (tk : bool) (k0 : F) (t : list F) (vr0 v5 : value) (ta : bool) (a e : list F) (v6 v7 v8 : value) : store :=
  [VArr tk (k0 :: t); vr0; VI (Z.of_nat (S (length t))); VArr ta a; VArr true e; v5; v6; v7; v8; VUnbound].

Lemma r2p_body_ok tk k0 t vr0 v5 E0 i ta v7 v8 : (i < length t)%nat ->
  exists v7' v8',
  exec r2p_body (rst tk k0 t vr0 v5 ta (fst (stage k0 t E0 i)) (evec k0 t E0 i) (VI (1 + Z.of_nat i)) v7 v8) =
  (rst tk k0 t vr0 v5 false (fst (stage k0 t E0 (S i))) (evec k0 t E0 (S i)) (VI (1 + Z.of_nat i)) v7' v8', CNormal).
Proof.
  intros Hi.
  destruct (stage_head k0 t E0 i (Nat.lt_le_incl _ _ Hi)) as [tl' Hh].
  set (a := fst (stage k0 t E0 i)) in *. set (e := evec k0 t E0 i).
  assert (Ea : eval_oargs feq (rst tk k0 t vr0 v5 ta a e (VI (1 + Z.of_nat i)) v7 v8)
                 [Some (EVar 3); Some (EIndex (EVar 0) (EVar 6)); Some (EIndex (EVar 4) (EBin BSub (EVar 6) (EInt 1)))]
               = inl [Some (VArr ta a); Some (VF (nthF t i)); Some (VF (snd (stage k0 t E0 i)))]).
  { unfold rst. cbn [eval_oargs eval get nth bind ok asArr asZ fst snd arith arithZ].
    rewrite (norm_index_ok (length (k0 :: t)) (1 + Z.of_nat i)) by (cbn [length]; lia).
    replace (1 + Z.of_nat i - 1)%Z with (Z.of_nat i) by lia.
    rewrite (norm_index_nat (length e) i) by (unfold e, evec; rewrite mk_length; lia).
    cbn [bind ok]. replace (Z.to_nat (1 + Z.of_nat i)) with (S i) by lia. rewrite nthF_consS.
    unfold e, evec. rewrite nth_mk by lia. rewrite Nat.leb_refl. reflexivity. }
  pose proof (scall_run feq stop [7%nat; 8%nat] prog_levup_ref _ _ _ Ea (le_n 2)) as H. fold r2p_call in H.
  pose proof (levup_ir_run feq stop ta a (nthF t i) (Some (snd (stage k0 t E0 i)))) as HL. cbn [option_map] in HL.
  rewrite HL in H. clear HL. rewrite Hh in H. rewrite feq_11 in H. cbn [negb] in H. rewrite <- Hh in H. specialize (H eq_refl).
  unfold r2p_body. rewrite (exec_seq feq stop _ _ _ _ H). clear H.
  assert (E1 : fst (levup a (nthF t i) 0) = fst (stage k0 t E0 (S i))) by (rewrite stage_S by exact Hi; reflexivity).
  assert (E2 : snd (levup a (nthF t i) (snd (stage k0 t E0 i))) = snd (stage k0 t E0 (S i))) by (rewrite stage_S by exact Hi; reflexivity).
  rewrite E1, E2.
  exists (VArr false (fst (stage k0 t E0 (S i)))), (VF (snd (stage k0 t E0 (S i)))).
  unfold rst. cbn [set_all set LoopIR.exec eval get nth bind try ok asArr asZ asF fst snd].
  rewrite (norm_index_ok (length e) (1 + Z.of_nat i)) by (unfold e, evec; rewrite mk_length; lia).
  cbn [bind ok]. replace (Z.to_nat (1 + Z.of_nat i)) with (S i) by lia.
  unfold e. rewrite (evec_S k0 t E0 i Hi). reflexivity.
Qed.

Definition vr0_of (r0 : option F) : value := match r0 with Some z => VF z | None => VNone end.
Definition v5_of (r0 : option F) : value := match r0 with Some z => VF z | None => VI 0 end.
Definition r0_of (r0 : option F) : F := match r0 with Some z => z | None => 0 end.

Theorem rc2poly_ir_run tk (kr : list F) (r0 : option F) :
  run feq stop prog_rc2poly_ref [Some (VArr tk kr); option_map VF r0] =
  match rc2poly kr (r0_of r0) with
  | Some (a, e) => ORet [VArr false a; VF e]
  | None => OErr IndexError
  end.
Proof.
  unfold run, prog_rc2poly_ref. cbn [p_defaults p_body p_nslots p_nparams Nat.sub].
  assert (B : bind_args feq [None; Some ENone] [Some (VArr tk kr); option_map VF r0] = inl [VArr tk kr; vr0_of r0]) by (destruct r0; reflexivity).
  rewrite B. clear B. cbn [app repeat]. unfold r2p_main.
  destruct kr as [|k0 t].
  - (* kr[0] on the empty sequence *)
    cbn [LoopIR.exec eval get set nth bind try ok asArr asZ asF fst snd length Z.of_nat norm_index Z.ltb Z.leb Z.compare andb rc2poly]. reflexivity.
  - set (E0 := r0_of r0 * (1 - conj (conj k0 * k0))).
    (* the statements before the loop *)
    assert (Hpre : forall rest,
      exec (SSeq (SAssign 2 (ELen (EVar 0)))
           (SSeq (SAssign 3 (ECopy (EArrCons (EInt 1) (EArrCons (EIndex (EVar 0) (EInt 0)) EArrNil))))
           (SSeq (SAssign 4 (EZeros (ELen (EVar 0)) true)) (SSeq r2p_e0 (SSeq r2p_store0 rest)))))
           [VArr tk (k0 :: t); vr0_of r0; VUnbound; VUnbound; VUnbound; VUnbound; VUnbound; VUnbound; VUnbound; VUnbound] =
      exec rest (rst tk k0 t (vr0_of r0) (v5_of r0) false (fst (stage k0 t E0 0)) (evec k0 t E0 0) VUnbound VUnbound VUnbound)).
    { intros rest.
      assert (H1 : exec (SAssign 2 (ELen (EVar 0)))
                     [VArr tk (k0 :: t); vr0_of r0; VUnbound; VUnbound; VUnbound; VUnbound; VUnbound; VUnbound; VUnbound; VUnbound] =
                   ([VArr tk (k0 :: t); vr0_of r0; VI (Z.of_nat (S (length t))); VUnbound; VUnbound; VUnbound; VUnbound; VUnbound; VUnbound; VUnbound], CNormal))
        by reflexivity.
      rewrite (exec_seq feq stop _ _ _ _ H1). clear H1.
      assert (H2 : exec (SAssign 3 (ECopy (EArrCons (EInt 1) (EArrCons (EIndex (EVar 0) (EInt 0)) EArrNil))))
                     [VArr tk (k0 :: t); vr0_of r0; VI (Z.of_nat (S (length t))); VUnbound; VUnbound; VUnbound; VUnbound; VUnbound; VUnbound; VUnbound] =
                   ([VArr tk (k0 :: t); vr0_of r0; VI (Z.of_nat (S (length t))); VArr false [ofZ 1; k0]; VUnbound; VUnbound; VUnbound; VUnbound; VUnbound; VUnbound], CNormal))
        by reflexivity.
      rewrite (exec_seq feq stop _ _ _ _ H2). clear H2.
      assert (H3 : exec (SAssign 4 (EZeros (ELen (EVar 0)) true))
                     [VArr tk (k0 :: t); vr0_of r0; VI (Z.of_nat (S (length t))); VArr false [ofZ 1; k0]; VUnbound; VUnbound; VUnbound; VUnbound; VUnbound; VUnbound] =
                   ([VArr tk (k0 :: t); vr0_of r0; VI (Z.of_nat (S (length t))); VArr false [ofZ 1; k0];
                     VArr true (mk (Z.to_nat (Z.of_nat (S (length t)))) (fun _ => 0)); VUnbound; VUnbound; VUnbound; VUnbound; VUnbound], CNormal))
        by reflexivity.
      rewrite (exec_seq feq stop _ _ _ _ H3). clear H3. rewrite Nat2Z.id.
      assert (H4 : exec r2p_e0
                     [VArr tk (k0 :: t); vr0_of r0; VI (Z.of_nat (S (length t))); VArr false [ofZ 1; k0];
                      VArr true (mk (S (length t)) (fun _ => 0)); VUnbound; VUnbound; VUnbound; VUnbound; VUnbound] =
                   ([VArr tk (k0 :: t); vr0_of r0; VI (Z.of_nat (S (length t))); VArr false [ofZ 1; k0];
                     VArr true (mk (S (length t)) (fun _ => 0)); v5_of r0; VUnbound; VUnbound; VUnbound; VUnbound], CNormal))
        by (destruct r0; reflexivity).
      rewrite (exec_seq feq stop _ _ _ _ H4). clear H4.
      assert (H5 : exec r2p_store0
                     [VArr tk (k0 :: t); vr0_of r0; VI (Z.of_nat (S (length t))); VArr false [ofZ 1; k0];
                      VArr true (mk (S (length t)) (fun _ => 0)); v5_of r0; VUnbound; VUnbound; VUnbound; VUnbound] =
                   ([VArr tk (k0 :: t); vr0_of r0; VI (Z.of_nat (S (length t))); VArr false [ofZ 1; k0];
                     VArr true (updF (mk (S (length t)) (fun _ => 0)) 0 (match r0 with Some z => z | None => ofZ 0 end * (lit 1 0 - conj (conj k0 * k0))));
                     v5_of r0; VUnbound; VUnbound; VUnbound; VUnbound], CNormal)).
      { unfold r2p_store0. cbn [LoopIR.exec get nth bind try ok asArr fst snd eval asZ].
        rewrite (norm_index_ok (length (mk (S (length t)) (fun _ : nat => 0))) 0) by (rewrite mk_length; lia).
        rewrite (norm_index_ok (length (k0 :: t)) 0) by (cbn [length]; lia).
        destruct r0; reflexivity. }
      rewrite (exec_seq feq stop _ _ _ _ H5). clear H5.
      assert (Ee : updF (mk (S (length t)) (fun _ : nat => 0)) 0 (match r0 with Some z => z | None => ofZ 0 end * (lit 1 0 - conj (conj k0 * k0)))
                   = evec k0 t E0 0).
      { rewrite updF_mk by (rewrite mk_length; lia). rewrite mk_length. unfold evec. apply mk_ext. intros j Hj.
        destruct j; cbn [Nat.eqb Nat.leb].
        - unfold stage. cbn [firstn rc2poly_iter snd]. unfold E0. rewrite lit_1r. destruct r0; reflexivity.
        - rewrite nth_mk by exact Hj. reflexivity. }
      rewrite Ee. unfold stage, rst. cbn [firstn rc2poly_iter fst]. rewrite ofZ_1r. reflexivity. }
    rewrite Hpre. clear Hpre.
    (* the loop *)
    destruct (for_loop_from (LoopIR.exec feq stop r2p_body) 6
                (fun i s => exists v6 v7 v8, s = rst tk k0 t (vr0_of r0) (v5_of r0) false (fst (stage k0 t E0 i)) (evec k0 t E0 i) v6 v7 v8)
                1 (length t)
                (rst tk k0 t (vr0_of r0) (v5_of r0) false (fst (stage k0 t E0 0)) (evec k0 t E0 0) VUnbound VUnbound VUnbound))
      as [s' [El [v6 [v7 [v8 Es]]]]].
    { exists VUnbound, VUnbound, VUnbound. reflexivity. }
    { intros i s Hi [v6 [v7 [v8 ->]]].
      destruct (r2p_body_ok tk k0 t (vr0_of r0) (v5_of r0) E0 i false v7 v8 Hi) as [v7' [v8' E]].
      eexists. split; [exact E|]. exists (VI (1 + Z.of_nat i)), v7', v8'. reflexivity. }
    subst s'.
    assert (Hloop : exec r2p_loop (rst tk k0 t (vr0_of r0) (v5_of r0) false (fst (stage k0 t E0 0)) (evec k0 t E0 0) VUnbound VUnbound VUnbound) =
                    (rst tk k0 t (vr0_of r0) (v5_of r0) false (fst (stage k0 t E0 (length t))) (evec k0 t E0 (length t)) v6 v7 v8, CNormal)).
    { unfold r2p_loop. cbn [LoopIR.exec]. unfold rst at 1 2 3. cbn [eval get nth bind try ok asZ].
      unfold range_vals. cbn [Z.eqb]. rewrite range_len_up by lia.
      replace (Z.to_nat (Z.of_nat (S (length t)) - 1)) with (length t) by lia.
      cbn [try]. fold (rst tk k0 t (vr0_of r0) (v5_of r0) false (fst (stage k0 t E0 0)) (evec k0 t E0 0) VUnbound VUnbound VUnbound).
      unfold try, ok. rewrite El. reflexivity. }
    rewrite (exec_seq feq stop _ _ _ _ Hloop). clear Hloop El.
    (* efinal = e[-1]; return *)
    unfold rst. cbn [LoopIR.exec eval get set nth bind try ok asArr asZ fst snd eval_list Z.opp].
    assert (Hn : norm_index (length (evec k0 t E0 (length t))) (-1) = inl (length t)).
    { unfold evec. rewrite mk_length. unfold norm_index. cbn [Z.ltb Z.compare].
      replace ((0 <=? -1 + Z.of_nat (S (length t))) && (-1 + Z.of_nat (S (length t)) <? Z.of_nat (S (length t))))%Z with true
        by (symmetry; apply andb_true_intro; split; [apply Z.leb_le|apply Z.ltb_lt]; lia).
      unfold ok. f_equal. lia. }
    rewrite Hn. cbn [bind try ok set nth eval_list eval get].
    unfold evec at 1. rewrite nth_mk by lia. rewrite Nat.leb_refl.
    unfold rc2poly. fold E0. unfold stage. rewrite firstn_all.
    destruct (rc2poly_iter t [1; k0] E0) as [a e]. reflexivity.
Qed.
End Main.

Section TieTrue.
Context {F : Type} {OF : Ops F} {L : Laws OF}.
Variable feq : F -> F -> bool.
Hypothesis feq_refl : forall a, feq a a = true.

Theorem rc2poly_ir_tie tk (kr : list F) (r0 : option F) : tie_rc2poly feq prog_rc2poly_ref tk kr r0 = true.
Proof.
  unfold tie_rc2poly. rewrite (rc2poly_ir_run feq (@nostop F) (feq_refl 1%F) tk kr r0). unfold r0_of.
  destruct (rc2poly kr match r0 with Some v => v | None => 0%F end) as [[a e]|]; [|reflexivity].
  rewrite (leq_refl feq feq_refl), feq_refl. reflexivity.
Qed.
End TieTrue.

(* BEGIN GENERATED rc2poly (verbatim output of tools/props/_loopir.py for spectrum.linear_prediction.rc2poly) *)
(* rc2poly: slots 0=kr 1=r0 2=p 3=a 4=e 5=e0 6=k 7=levup@ret0#7 8=levup@ret1#8 9=efinal *)
Definition prog_rc2poly_gen0 : program := mkProgram "rc2poly" 2 [None; (Some ENone)] 10
(SSeq (SAssign 2 (ELen (EVar 0)))
(SSeq (SAssign 3 (ECopy (EArrCons (EInt 1) (EArrCons (EIndex (EVar 0) (EInt 0)) EArrNil))))
(SSeq (SAssign 4 (EZeros (ELen (EVar 0)) true))
(SSeq (SIf (EIsNone (EVar 1))
(SAssign 5 (EInt 0))
(SAssign 5 (EVar 1)))
(SSeq (SStore 4 (EInt 0) (EBin BMul (EVar 5) (EBin BSub (ELit 1 0) (EConj (EBin BMul (EConj (EIndex (EVar 0) (EInt 0))) (EIndex (EVar 0) (EInt 0)))))))
(SSeq (SFor 6 (EInt 1) (EVar 2) (EInt 1)
(SSeq (SCall [7%nat; 8%nat] 3 [None; None; (Some ENone)] 5
(SSeq (SIf (ECmp CNe (EIndex (EVar 0) (EInt 0)) (EInt 1))
(SRaise ValueError)
(SSkip))
(SSeq (SAssign 0 (ESlice (EVar 0) (Some (EInt 1)) None None))
(SSeq (SAssign 3 (EBin BAdd (EConcat (EVar 0) (EArrCons (EInt 0) EArrNil)) (EBin BMul (EVar 1) (EConcat (EConj (ESlice (EVar 0) (Some (ENeg (EInt 1))) None (Some (ENeg (EInt 1))))) (EArrCons (EInt 1) EArrNil)))))
(SSeq (SAssign 4 ENone)
(SSeq (SIf (ENot (EIsNone (EVar 2)))
(SAssign 4 (EBin BMul (EBin BSub (ELit 1 0) (EDot (EConj (EVar 1)) (EVar 1))) (EVar 2)))
(SSkip))
(SSeq (SAssign 3 (EInsert (EVar 3) (EInt 0) (EInt 1)))
(SReturn [(EVar 3); (EVar 4)])))))))
[(Some (EVar 3)); (Some (EIndex (EVar 0) (EVar 6))); (Some (EIndex (EVar 4) (EBin BSub (EVar 6) (EInt 1))))])
(SSeq (SAssign 3 (EVar 7))
(SStore 4 (EVar 6) (EVar 8)))))
(SSeq (SAssign 9 (EIndex (EVar 4) (ENeg (EInt 1))))
(SReturn [(EVar 3); (EVar 9)])))))))).
(* END GENERATED rc2poly *)

Example prog_rc2poly_ref_is_generated : prog_rc2poly_ref = prog_rc2poly_gen0.
Proof. reflexivity. Qed.

Print Assumptions rc2poly_ir_run.
Print Assumptions rc2poly_ir_tie.
