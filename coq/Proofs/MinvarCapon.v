(* The LDL^H reading of the Levinson invariant and the Capon quadratic form.
   R[i][j] = r(i-j) (Hermitian Toeplitz, i,j < M).  If for every k < M the order-k predictor a_k with error P_k
   satisfies the Levinson invariant (T_k [1,a_k] = [P_k,0..0]), then with U[k][j] = a_k[k-j] (j <= k, else 0):
       U R U^H = diag(P_0..P_{M-1})                                   (toeplitz_ldl)
   and for every y with R y = e:   e^H y = sum_{k<M} |U e|_k^2 / P_k    (quadform_predictors)
   — i.e. e^H R^-1 e without ever forming the inverse; with e_i = w^-i this is sum_k |A_k(w)|^2 / P_k. *)
Require Import Spectrum.Theory.Ops Spectrum.Theory.Sum Spectrum.Theory.Vec Spectrum.Theory.Dft
               Spectrum.Model.Levinson Spectrum.Proofs.LevinsonTheory.

Section Capon.
Context {F : Type} {OF : Ops F} {L : Laws OF}.
Local Open Scope F_scope.
Add Field FFcp : (fth (O:=OF)).

(* every vector is a combination of a unit upper-triangular family *)
Lemma tri_basis M (w : nat -> nat -> F) :
  (forall l, (l < M)%nat -> w l l = 1) -> (forall l j, (l < M)%nat -> (l < j)%nat -> w l j = 0) ->
  forall y : nat -> F, exists c : nat -> F, forall j, (j < M)%nat -> y j = sumf M (fun l => c l * w l j).
Proof.
  induction M as [|M IH]; intros Hd Hu y.
  - exists (fun _ => 0). intros j Hj. lia.
  - destruct (IH ltac:(intros; apply Hd; lia) ltac:(intros; apply Hu; lia) (fun j => y j - y M * w M j)) as [c Hc].
    exists (fun l => if (l =? M)%nat then y M else c l). intros j Hj. rewrite sumf_S, Nat.eqb_refl.
    rewrite (sumf_ext M _ (fun l => c l * w l j)).
    2:{ intros l Hl. destruct (Nat.eqb_spec l M); [lia|reflexivity]. }
    destruct (Nat.eq_dec j M) as [->|Hne].
    + rewrite sumf_zero_ext. { rewrite Hd by lia. ring. }
      intros l Hl. rewrite Hu by lia. ring.
    + rewrite <- Hc by lia. ring.
Qed.

Section Fixed.
Variable r : list F.
Hypothesis r0_real : isreal (nthF r O).
Variable M : nat.
Variable a : nat -> nat -> F.      (* a k = order-k prediction-error filter, a k 0 = 1 *)
Variable P : nat -> F.
Hypothesis HInv : forall k, (k < M)%nat -> Inv r k (a k) (P k).

Lemma rr_conj i j : conj (rr r i j) = rr r j i.
Proof. unfold rr. rewrite (rz_conj r r0_real). f_equal. lia. Qed.

Definition upred (k j : nat) : F := if (j <=? k)%nat then a k (k - j)%nat else 0.
Definition RW (l i : nat) : F := sumf M (fun j => rr r i j * conj (upred l j)).
Definition Gram (k l : nat) : F := sumf M (fun i => upred k i * RW l i).

Lemma RW_row l i : (l < M)%nat -> (i <= l)%nat -> RW l i = conj (row r l (a l) (l - i)%nat).
Proof.
  intros Hl Hi. unfold RW, row.
  rewrite (sumf_le_ext (S l) M); [|lia|intros j Hj; unfold upred; destruct (Nat.leb_spec j l); [lia|rewrite conj_0; ring]].
  rewrite (sumf_rev (S l)), sumf_conj. apply sumf_ext; intros j Hj.
  unfold upred. destruct (Nat.leb_spec (S l - 1 - j) l); [|lia].
  rewrite conj_mul, rr_conj. replace (l - (S l - 1 - j))%nat with j by lia.
  rewrite (Rmul_comm (F_R (fth (O:=OF)))). f_equal. unfold rr. f_equal. lia.
Qed.

Lemma RW_tri l i : (l < M)%nat -> (i <= l)%nat -> RW l i = if (i =? l)%nat then P l else 0.
Proof.
  intros Hl Hi. rewrite RW_row by assumption. destruct (HInv l Hl) as (_ & HPr & H0 & Hz).
  destruct (Nat.eqb_spec i l) as [->|Hne].
  - rewrite Nat.sub_diag, H0. exact HPr.
  - rewrite Hz by lia. apply conj_0.
Qed.

Lemma Gram_le k l : (k <= l)%nat -> (l < M)%nat -> Gram k l = if (k =? l)%nat then P k else 0.
Proof.
  intros Hkl Hl. unfold Gram.
  rewrite (sumf_le_ext (S k) M); [|lia|intros i Hi; unfold upred; destruct (Nat.leb_spec i k); [lia|ring]].
  destruct (Nat.eqb_spec k l) as [->|Hne].
  - rewrite (sumf_single (S l) l); [|lia|intros i Hi Hil; rewrite RW_tri by lia; destruct (Nat.eqb_spec i l); [lia|ring]].
    rewrite RW_tri, Nat.eqb_refl by lia. unfold upred. destruct (Nat.leb_spec l l); [|lia].
    rewrite Nat.sub_diag. destruct (HInv l Hl) as (Ha0 & _). rewrite Ha0. ring.
  - apply sumf_zero_ext. intros i Hi. rewrite RW_tri by lia. destruct (Nat.eqb_spec i l); [lia|ring].
Qed.

Lemma Gram_conj k l : conj (Gram k l) = Gram l k.
Proof.
  unfold Gram, RW. rewrite sumf_conj.
  rewrite (sumf_ext M _ (fun i => sumf M (fun j => upred l j * (rr r j i * conj (upred k i))))).
  2:{ intros i _. rewrite conj_mul, sumf_conj, <- sumf_scale. apply sumf_ext; intros j _.
      rewrite !conj_mul, conj_conj, rr_conj. ring. }
  rewrite sumf_exch. apply sumf_ext; intros j _. rewrite sumf_scale. reflexivity.
Qed.

(* U R U^H = diag(P_k) *)
Theorem toeplitz_ldl_thm k l : (k < M)%nat -> (l < M)%nat -> Gram k l = if (k =? l)%nat then P k else 0.
Proof.
  intros Hk Hl. destruct (Nat.le_gt_cases k l) as [H|H]; [apply Gram_le; assumption|].
  rewrite <- Gram_conj, Gram_le by lia.
  destruct (Nat.eqb_spec l k); destruct (Nat.eqb_spec k l); try lia. apply conj_0.
Qed.

(* the quadratic form through the predictors: for every y with R y = e *)
Theorem quadform_predictors_thm (e y : nat -> F) :
  (forall k, (k < M)%nat -> P k <> 0) ->
  (forall i, (i < M)%nat -> sumf M (fun j => rr r i j * y j) = e i) ->
  sumf M (fun i => conj (e i) * y i)
  = sumf M (fun l => nrm2 (sumf M (fun i => upred l i * e i)) / P l).
Proof.
  intros HP He.
  destruct (tri_basis M (fun l j => conj (upred l j))) with (y := y) as [c Hc].
  { intros l Hl. unfold upred. destruct (Nat.leb_spec l l); [|lia]. rewrite Nat.sub_diag.
    destruct (HInv l Hl) as (Ha0 & _). rewrite Ha0. apply conj_1. }
  { intros l j Hl Hj. unfold upred. destruct (Nat.leb_spec j l); [lia|apply conj_0]. }
  assert (E1 : forall i, (i < M)%nat -> e i = sumf M (fun l => c l * RW l i)).
  { intros i Hi. rewrite <- (He i Hi).
    rewrite (sumf_ext M _ (fun j => sumf M (fun l => c l * (rr r i j * conj (upred l j))))).
    2:{ intros j Hj. rewrite (Hc j Hj), <- sumf_scale. apply sumf_ext; intros l _. ring. }
    rewrite sumf_exch. apply sumf_ext; intros l _. unfold RW. rewrite sumf_scale. reflexivity. }
  assert (E2 : forall k, (k < M)%nat -> sumf M (fun i => upred k i * e i) = c k * P k).
  { intros k Hk.
    rewrite (sumf_ext M _ (fun i => sumf M (fun l => c l * (upred k i * RW l i)))).
    2:{ intros i Hi. rewrite (E1 i Hi), <- sumf_scale. apply sumf_ext; intros l _. ring. }
    rewrite sumf_exch.
    rewrite (sumf_ext M _ (fun l => if (l =? k)%nat then c k * P k else 0)).
    { apply sumf_delta. exact Hk. }
    intros l Hl. rewrite sumf_scale. fold (Gram k l). rewrite toeplitz_ldl_thm by assumption.
    destruct (Nat.eqb_spec k l) as [E|Hne]; destruct (Nat.eqb_spec l k) as [E'|Hne']; try lia; [subst l; ring|ring]. }
  rewrite (sumf_ext M _ (fun i => sumf M (fun l => c l * conj (upred l i * e i)))).
  2:{ intros i Hi. rewrite (Hc i Hi), <- sumf_scale. apply sumf_ext; intros l _. rewrite conj_mul. ring. }
  rewrite sumf_exch. apply sumf_ext; intros l Hl.
  rewrite sumf_scale, <- sumf_conj. unfold nrm2. rewrite (E2 l Hl). field. apply HP. exact Hl.
Qed.
End Fixed.

(* with the steering vector e_i = w^-i = tw(-(i f)):  (U e)_l = w^-l A_l(w),  A_l(w) = sum_t a_l[t] w^t *)
Section Steering.
Context (nfft : nat) (tw : Z -> F) {T : Twiddle nfft tw}.
Hypothesis n_pos : (0 < nfft)%nat.
Variables (M : nat) (a : nat -> nat -> F) (f : Z).

Lemma upred_steering l : (l < M)%nat ->
  sumf M (fun i => upred a l i * tw (- (Z.of_nat i * f))%Z) = tw (- (Z.of_nat l * f))%Z * dftN tw (S l) (a l) f.
Proof.
  intros Hl.
  rewrite (sumf_le_ext (S l) M); [|lia|intros i Hi; unfold upred; destruct (Nat.leb_spec i l); [lia|ring]].
  rewrite (sumf_rev (S l)). unfold dftN. rewrite <- sumf_scale. apply sumf_ext; intros t Ht.
  unfold upred. destruct (Nat.leb_spec (S l - 1 - t) l); [|lia].
  replace (l - (S l - 1 - t))%nat with t by lia.
  replace (- (Z.of_nat (S l - 1 - t) * f))%Z with (- (Z.of_nat l * f) + Z.of_nat t * f)%Z
    by (replace (Z.of_nat (S l - 1 - t)) with (Z.of_nat l - Z.of_nat t)%Z by lia; ring).
  rewrite tw_add. ring.
Qed.
Lemma upred_steering_nrm2 l : (l < M)%nat ->
  nrm2 (sumf M (fun i => upred a l i * tw (- (Z.of_nat i * f))%Z)) = nrm2 (dftN tw (S l) (a l) f).
Proof.
  intros Hl. rewrite upred_steering by exact Hl. rewrite nrm2_mul, (tw_nrm2 nfft tw n_pos). ring.
Qed.
End Steering.
End Capon.
