(* Periodogram class: after any history of calls, reads of the psd attribute and window changes,
   the stored PSD is the function's value for the current window and NFFT is the constructor's. *)
Require Import Spectrum.Theory.Ops Spectrum.Theory.Sum Spectrum.Theory.Vec Spectrum.Theory.Dft
               Spectrum.Model.Corr Spectrum.Model.Periodogram Spectrum.Proofs.PeriodogramTheory.

Section ClassT.
Context {F : Type} {OF : Ops F}.
Local Open Scope F_scope.
Context (tw : Z -> F) (twopi : F).
Context (data : list F) (isreal : bool) (fs : F) (n0 : nat) (dt sbf : pyval).

Definition expected (w : list F) : list F := speriodogram tw twopi data w (Some n0) isreal dt sbf fs.
Definition Inv (s : pstate) : Prop :=
  p_data s = data /\ p_isreal s = isreal /\ p_sampling s = fs /\ p_NFFT s = n0 /\ p_rangeN s = n0 /\
  p_detrend s = dt /\ p_sbf s = sbf /\ (p_modified s = false -> p_psd s = Some (expected (p_window s))).

Lemma base_length w : length (speriodogram tw twopi data w (Some n0) false dt PyFalse fs) = n0.
Proof. unfold speriodogram, psd_scale, spectrum_of. cbn [py_is_true resolve]. rewrite map_length. apply dft_length. Qed.

Lemma inv_call s : Inv s -> Inv (p_call tw twopi s) /\ p_modified (p_call tw twopi s) = false /\ p_window (p_call tw twopi s) = p_window s.
Proof.
  destruct s as [d ir wn w fs' nf rn dt' sbf' psd' md]. unfold Inv. cbn [p_data p_isreal p_sampling p_NFFT p_rangeN p_detrend p_sbf p_modified p_psd p_window].
  intros (-> & -> & -> & -> & -> & -> & -> & _).
  unfold p_call, p_store, expected. cbn [p_data p_isreal p_sampling p_NFFT p_rangeN p_detrend p_sbf p_modified p_psd p_window p_wname].
  destruct isreal.
  - cbn [p_data p_isreal p_sampling p_NFFT p_rangeN p_detrend p_sbf p_modified p_psd p_window p_wname].
    destruct (py_is_true sbf) eqn:E; cbn [p_data p_isreal p_sampling p_NFFT p_rangeN p_detrend p_sbf p_modified p_psd p_window p_wname];
      (split; [|split; reflexivity]); repeat (split; [reflexivity|]); intros _; f_equal;
      unfold speriodogram, psd_scale; rewrite E; reflexivity.
  - cbn [p_data p_isreal p_sampling p_NFFT p_rangeN p_detrend p_sbf p_modified p_psd p_window p_wname].
    destruct (py_is_true sbf) eqn:E; cbn [p_data p_isreal p_sampling p_NFFT p_rangeN p_detrend p_sbf p_modified p_psd p_window p_wname];
      rewrite ?map_length, !base_length;
      (split; [|split; reflexivity]); repeat (split; [reflexivity|]); intros _; f_equal;
      unfold speriodogram, psd_scale; rewrite E; reflexivity.
Qed.
Lemma inv_read s : Inv s -> Inv (p_read tw twopi s) /\ p_modified (p_read tw twopi s) = false /\ p_window (p_read tw twopi s) = p_window s.
Proof.
  intros H. unfold p_read. destruct (p_psd s) eqn:Ep.
  - destruct (p_modified s) eqn:Em; [apply inv_call; exact H|]. split; [exact H|]. split; [exact Em|reflexivity].
  - apply inv_call; exact H.
Qed.
Lemma inv_window nm w s : Inv s -> Inv (p_set_window nm w s).
Proof.
  intros H. unfold p_set_window. destruct (nm =? p_wname s)%nat; [exact H|].
  destruct H as (H1 & H2 & H3 & H4 & H5 & H6 & H7 & _). unfold Inv. cbn. repeat (split; [assumption|]). discriminate.
Qed.
Lemma inv_step s o : Inv s -> Inv (p_step tw twopi s o).
Proof. intros H. destruct o; cbn [p_step]; [apply inv_call|apply inv_read|apply inv_window]; exact H. Qed.
Lemma inv_fold ops s : Inv s -> Inv (fold_left (p_step tw twopi) ops s).
Proof. revert s; induction ops; intros s H; [exact H|]. cbn [fold_left]. apply IHops. apply inv_step. exact H. Qed.
End ClassT.

Section ClassMain.
Context {F : Type} {OF : Ops F}.
Local Open Scope F_scope.

Lemma inv_init tw twopi (data : list F) isreal wn w fs a dt sbf :
  Inv tw twopi data isreal fs (init_nfft a (length data)) dt sbf (p_init data isreal wn w fs a dt sbf).
Proof. unfold Inv, p_init. cbn. repeat (split; [reflexivity|]). discriminate. Qed.

(* reading p.psd after any history returns speriodogram(data, window=current window, NFFT=constructor's NFFT,
   detrend=self.detrend, scale_by_freq=self.scale_by_freq, sampling) and leaves NFFT / range.N untouched *)
Theorem periodogram_class_thm tw twopi (data : list F) isreal wn w fs a dt sbf (ops : list pop) :
  let n0 := init_nfft a (length data) in
  let s := p_read tw twopi (fold_left (p_step tw twopi) ops (p_init data isreal wn w fs a dt sbf)) in
  p_NFFT s = n0 /\ p_rangeN s = n0 /\
  p_psd s = Some (speriodogram tw twopi data (p_window s) (Some n0) isreal dt sbf fs).
Proof.
  intros n0 s.
  destruct (inv_read tw twopi data isreal fs n0 dt sbf _ (inv_fold tw twopi data isreal fs n0 dt sbf ops _ (inv_init tw twopi data isreal wn w fs a dt sbf)))
    as ((_ & _ & _ & H4 & H5 & _ & _ & H8) & Hm & _).
  fold s in H4, H5, H8, Hm. split; [exact H4|]. split; [exact H5|]. apply H8. exact Hm.
Qed.
(* an explicit call does the same *)
Theorem periodogram_call_thm tw twopi (data : list F) isreal wn w fs a dt sbf (ops : list pop) :
  let n0 := init_nfft a (length data) in
  let s := p_call tw twopi (fold_left (p_step tw twopi) ops (p_init data isreal wn w fs a dt sbf)) in
  p_NFFT s = n0 /\ p_rangeN s = n0 /\
  p_psd s = Some (speriodogram tw twopi data (p_window s) (Some n0) isreal dt sbf fs).
Proof.
  intros n0 s.
  destruct (inv_call tw twopi data isreal fs n0 dt sbf _ (inv_fold tw twopi data isreal fs n0 dt sbf ops _ (inv_init tw twopi data isreal wn w fs a dt sbf)))
    as ((_ & _ & _ & H4 & H5 & _ & _ & H8) & Hm & _).
  fold s in H4, H5, H8, Hm. split; [exact H4|]. split; [exact H5|]. apply H8. exact Hm.
Qed.

(* the C01 clause for the class: the flag tests fail for detrend in {None, 'mean'} and scale_by_freq = False,
   so every stored bin is the windowed-DFT definition, however often the PSD was (re)computed *)
Context {L : Laws OF}.
Theorem periodogram_class_def_thm tw twopi (data : list F) isreal wn w fs a dt sbf (ops : list pop) k :
  py_eq_true dt = false -> py_is_true sbf = false ->
  let n0 := init_nfft a (length data) in
  let s := p_read tw twopi (fold_left (p_step tw twopi) ops (p_init data isreal wn w fs a dt sbf)) in
  (1 <= length data <= n0)%nat -> (k < nbins isreal n0)%nat ->
  exists psd, p_psd s = Some psd /\ length psd = nbins isreal n0 /\
    nthF psd k = nrm2 (dftN tw (length data) (fun i => nthF data i * nthF (p_window s) i) (Z.of_nat k)) / ofnat (length data).
Proof.
  intros Hdt Hsbf n0 s HN Hk.
  destruct (periodogram_class_thm tw twopi data isreal wn w fs a dt sbf ops) as (_ & _ & Hp). fold n0 s in Hp.
  eexists. split; [exact Hp|]. split.
  - rewrite periodogram_length_thm by (cbn [resolve]; lia). reflexivity.
  - apply periodogram_def_thm; try assumption; cbn [resolve]; assumption.
Qed.
End ClassMain.
