(* MA invertibility for ALL complex roots: instances of ma_invertible(_ext) at Coquelicot's complex numbers.
   Depends on the standard-library axioms of the reals (through Instances/Cplx_C12.v); nothing else in C15 does. *)
From Coq Require Import Reals Lra QArith Qcanon Qreals.
From Coquelicot Require Import Complex.
Require Import Spectrum.Theory.Ops Spectrum.Theory.Sum Spectrum.Theory.Vec Spectrum.Theory.Order
               Spectrum.Model.Levinson Spectrum.Model.Corr Spectrum.Model.ArmaEst
               Spectrum.Proofs.LevinsonTheory Spectrum.Proofs.YulePD Spectrum.Proofs.YuleExt Spectrum.Proofs.YuleComplex
               Spectrum.Proofs.ArmaEstStable
               Spectrum.Instances.QcC Spectrum.Instances.QcCOrd Spectrum.Instances.Cplx_C12.

(* data in the Gaussian rationals (the executed instance), roots anywhere in C *)
Theorem ma_invertible_complex_thm (x : list QcC) (Q M : nat) (b : list QcC) (rho : QcC) (z : C) :
  (exists n, (n < length x)%nat /\ nthF (OF:=qcc_ops) x n <> zero (Ops:=qcc_ops)) ->
  ma (OF:=qcc_ops) x Q M = inr (b, rho) ->
  sumf (OF:=c_ops) (S Q) (fun j => Cmult (qcc_to_c (afun (OF:=qcc_ops) b j)) (fpow (OF:=c_ops) z (Q - j))) = RtoC 0 ->
  (Cmod z < 1)%R.
Proof.
  intros Hx Hm Hz. apply c_lt_nrm2_1.
  exact (ma_invertible_ext_thm (L:=qcc_laws) (OL:=qcc_ord) (LK:=c_laws) (OLK:=c_ord) qcc_to_c qcc_to_c_hom x Q M b rho z Hx Hm Hz).
Qed.

Theorem arma_ma_invertible_complex_thm (lsm lsq : list QcC -> nat -> list QcC) (x : list QcC) (P Q lag : nat)
        (a b : list QcC) (rho : QcC) (z : C) :
  arma_estimate (OF:=qcc_ops) lsm lsq x P Q lag = inr (a, b, rho) ->
  (exists t, (t < length x - P)%nat /\ nthF (OF:=qcc_ops) (arma_resid (OF:=qcc_ops) x a P) t <> zero (Ops:=qcc_ops)) ->
  sumf (OF:=c_ops) (S Q) (fun j => Cmult (qcc_to_c (afun (OF:=qcc_ops) b j)) (fpow (OF:=c_ops) z (Q - j))) = RtoC 0 ->
  (Cmod z < 1)%R.
Proof.
  intros He Hr Hz. apply c_lt_nrm2_1.
  exact (arma_ma_invertible_ext_thm (L:=qcc_laws) (OL:=qcc_ord) (LK:=c_laws) (OLK:=c_ord) qcc_to_c qcc_to_c_hom lsm lsq x P Q lag a b rho z He Hr Hz).
Qed.

(* data in C itself *)
Theorem ma_invertible_C_thm (x : list C) (Q M : nat) (b : list C) (rho : C) (z : C) :
  (exists n, (n < length x)%nat /\ nthF (OF:=c_ops) x n <> RtoC 0) ->
  ma (OF:=c_ops) x Q M = inr (b, rho) ->
  sumf (OF:=c_ops) (S Q) (fun j => Cmult (afun (OF:=c_ops) b j) (fpow (OF:=c_ops) z (Q - j))) = RtoC 0 ->
  (Cmod z < 1)%R.
Proof.
  intros Hx Hm Hz. apply c_lt_nrm2_1.
  exact (ma_invertible_thm (L:=c_laws) (OL:=c_ord) x Q M b rho z Hx Hm Hz).
Qed.
