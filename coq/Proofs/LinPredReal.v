(* C11, the closed-form maps over Coq's real numbers (stdlib Reals):
     rc2lar k = -2 atanh(-k)      lar2rc g = -tanh(-g/2)
     rc2is  k = (2/PI) asin k     is2rc  s = sin(s PI/2)
   written exactly as linear_prediction.py writes them.  numpy.arctanh is modelled by its defining
   formula atanh x = ln((1+x)/(1-x))/2 (the stdlib of Coq 8.16 has no atanh).
   These theorems depend on the axioms of the stdlib real numbers (listed by Print Assumptions in
   Properties/C11.v); they say nothing about the binary64 functions, which the check compares
   with an oracle instead. *)
From Coq Require Import Reals Lra Psatz.
Local Open Scope R_scope.

Definition atanh (x : R) : R := / 2 * ln ((1 + x) / (1 - x)).
Definition rc2lar (k : R) : R := - 2 * atanh (- k).
Definition lar2rc (g : R) : R := - tanh (- g / 2).
Definition rc2is (k : R) : R := 2 / PI * asin k.
Definition is2rc (s : R) : R := sin (s * PI / 2).

Lemma tanh_exp2 y : tanh y = (exp (2 * y) - 1) / (exp (2 * y) + 1).
Proof.
  unfold tanh, sinh, cosh. rewrite exp_Ropp.
  replace (exp (2 * y)) with (exp y * exp y) by (rewrite <- exp_plus; f_equal; ring).
  pose proof (exp_pos y) as Hp.
  assert (exp y * exp y + 1 <> 0) by (apply Rgt_not_eq; apply Rplus_lt_0_compat; [apply Rmult_lt_0_compat; assumption|lra]).
  field. split; [assumption|apply Rgt_not_eq; assumption].
Qed.

Lemma ratio_pos x : -1 < x < 1 -> 0 < (1 + x) / (1 - x).
Proof. intros [H1 H2]. apply Rdiv_lt_0_compat; lra. Qed.

Lemma tanh_atanh x : -1 < x < 1 -> tanh (atanh x) = x.
Proof.
  intros H. rewrite tanh_exp2. unfold atanh.
  replace (2 * (/ 2 * ln ((1 + x) / (1 - x)))) with (ln ((1 + x) / (1 - x))) by field.
  rewrite exp_ln by (apply ratio_pos; exact H). field. lra.
Qed.
Lemma tanh_range y : -1 < tanh y < 1.
Proof.
  rewrite tanh_exp2. pose proof (exp_pos (2 * y)) as Hp. set (E := exp (2 * y)) in *.
  assert (Hd : 0 < E + 1) by lra. split.
  - apply Rmult_lt_reg_r with (E + 1); [exact Hd|]. unfold Rdiv. rewrite Rmult_assoc, Rinv_l by lra. lra.
  - apply Rmult_lt_reg_r with (E + 1); [exact Hd|]. unfold Rdiv. rewrite Rmult_assoc, Rinv_l by lra. lra.
Qed.
Lemma atanh_tanh y : atanh (tanh y) = y.
Proof.
  unfold atanh. rewrite tanh_exp2. pose proof (exp_pos (2 * y)) as Hp. set (E := exp (2 * y)) in *.
  replace ((1 + (E - 1) / (E + 1)) / (1 - (E - 1) / (E + 1))) with E by (field; lra).
  unfold E. rewrite ln_exp. field.
Qed.
Lemma tanh_odd y : tanh (- y) = - tanh y.
Proof.
  rewrite !tanh_exp2. replace (2 * - y) with (- (2 * y)) by ring. rewrite exp_Ropp.
  pose proof (exp_pos (2 * y)) as Hp. field. lra.
Qed.

(* the code's formula is the log area ratio ln((1+k)/(1-k)) *)
Theorem rc2lar_formula_thm k : -1 < k < 1 -> rc2lar k = ln ((1 + k) / (1 - k)).
Proof.
  intros H. unfold rc2lar, atanh.
  replace ((1 + - k) / (1 - - k)) with (/ ((1 + k) / (1 - k))) by (field; lra).
  rewrite ln_Rinv by (apply ratio_pos; exact H). field.
Qed.
Theorem lar2rc_rc2lar_thm k : -1 < k < 1 -> lar2rc (rc2lar k) = k.
Proof.
  intros H. unfold lar2rc, rc2lar.
  replace (- (- 2 * atanh (- k)) / 2) with (atanh (- k)) by field.
  rewrite tanh_atanh by lra. ring.
Qed.
Theorem rc2lar_lar2rc_thm g : -1 < lar2rc g < 1 /\ rc2lar (lar2rc g) = g.
Proof.
  unfold lar2rc, rc2lar. pose proof (tanh_range (- g / 2)) as Hr. split; [lra|].
  rewrite Ropp_involutive, atanh_tanh. field.
Qed.

Theorem is2rc_rc2is_thm k : -1 <= k <= 1 -> is2rc (rc2is k) = k.
Proof.
  intros H. unfold is2rc, rc2is. pose proof PI_RGT_0 as Hpi.
  replace (2 / PI * asin k * PI / 2) with (asin k) by (field; lra).
  apply sin_asin. exact H.
Qed.
Theorem rc2is_is2rc_thm s : -1 <= s <= 1 -> rc2is (is2rc s) = s.
Proof.
  intros H. unfold is2rc, rc2is. pose proof PI_RGT_0 as Hpi.
  rewrite asin_sin by (split; nra).
  field. lra.
Qed.
Theorem rc2is_range_thm k : -1 < k < 1 -> -1 < rc2is k < 1.
Proof.
  intros H. unfold rc2is. pose proof PI_RGT_0 as Hpi.
  pose proof (asin_bound_lt k H) as [H1 H2].
  assert (Hc : 0 < 2 / PI) by (apply Rdiv_lt_0_compat; lra).
  assert (E1 : -1 = 2 / PI * (- (PI / 2))) by (field; lra).
  assert (E2 : 1 = 2 / PI * (PI / 2)) by (field; lra).
  split.
  - rewrite E1. apply Rmult_lt_compat_l; assumption.
  - rewrite E2 at 1. apply Rmult_lt_compat_l; assumption.
Qed.
