(* An order on the real part of the abstract *-field: "formally real" *-fields.
   [nonneg a] reads "a is real and a >= 0".  Gaussian rationals (the instance the
   correspondence check executes, see Instances/QcC.v) and the complex numbers are both
   models, so the order clauses of the properties (P > 0, |k| < 1, r[0] >= |r[k]|, PSD >= 0,
   least squares is a minimum) are proved once, axiom-free, for every such field. *)
Require Import Spectrum.Theory.Ops Spectrum.Theory.Sum.

Class OrdLaws {F : Type} (O : Ops F) : Type := mkOrd {
  nonneg : F -> Prop;
  nn_real : forall a : F, nonneg a -> conj a = a;
  nn_nrm2 : forall a : F, nonneg (nrm2 a);
  nn_add : forall a b : F, nonneg a -> nonneg b -> nonneg (a + b)%F;
  nn_mul : forall a b : F, nonneg a -> nonneg b -> nonneg (a * b)%F;
  nn_antisym : forall a : F, nonneg a -> nonneg (- a)%F -> a = 0%F;
  nn_total : forall a : F, conj a = a -> nonneg a \/ nonneg (- a)%F;
  eq0_dec : forall a : F, a = 0%F \/ a <> 0%F;
  le0_spec : forall a : F, conj a = a -> (le0 a = true <-> nonneg (- a)%F) }.

Section Order.
Context {F : Type} {OF : Ops F} {L : Laws OF} {OL : OrdLaws OF}.
Local Open Scope F_scope.
Add Field FFo : (fth (O:=OF)).

Definition pos (a : F) : Prop := nonneg a /\ a <> 0.
Definition le (a b : F) : Prop := nonneg (b - a).
Definition lt (a b : F) : Prop := pos (b - a).

Lemma nonneg_eq a b : a = b -> nonneg a -> nonneg b. Proof. intros ->; auto. Qed.
Lemma nonneg_1 : nonneg 1.
Proof. apply (nonneg_eq (nrm2 1)); [unfold nrm2; rewrite conj_1; ring|apply nn_nrm2]. Qed.
Lemma nonneg_0 : nonneg 0.
Proof. apply (nonneg_eq (nrm2 0)); [unfold nrm2; ring|apply nn_nrm2]. Qed.
Lemma one_neq_0 : (1 : F) <> 0. Proof. exact (F_1_neq_0 (fth (O:=OF))). Qed.
Lemma pos_1 : pos 1. Proof. split; [apply nonneg_1|apply one_neq_0]. Qed.
Lemma nonneg_ofnat n : nonneg (ofnat n).
Proof. induction n; cbn; [apply nonneg_0|]. apply nn_add; [assumption|apply nonneg_1]. Qed.
Lemma nonneg_sumf n f : (forall i, (i < n)%nat -> nonneg (f i)) -> nonneg (sumf n f).
Proof. induction n; intros H; cbn; [apply nonneg_0|]. apply nn_add; [apply IHn; auto|apply H; lia]. Qed.
Lemma nonneg_sum_nrm2 n (f : nat -> F) : nonneg (sumf n (fun i => nrm2 (f i))).
Proof. apply nonneg_sumf; intros; apply nn_nrm2. Qed.
Lemma conj_neq_0 a : a <> 0 -> conj a <> 0.
Proof. intros Ha Hc. apply Ha. rewrite <- (conj_conj a), Hc. apply conj_0. Qed.
Lemma nrm2_zero a : nrm2 a = 0 -> a = 0.
Proof.
  intros H. destruct (eq0_dec a) as [E|Hne]; [exact E|]. exfalso.
  apply (conj_neq_0 a Hne). apply (mul_cancel_l a (conj a)); [exact H|exact Hne].
Qed.
Lemma nrm2_neq_0 a : a <> 0 -> nrm2 a <> 0.
Proof. intros Ha E. apply Ha. apply nrm2_zero. exact E. Qed.
Lemma nonneg_sum_zero a b : nonneg a -> nonneg b -> a + b = 0 -> a = 0 /\ b = 0.
Proof.
  intros Ha Hb E.
  assert (Ea : a = 0).
  { apply nn_antisym; [exact Ha|]. apply (nonneg_eq b); [|exact Hb]. transitivity (a + b - a); [ring|rewrite E; ring]. }
  split; [exact Ea|]. rewrite Ea in E. rewrite <- E. ring.
Qed.
Lemma sumf_nonneg_zero n f : (forall i, (i < n)%nat -> nonneg (f i)) -> sumf n f = 0 ->
  forall i, (i < n)%nat -> f i = 0.
Proof.
  induction n; intros Hf E i Hi; [lia|]. cbn in E.
  destruct (nonneg_sum_zero (sumf n f) (f n)) as [E1 E2]; [apply nonneg_sumf; auto|apply Hf; lia|exact E|].
  destruct (Nat.eq_dec i n) as [->|Hne]; [exact E2|]. apply IHn; auto. lia.
Qed.
Lemma sum_nrm2_zero n (f : nat -> F) : sumf n (fun i => nrm2 (f i)) = 0 -> forall i, (i < n)%nat -> f i = 0.
Proof.
  intros E i Hi. apply nrm2_zero.
  apply (sumf_nonneg_zero n (fun i => nrm2 (f i))); [intros; apply nn_nrm2|exact E|exact Hi].
Qed.
Lemma pos_real a : pos a -> conj a = a. Proof. intros [H _]; apply nn_real; exact H. Qed.
Lemma real_inv a : conj a = a -> a <> 0 -> conj (inv a) = inv a.
Proof. intros Hr Ha. rewrite conj_inv, Hr by exact Ha. reflexivity. Qed.
Lemma pos_inv a : pos a -> pos (inv a).
Proof.
  intros [Hn Ha]. split.
  - apply (nonneg_eq (a * nrm2 (inv a))).
    + unfold nrm2. rewrite real_inv by (auto using nn_real). field. exact Ha.
    + apply nn_mul; [exact Hn|apply nn_nrm2].
  - intros E. apply one_neq_0. transitivity (a * inv a); [field; exact Ha|rewrite E; ring].
Qed.
Lemma pos_mul a b : pos a -> pos b -> pos (a * b).
Proof.
  intros [Ha Ha0] [Hb Hb0]. split; [apply nn_mul; assumption|].
  intros E. apply Hb0. apply (mul_cancel_l a b); assumption.
Qed.
Lemma pos_add_nonneg a b : pos a -> nonneg b -> pos (a + b).
Proof.
  intros [Ha Ha0] Hb. split; [apply nn_add; assumption|].
  intros E. apply Ha0. apply (nonneg_sum_zero a b); assumption.
Qed.
Lemma pos_div a b : pos a -> pos b -> pos (a / b).
Proof.
  intros Ha Hb. assert (E : a / b = a * inv b) by (field; apply Hb).
  rewrite E. apply pos_mul; [exact Ha|apply pos_inv; exact Hb].
Qed.
Lemma nonneg_div a b : nonneg a -> pos b -> nonneg (a / b).
Proof.
  intros Ha Hb. apply (nonneg_eq (a * inv b)); [field; apply Hb|]. apply nn_mul; [exact Ha|apply pos_inv; exact Hb].
Qed.
Lemma nonneg_cancel a d : pos d -> nonneg (d * a) -> nonneg a.
Proof.
  intros Hd H. apply (nonneg_eq (d * a * inv d)); [field; apply Hd|]. apply nn_mul; [exact H|apply pos_inv; exact Hd].
Qed.
Lemma pos_ofnat n : (1 <= n)%nat -> pos (ofnat n).
Proof.
  intros H. destruct n; [lia|]. cbn.
  destruct (pos_add_nonneg 1 (ofnat n) pos_1 (nonneg_ofnat n)) as [H1 H2].
  split; [apply (nonneg_eq (1 + ofnat n)); [ring|exact H1]|]. intros E. apply H2. rewrite <- E. ring.
Qed.
Lemma pos_nonneg_cases a : nonneg a -> a = 0 \/ pos a.
Proof. intros H. destruct (eq0_dec a) as [E|E]; [left; exact E|right; split; assumption]. Qed.
Lemma le_refl a : le a a. Proof. unfold le. apply (nonneg_eq 0); [ring|apply nonneg_0]. Qed.
Lemma le_trans a b c : le a b -> le b c -> le a c.
Proof. unfold le. intros H1 H2. apply (nonneg_eq ((b - a) + (c - b))); [ring|apply nn_add; assumption]. Qed.
Lemma le_antisym a b : le a b -> le b a -> a = b.
Proof.
  unfold le. intros H1 H2.
  assert (E : b - a = 0). { apply nn_antisym; [exact H1|]. apply (nonneg_eq (a - b)); [ring|exact H2]. }
  transitivity (b - (b - a)); [ring|rewrite E; ring].
Qed.
(* a real number is positive or its opposite is non-negative: the two outcomes of the code's "x <= 0" *)
Lemma real_cases a : conj a = a -> pos a \/ nonneg (- a).
Proof.
  intros Hr. destruct (nn_total a Hr) as [H|H]; [|right; exact H].
  destruct (eq0_dec a) as [E|E]; [right; rewrite E; apply (nonneg_eq 0); [ring|apply nonneg_0]|left; split; assumption].
Qed.
Lemma le0_false_pos a : conj a = a -> le0 a = false -> pos a.
Proof.
  intros Hr H. destruct (real_cases a Hr) as [Hp|Hn]; [exact Hp|].
  apply (le0_spec a Hr) in Hn. rewrite Hn in H. discriminate.
Qed.
Lemma le0_true_nonpos a : conj a = a -> le0 a = true -> nonneg (- a).
Proof. intros Hr H. apply (le0_spec a Hr). exact H. Qed.
Lemma pos_not_le0 a : pos a -> le0 a = false.
Proof.
  intros [Hn Ha]. destruct (le0 a) eqn:E; [|reflexivity]. exfalso. apply Ha.
  apply nn_antisym; [exact Hn|]. apply (le0_spec a (nn_real a Hn)). exact E.
Qed.

(* Cauchy–Schwarz: |sum f conj g|^2 <= (sum |f|^2)(sum |g|^2) *)
Theorem cauchy_schwarz n (f g : nat -> F) :
  le (nrm2 (sumf n (fun i => f i * conj (g i))))
     (sumf n (fun i => nrm2 (f i)) * sumf n (fun i => nrm2 (g i))).
Proof.
  set (A := sumf n (fun i => nrm2 (f i))). set (D := sumf n (fun i => nrm2 (g i))).
  set (c := sumf n (fun i => f i * conj (g i))).
  assert (HD : nonneg D) by apply nonneg_sum_nrm2.
  assert (HDr : conj D = D) by (apply nn_real; exact HD).
  assert (Hcc : conj c = sumf n (fun i => conj (f i) * g i)).
  { unfold c. rewrite sumf_conj. apply sumf_ext; intros i _. rewrite conj_mul, conj_conj. reflexivity. }
  unfold le.
  destruct (pos_nonneg_cases D HD) as [E|HDp].
  - (* all g vanish *)
    assert (Hg : forall i, (i < n)%nat -> g i = 0) by (apply sum_nrm2_zero; exact E).
    assert (Ec : c = 0).
    { unfold c. apply sumf_zero_ext. intros i Hi. rewrite (Hg i Hi), conj_0. ring. }
    rewrite Ec, E. apply (nonneg_eq 0); [unfold nrm2; ring|apply nonneg_0].
  - assert (Key : sumf n (fun i => nrm2 (D * f i - c * g i)) = D * (A * D - nrm2 c)).
    { transitivity (D * D * A - D * conj c * c - c * D * conj c + nrm2 c * D).
      - rewrite (sumf_ext n _ (fun i => (D * D) * nrm2 (f i) - (D * conj c) * (f i * conj (g i))
                                         - (c * D) * (conj (f i) * g i) + nrm2 c * nrm2 (g i))).
        2:{ intros i _. unfold nrm2. rewrite conj_sub, !conj_mul, HDr. ring. }
        rewrite sumf_add, !sumf_sub, !sumf_scale. rewrite <- Hcc. reflexivity.
      - unfold nrm2. ring. }
    apply (nonneg_cancel _ D HDp). rewrite <- Key. apply nonneg_sum_nrm2.
Qed.
End Order.
