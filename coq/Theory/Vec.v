(* Vectors are lists; theorems are proved on nat-indexed families and transported
   to the list model by [nth_mk], [mk_length], [sumL_mk] and [list_eq_mk]. *)
Require Import Spectrum.Theory.Ops Spectrum.Theory.Sum.

Section Vec.
Context {F : Type} {OF : Ops F}.
Local Open Scope F_scope.

Definition nthF (l : list F) (i : nat) : F := nth i l 0.
Definition mk (n : nat) (f : nat -> F) : list F := map f (seq 0 n).
Fixpoint sumL (l : list F) : F := match l with [] => 0 | x :: t => x + sumL t end.
Definition vmul (x w : list F) : list F := mk (length x) (fun i => nthF x i * nthF w i).
Definition vscale (c : F) (x : list F) : list F := map (fun a => c * a) x.
Definition vconj (x : list F) : list F := map conj x.
Definition pad (n : nat) (x : list F) : list F := mk n (nthF x).

Lemma mk_length n f : length (mk n f) = n.
Proof. unfold mk. rewrite map_length, seq_length. reflexivity. Qed.
Lemma nth_mk n f j : (j < n)%nat -> nthF (mk n f) j = f j.
Proof.
  intros H. unfold nthF, mk.
  rewrite (nth_indep _ 0 (f O)) by (rewrite map_length, seq_length; exact H).
  rewrite map_nth, seq_nth by exact H. reflexivity.
Qed.
Lemma nthF_overflow (l : list F) j : (length l <= j)%nat -> nthF l j = 0.
Proof. intros; unfold nthF; apply nth_overflow; assumption. Qed.
Lemma nth_mk_ge n f j : (n <= j)%nat -> nthF (mk n f) j = 0.
Proof. intros H. apply nthF_overflow. rewrite mk_length. exact H. Qed.
Lemma mk_ext n f g : (forall i, (i < n)%nat -> f i = g i) -> mk n f = mk n g.
Proof.
  intros H. unfold mk. apply map_ext_in. intros i Hi. apply in_seq in Hi. apply H. lia.
Qed.
Lemma list_eq_mk (l : list F) : l = mk (length l) (nthF l).
Proof.
  apply (nth_ext _ _ 0 0).
  - rewrite mk_length. reflexivity.
  - intros j Hj. fold (nthF l j). fold (nthF (mk (length l) (nthF l)) j). rewrite nth_mk by exact Hj. reflexivity.
Qed.
Lemma list_eq_nth (l1 l2 : list F) : length l1 = length l2 ->
  (forall j, (j < length l1)%nat -> nthF l1 j = nthF l2 j) -> l1 = l2.
Proof. intros Hl H. apply (nth_ext _ _ 0 0); [exact Hl|exact H]. Qed.
Lemma nthF_app_l (l1 l2 : list F) j : (j < length l1)%nat -> nthF (l1 ++ l2) j = nthF l1 j.
Proof. intros; unfold nthF; apply app_nth1; assumption. Qed.
Lemma nthF_app_r (l1 l2 : list F) j : (length l1 <= j)%nat -> nthF (l1 ++ l2) j = nthF l2 (j - length l1).
Proof. intros; unfold nthF; apply app_nth2; lia. Qed.
Lemma nthF_app_last (l1 : list F) x : nthF (l1 ++ [x]) (length l1) = x.
Proof. unfold nthF. rewrite app_nth2, Nat.sub_diag by lia. reflexivity. Qed.
Lemma nth_tl (l : list F) j : nthF (tl l) j = nthF l (S j).
Proof. destruct l; unfold nthF; cbn; [destruct j; reflexivity|reflexivity]. Qed.
Lemma nthF_cons0 a (l : list F) : nthF (a :: l) O = a. Proof. reflexivity. Qed.
Lemma nthF_consS a (l : list F) j : nthF (a :: l) (S j) = nthF l j. Proof. reflexivity. Qed.
Lemma nthF_map (g : F -> F) (l : list F) j : g 0 = 0 -> nthF (map g l) j = g (nthF l j).
Proof.
  intros Hg. unfold nthF. destruct (Nat.lt_ge_cases j (length l)) as [H|H].
  - rewrite (nth_indep _ 0 (g 0)) by (rewrite map_length; exact H). apply map_nth.
  - rewrite !nth_overflow by (rewrite ?map_length; exact H). symmetry; exact Hg.
Qed.
Lemma nthF_firstn (l : list F) n j : (j < n)%nat -> nthF (firstn n l) j = nthF l j.
Proof.
  revert l j; induction n; intros l j H; [lia|]. destruct l; [destruct j; reflexivity|].
  destruct j; [reflexivity|]. cbn [firstn]. rewrite !nthF_consS. apply IHn. lia.
Qed.

Context {L : Laws OF}.
Add Field FFv : (fth (O:=OF)).

Lemma sumL_mk n f : sumL (mk n f) = sumf n f.
Proof.
  unfold mk. revert f. induction n; intros f; [reflexivity|].
  rewrite sumf_shift. cbn [seq map sumL]. f_equal. rewrite <- seq_shift, map_map. apply IHn.
Qed.
Lemma sumL_sumf (l : list F) : sumL l = sumf (length l) (nthF l).
Proof. rewrite (list_eq_mk l) at 1. apply sumL_mk. Qed.
Lemma nthF_vscale c (x : list F) j : nthF (vscale c x) j = c * nthF x j.
Proof. unfold vscale. apply nthF_map. ring. Qed.
Lemma nthF_vconj (x : list F) j : nthF (vconj x) j = conj (nthF x j).
Proof. unfold vconj. apply nthF_map. apply conj_0. Qed.
End Vec.
