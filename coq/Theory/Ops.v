(* Operations record shared by every model function, and the laws the abstract
   theorems assume of it ("a field with an involutive ring automorphism conj").
   The same Gallina terms are run at QcC (exact Gaussian rationals) and at FloatC
   (binary64 pairs) by the correspondence check, and reasoned about under [Laws]. *)
From Coq Require Export List Arith ZArith Field Ring Lia Bool.
Export ListNotations.

Class Ops (F : Type) := mkOps {
  zero : F; one : F;
  add : F -> F -> F; mul : F -> F -> F; sub : F -> F -> F; opp : F -> F;
  div : F -> F -> F; inv : F -> F;
  conj : F -> F;
  le0 : F -> bool  (* "real part <= 0": the sign tests of the code (P <= 0, ...) *) }.

Declare Scope F_scope.
Delimit Scope F_scope with F.
Infix "+" := add : F_scope.
Infix "*" := mul : F_scope.
Infix "-" := sub : F_scope.
Infix "/" := div : F_scope.
Notation "- a" := (opp a) : F_scope.
Notation "0" := zero : F_scope.
Notation "1" := one : F_scope.

Class Laws {F : Type} (O : Ops F) : Prop := mkLaws {
  fth : field_theory zero one add mul sub opp div inv eq;
  conj_add : forall a b : F, conj (a + b)%F = (conj a + conj b)%F;
  conj_mul : forall a b : F, conj (a * b)%F = (conj a * conj b)%F;
  conj_conj : forall a : F, conj (conj a) = a;
  conj_0 : conj 0%F = 0%F;
  conj_1 : conj 1%F = 1%F;
  two_neq_0 : (1 + 1)%F <> 0%F;
  le0_zero : le0 0%F = true }.

Section Basics.
Context {F : Type} {OF : Ops F}.
Local Open Scope F_scope.

(* |z|^2 the way the code computes it (abs(z)**2 == z * conj z in exact arithmetic) *)
Definition nrm2 (z : F) : F := z * conj z.
Definition two : F := 1 + 1.
Definition re (z : F) : F := (z + conj z) / two.
Fixpoint ofnat (n : nat) : F := match n with O => 0 | S k => ofnat k + 1 end.
Definition isreal (z : F) : Prop := conj z = z.

Context {L : Laws OF}.
Add Field FF : (fth (O:=OF)).

Lemma conj_opp a : conj (- a) = - conj a.
Proof.
  assert (E : conj (a + - a) = 0) by (replace (a + - a) with 0 by ring; apply conj_0).
  rewrite conj_add in E.
  transitivity (conj a + conj (- a) - conj a); [ring|]. rewrite E. ring.
Qed.
Lemma conj_sub a b : conj (a - b) = conj a - conj b.
Proof. replace (a - b) with (a + - b) by ring. rewrite conj_add, conj_opp. ring. Qed.
Lemma mul_cancel_l a b : a * b = 0 -> a <> 0 -> b = 0.
Proof. intros H Ha. transitivity (inv a * (a * b)). { field. exact Ha. } rewrite H; ring. Qed.
Lemma conj_inv a : a <> 0 -> conj (inv a) = inv (conj a).
Proof.
  intros Ha.
  assert (Hc : conj a <> 0).
  { intros H. apply Ha. rewrite <- (conj_conj a), H. apply conj_0. }
  assert (E : conj a * conj (inv a) = 1).
  { rewrite <- conj_mul. replace (a * inv a) with 1 by (field; exact Ha). apply conj_1. }
  transitivity (inv (conj a) * (conj a * conj (inv a))). { field. exact Hc. }
  rewrite E. ring.
Qed.
Lemma conj_div a b : b <> 0 -> conj (a / b) = conj a / conj b.
Proof.
  intros Hb.
  assert (Hc : conj b <> 0).
  { intros H. apply Hb. rewrite <- (conj_conj b), H. apply conj_0. }
  replace (a / b) with (a * inv b) by (field; exact Hb).
  rewrite conj_mul, conj_inv by exact Hb. field. exact Hc.
Qed.
Lemma nrm2_real a : conj (nrm2 a) = nrm2 a.
Proof. unfold nrm2. rewrite conj_mul, conj_conj. ring. Qed.
Lemma nrm2_mul a b : nrm2 (a * b) = nrm2 a * nrm2 b.
Proof. unfold nrm2. rewrite conj_mul. ring. Qed.
Lemma conj_ofnat n : conj (ofnat n) = ofnat n.
Proof. induction n; cbn; [apply conj_0|]. rewrite conj_add, IHn, conj_1. reflexivity. Qed.
Lemma ofnat_add n m : ofnat (n + m) = ofnat n + ofnat m.
Proof. induction n; cbn; [ring|]. rewrite IHn. ring. Qed.
Lemma ofnat_mul n m : ofnat (n * m) = ofnat n * ofnat m.
Proof. induction n; cbn; [ring|]. rewrite ofnat_add, IHn. ring. Qed.
Lemma re_real a : isreal a -> re a = a.
Proof. unfold isreal, re, two. intros ->. field. apply two_neq_0. Qed.
Lemma le0_false_neq a : le0 a = false -> a <> 0.
Proof. intros H E. rewrite E, le0_zero in H. discriminate. Qed.
Lemma isreal_mul a b : isreal a -> isreal b -> isreal (a * b).
Proof. unfold isreal. intros Ha Hb. rewrite conj_mul, Ha, Hb. reflexivity. Qed.
Lemma isreal_sub a b : isreal a -> isreal b -> isreal (a - b).
Proof. unfold isreal. intros Ha Hb. rewrite conj_sub, Ha, Hb. reflexivity. Qed.
Lemma isreal_1 : isreal 1. Proof. apply conj_1. Qed.
Lemma isreal_nrm2 a : isreal (nrm2 a). Proof. apply nrm2_real. Qed.
End Basics.
