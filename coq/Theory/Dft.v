(* The discrete Fourier transform over the abstract *-field.
   [tw : Z -> F] is a character of (Z,+) of exact period n and stands for
   a |-> exp(-2 pi i a / n) (numpy's forward sign; no theorem depends on which of the two
   conjugate characters it is).  Indexing by Z removes every [mod] from the proofs.
   Orthogonality is derived (telescoping geometric sum), not assumed. *)
Require Import Spectrum.Theory.Ops Spectrum.Theory.Sum Spectrum.Theory.Vec.

Class Twiddle {F : Type} {OF : Ops F} (n : nat) (tw : Z -> F) : Prop := mkTw {
  tw_add : forall a b : Z, tw (a + b)%Z = (tw a * tw b)%F;
  tw_0 : tw 0%Z = 1%F;
  tw_n : tw (Z.of_nat n) = 1%F;
  tw_cj : forall a : Z, conj (tw a) = tw (- a)%Z;
  tw_prim : forall j : Z, (0 < j < Z.of_nat n)%Z -> tw j <> 1%F }.

Section DftDef.
Context {F : Type} {OF : Ops F}.
Local Open Scope F_scope.
(* function-level transform of the first N samples of x on an n-point grid (N <= n: zero padding) *)
Definition dftN (tw : Z -> F) (N : nat) (x : nat -> F) (k : Z) : F :=
  sumf N (fun m => x m * tw (Z.of_nat m * k)%Z).
(* list-level, executable: numpy.fft.fft(x, n) (x cropped / zero-padded to n) *)
Definition dft (tw : Z -> F) (n : nat) (x : list F) : list F :=
  mk n (fun k => sumL (mk n (fun m => nthF x m * tw (Z.of_nat m * Z.of_nat k)%Z))).
Definition rdft (tw : Z -> F) (n : nat) (x : list F) : list F := firstn (n / 2 + 1) (dft tw n x).
(* inverse transform (numpy.fft.ifft) *)
Definition idft (tw : Z -> F) (n : nat) (x : list F) : list F :=
  mk n (fun k => sumL (mk n (fun m => nthF x m * tw (- (Z.of_nat m * Z.of_nat k))%Z)) / ofnat n).
End DftDef.

Section DftTheory.
Context {F : Type} {OF : Ops F} {L : Laws OF}.
Local Open Scope F_scope.
Add Field FFd : (fth (O:=OF)).

(* ---------------- combinatorial lemmas on double sums ---------------- *)
Lemma square_split N (g : nat -> nat -> F) :
  sumf N (fun m => sumf N (fun m' => g m m'))
  = sumf N (fun m => sumf (S m) (fun m' => g m m')) + sumf N (fun m' => sumf m' (fun m => g m m')).
Proof.
  induction N; [cbn; ring|].
  rewrite (sumf_S N (fun m => sumf (S N) (fun m' => g m m'))).
  rewrite (sumf_ext N (fun m => sumf (S N) (fun m' => g m m')) (fun m => sumf N (fun m' => g m m') + g m N)) by (intros; apply sumf_S).
  rewrite sumf_add, IHN.
  rewrite (sumf_S N (fun m => sumf (S m) (fun m' => g m m'))).
  rewrite (sumf_S N (fun m' => sumf m' (fun m => g m m'))).
  ring.
Qed.
Lemma tri_exch N (g : nat -> nat -> F) :
  sumf N (fun m => sumf (S m) (fun d => g m d)) = sumf N (fun d => sumf (N - d) (fun j => g (j + d)%nat d)).
Proof.
  induction N; [reflexivity|].
  rewrite (sumf_S N (fun m => sumf (S m) (fun d => g m d))), IHN.
  rewrite (sumf_S N (fun d => sumf (S N - d) (fun j => g (j + d)%nat d))).
  replace (S N - N)%nat with 1%nat by lia.
  rewrite (sumf_ext N (fun d => sumf (S N - d) (fun j => g (j + d)%nat d)) (fun d => sumf (N - d) (fun j => g (j + d)%nat d) + g N d)).
  2:{ intros d Hd. replace (S N - d)%nat with (S (N - d)) by lia. rewrite sumf_S. f_equal. f_equal. lia. }
  rewrite sumf_add. rewrite (sumf_S N (fun d => g N d)). cbn [sumf Nat.add].
  change (sumf N (fun d : nat => g N d)) with (sumf N (g N)). ring.
Qed.
Lemma upper_diag N (g : nat -> nat -> F) :
  sumf N (fun m' => sumf m' (fun m => g m m')) = sumf (N - 1) (fun d => sumf (N - 1 - d) (fun j => g j (j + d + 1)%nat)).
Proof.
  destruct N as [|N]; [reflexivity|]. replace (S N - 1)%nat with N by lia.
  rewrite (sumf_shift N (fun m' => sumf m' (fun m => g m m'))). cbv beta.
  change (sumf 0 (fun m => g m 0%nat)) with 0.
  transitivity (sumf N (fun i => sumf (S i) (fun d => g (i - d)%nat (S i)))).
  { transitivity (sumf N (fun i => sumf (S i) (fun m => g m (S i)))); [ring|].
    apply sumf_ext; intros i Hi. rewrite (sumf_rev (S i)). apply sumf_ext; intros d Hd. f_equal. lia. }
  rewrite (tri_exch N (fun m d => g (m - d)%nat (S m))).
  apply sumf_ext; intros d Hd. apply sumf_ext; intros j Hj. f_equal; lia.
Qed.

(* ---------------- characters ---------------- *)
Section Char.
Context (n : nat) (tw : Z -> F) {T : Twiddle n tw}.
Hypothesis n_pos : (0 < n)%nat.

Lemma tw_mul_n j : tw (j * Z.of_nat n)%Z = 1.
Proof.
  assert (P : forall k : nat, tw (Z.of_nat k * Z.of_nat n)%Z = 1).
  { induction k. { cbn. apply tw_0. }
    replace (Z.of_nat (S k) * Z.of_nat n)%Z with (Z.of_nat k * Z.of_nat n + Z.of_nat n)%Z by lia.
    rewrite tw_add, IHk, tw_n. ring. }
  destruct (Z_le_gt_dec 0 j).
  - rewrite <- (Z2Nat.id j) by lia. apply P.
  - assert (E : tw (j * Z.of_nat n) * tw (Z.of_nat (Z.to_nat (- j)) * Z.of_nat n) = 1).
    { rewrite <- tw_add. replace (j * Z.of_nat n + Z.of_nat (Z.to_nat (- j)) * Z.of_nat n)%Z with 0%Z by lia. apply tw_0. }
    rewrite P in E. rewrite <- E. ring.
Qed.
Lemma tw_period a j : tw (a + j * Z.of_nat n)%Z = tw a.
Proof. rewrite tw_add, tw_mul_n; ring. Qed.
Lemma tw_opp a : tw a * tw (- a) = 1.
Proof. rewrite <- tw_add. replace (a + - a)%Z with 0%Z by lia. apply tw_0. Qed.
Lemma tw_neq_0 a : tw a <> 0.
Proof. intros E. apply (F_1_neq_0 (fth (O:=OF))). rewrite <- (tw_opp a), E. ring. Qed.
Lemma tw_nrm2 a : nrm2 (tw a) = 1.
Proof. unfold nrm2. rewrite tw_cj. apply tw_opp. Qed.
Lemma tw_eq_mod a b : (a mod Z.of_nat n = b mod Z.of_nat n)%Z -> tw a = tw b.
Proof.
  intros H. rewrite (Z.div_mod a (Z.of_nat n)), (Z.div_mod b (Z.of_nat n)) by lia. rewrite H.
  rewrite (Z.add_comm (Z.of_nat n * (a / Z.of_nat n))), (Z.add_comm (Z.of_nat n * (b / Z.of_nat n))).
  rewrite (Z.mul_comm (Z.of_nat n) (a / _)), (Z.mul_comm (Z.of_nat n) (b / _)). rewrite !tw_period. reflexivity.
Qed.
Lemma geom j : tw j <> 1 -> sumf n (fun k => tw (j * Z.of_nat k)%Z) = 0.
Proof.
  intros Hj. apply (mul_cancel_l (1 - tw j)).
  - rewrite <- sumf_scale.
    rewrite (sumf_ext n _ (fun k => tw (j * Z.of_nat k)%Z - tw (j * Z.of_nat (S k))%Z)).
    2:{ intros k _. replace (j * Z.of_nat (S k))%Z with (j + j * Z.of_nat k)%Z by lia. rewrite tw_add. ring. }
    rewrite (sumf_telescope n (fun k => tw (j * Z.of_nat k)%Z)). rewrite Z.mul_0_r, tw_0, tw_mul_n. ring.
  - intro H. apply Hj. transitivity (1 - (1 - tw j)); [ring|]. rewrite H; ring.
Qed.
Lemma tw_prim_mod d : (d mod Z.of_nat n <> 0)%Z -> tw d <> 1.
Proof.
  intros Hd. rewrite (tw_eq_mod d (d mod Z.of_nat n)) by (rewrite Z.mod_mod; lia).
  apply tw_prim. pose proof (Z.mod_pos_bound d (Z.of_nat n)). lia.
Qed.
(* orthogonality of the characters *)
Theorem orth (d : Z) : sumf n (fun k => tw (d * Z.of_nat k)%Z) = if (d mod Z.of_nat n =? 0)%Z then ofnat n else 0.
Proof.
  destruct (Z.eqb_spec (d mod Z.of_nat n) 0) as [E|Hne].
  - rewrite (sumf_ext n _ (fun _ => 1)). { rewrite sumf_const. ring. }
    intros k _. apply Z.mod_divide in E; [|lia]. destruct E as [q ->].
    replace (q * Z.of_nat n * Z.of_nat k)%Z with (0 + (q * Z.of_nat k) * Z.of_nat n)%Z by lia.
    rewrite tw_period. apply tw_0.
  - apply geom. apply tw_prim_mod. exact Hne.
Qed.
Lemma orth_small (d : Z) : (- Z.of_nat n < d < Z.of_nat n)%Z ->
  sumf n (fun k => tw (d * Z.of_nat k)%Z) = if (d =? 0)%Z then ofnat n else 0.
Proof.
  intros Hd. rewrite orth. destruct (Z.eqb_spec d 0) as [->|Hne].
  - rewrite Z.mod_0_l by lia. reflexivity.
  - destruct (Z.eqb_spec (d mod Z.of_nat n) 0) as [E|E]; [|reflexivity]. exfalso.
    apply Z.mod_divide in E; [|lia]. destruct E as [q E].
    assert (Hq : (q = 0 \/ 1 <= q \/ q <= -1)%Z) by lia. destruct Hq as [->|[Hq|Hq]]; [lia| |].
    + assert (1 * Z.of_nat n <= q * Z.of_nat n)%Z by (apply Z.mul_le_mono_nonneg_r; lia). lia.
    + assert (q * Z.of_nat n <= -1 * Z.of_nat n)%Z by (apply Z.mul_le_mono_nonneg_r; lia). lia.
Qed.

(* ---------------- Parseval ---------------- *)
Theorem parseval (N : nat) (x : nat -> F) : (N <= n)%nat ->
  sumf n (fun k => nrm2 (dftN tw N x (Z.of_nat k))) = ofnat n * sumf N (fun m => nrm2 (x m)).
Proof.
  intros HN. unfold nrm2, dftN.
  transitivity (sumf n (fun k => sumf N (fun m => sumf N (fun m' => (x m * conj (x m')) * tw ((Z.of_nat m - Z.of_nat m') * Z.of_nat k)%Z)))).
  { apply sumf_ext; intros k _. rewrite sumf_conj, <- sumf_scale_r. apply sumf_ext; intros m _.
    rewrite <- sumf_scale. apply sumf_ext; intros m' _.
    rewrite conj_mul, tw_cj.
    replace ((Z.of_nat m - Z.of_nat m') * Z.of_nat k)%Z with (Z.of_nat m * Z.of_nat k + - (Z.of_nat m' * Z.of_nat k))%Z by lia.
    rewrite tw_add. ring. }
  rewrite sumf_exch. rewrite <- sumf_scale. apply sumf_ext; intros m Hm.
  rewrite sumf_exch.
  rewrite (sumf_ext N _ (fun m' => if (m' =? m)%nat then ofnat n * (x m * conj (x m)) else 0)).
  { apply sumf_delta; exact Hm. }
  intros m' Hm'. rewrite sumf_scale, orth_small by lia.
  destruct (Nat.eqb_spec m' m) as [->|Hne].
  - rewrite Z.sub_diag. cbn. ring.
  - destruct (Z.eqb_spec (Z.of_nat m - Z.of_nat m') 0); [lia|ring].
Qed.

(* ---------------- covariance laws ---------------- *)
(* modulation: multiplying sample m by tw(-s*m) (i.e. by exp(+2 pi i s m / n)) shifts the spectrum by s bins *)
Theorem dft_modulation N (x : nat -> F) (s k : Z) :
  dftN tw N (fun m => x m * tw (- (s * Z.of_nat m))%Z) k = dftN tw N x (k - s)%Z.
Proof.
  unfold dftN. apply sumf_ext; intros m _.
  replace (Z.of_nat m * (k - s))%Z with (- (s * Z.of_nat m) + Z.of_nat m * k)%Z by lia. rewrite tw_add. ring.
Qed.
(* conjugation mirrors the spectrum *)
Theorem dft_conj N (x : nat -> F) (k : Z) :
  dftN tw N (fun m => conj (x m)) k = conj (dftN tw N x (- k)%Z).
Proof.
  unfold dftN. rewrite sumf_conj. apply sumf_ext; intros m _. rewrite conj_mul, tw_cj.
  replace (- (Z.of_nat m * - k))%Z with (Z.of_nat m * k)%Z by lia. reflexivity.
Qed.
(* bins are n-periodic *)
Theorem dft_periodic N (x : nat -> F) (k j : Z) : dftN tw N x (k + j * Z.of_nat n)%Z = dftN tw N x k.
Proof.
  unfold dftN. apply sumf_ext; intros m _. f_equal.
  replace (Z.of_nat m * (k + j * Z.of_nat n))%Z with (Z.of_nat m * k + (Z.of_nat m * j) * Z.of_nat n)%Z by lia.
  apply tw_period.
Qed.
(* time reversal of the first N samples *)
Theorem dft_reverse N (x : nat -> F) (k : Z) :
  dftN tw N (fun m => x (N - 1 - m)%nat) k = tw ((Z.of_nat N - 1) * k)%Z * dftN tw N x (- k)%Z.
Proof.
  unfold dftN. rewrite (sumf_rev N). rewrite <- sumf_scale. apply sumf_ext; intros m Hm.
  replace (N - 1 - (N - 1 - m))%nat with m by lia.
  replace (Z.of_nat (N - 1 - m)) with (Z.of_nat N - 1 - Z.of_nat m)%Z by lia.
  replace ((Z.of_nat N - 1 - Z.of_nat m) * k)%Z with ((Z.of_nat N - 1) * k + Z.of_nat m * - k)%Z by ring.
  rewrite tw_add. ring.
Qed.
Lemma dft_linear N (x y : nat -> F) (c : F) k :
  dftN tw N (fun m => x m + c * y m) k = dftN tw N x k + c * dftN tw N y k.
Proof. unfold dftN. rewrite <- sumf_scale, <- sumf_add. apply sumf_ext; intros; ring. Qed.
Lemma dft_scale N (x : nat -> F) (c : F) k : dftN tw N (fun m => c * x m) k = c * dftN tw N x k.
Proof. unfold dftN. rewrite <- sumf_scale. apply sumf_ext; intros; ring. Qed.

(* ---------------- Wiener–Khinchin core ---------------- *)
Definition lagsum (N : nat) (x : nat -> F) (d : nat) : F := sumf (N - d) (fun j => x (j + d)%nat * conj (x j)).
Theorem wk_core N (x : nat -> F) (k : Z) :
  nrm2 (dftN tw N x k)
  = sumf N (fun d => tw (Z.of_nat d * k)%Z * lagsum N x d)
  + sumf (N - 1) (fun d => tw (- (Z.of_nat (d + 1) * k))%Z * conj (lagsum N x (d + 1))).
Proof.
  set (g := fun m m' => x m * conj (x m') * tw ((Z.of_nat m - Z.of_nat m') * k)%Z).
  assert (E : nrm2 (dftN tw N x k) = sumf N (fun m => sumf N (fun m' => g m m'))).
  { unfold nrm2, dftN. rewrite sumf_conj, <- sumf_scale_r. apply sumf_ext; intros m _.
    rewrite <- sumf_scale. apply sumf_ext; intros m' _. unfold g.
    rewrite conj_mul, tw_cj. replace ((Z.of_nat m - Z.of_nat m') * k)%Z with (Z.of_nat m * k + - (Z.of_nat m' * k))%Z by lia.
    rewrite tw_add. ring. }
  rewrite E, square_split. f_equal.
  - rewrite (sumf_ext N (fun m => sumf (S m) (fun m' => g m m')) (fun m => sumf (S m) (fun d => g m (m - d)%nat))).
    2:{ intros m _. rewrite (sumf_rev (S m)). apply sumf_ext; intros d Hd. f_equal. lia. }
    rewrite (tri_exch N (fun m d => g m (m - d)%nat)).
    apply sumf_ext; intros d Hd. unfold lagsum. rewrite <- sumf_scale. apply sumf_ext; intros j Hj.
    unfold g. replace (j + d - d)%nat with j by lia.
    replace ((Z.of_nat (j + d) - Z.of_nat j) * k)%Z with (Z.of_nat d * k)%Z by lia. ring.
  - rewrite upper_diag. apply sumf_ext; intros d Hd. unfold lagsum. rewrite sumf_conj, <- sumf_scale.
    replace (N - (d + 1))%nat with (N - 1 - d)%nat by lia.
    apply sumf_ext; intros j Hj. unfold g. rewrite conj_mul, conj_conj.
    replace ((Z.of_nat j - Z.of_nat (j + d + 1)) * k)%Z with (- (Z.of_nat (d + 1) * k))%Z by lia.
    replace (j + (d + 1))%nat with (j + d + 1)%nat by lia. ring.
Qed.
End Char.

(* ---------------- grid refinement: NFFT only chooses the grid ---------------- *)
Theorem dft_grid_refine (n c : nat) (tw tw' : Z -> F) (N : nat) (x : nat -> F) (k : Z) :
  (forall a : Z, tw' (Z.of_nat c * a)%Z = tw a) ->
  dftN tw' N x (Z.of_nat c * k)%Z = dftN tw N x k.
Proof.
  intros H. unfold dftN. apply sumf_ext; intros m _. f_equal. rewrite <- H. f_equal. lia.
Qed.

(* ---------------- list-level bridge ---------------- *)
Lemma dft_length tw n (x : list F) : length (dft tw n x) = n.
Proof. apply mk_length. Qed.
Lemma nth_dft tw n (x : list F) k : (k < n)%nat -> (length x <= n)%nat ->
  nthF (dft tw n x) k = dftN tw (length x) (nthF x) (Z.of_nat k).
Proof.
  intros Hk Hx. unfold dft. rewrite nth_mk by exact Hk. rewrite sumL_mk. unfold dftN.
  apply (sumf_le_ext (length x) n); [exact Hx|]. intros i Hi. rewrite nthF_overflow by lia. ring.
Qed.
Lemma nth_dft_crop tw n (x : list F) k : (k < n)%nat ->
  nthF (dft tw n x) k = dftN tw n (nthF x) (Z.of_nat k).
Proof. intros Hk. unfold dft. rewrite nth_mk by exact Hk. rewrite sumL_mk. reflexivity. Qed.
Lemma rdft_length tw n (x : list F) : length (rdft tw n x) = Nat.min (n / 2 + 1) n.
Proof. unfold rdft. rewrite firstn_length, dft_length. reflexivity. Qed.
Lemma nth_rdft tw n (x : list F) k : (k < n / 2 + 1)%nat -> nthF (rdft tw n x) k = nthF (dft tw n x) k.
Proof. intros Hk. unfold rdft. apply nthF_firstn. exact Hk. Qed.
End DftTheory.
