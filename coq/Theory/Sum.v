(* Finite sums over nat-indexed families, in the abstract *-field. *)
Require Import Spectrum.Theory.Ops.

Section Sum.
Context {F : Type} {OF : Ops F}.
Local Open Scope F_scope.

Fixpoint sumf (n : nat) (f : nat -> F) : F :=
  match n with O => 0 | S k => sumf k f + f k end.

Context {L : Laws OF}.
Add Field FFs : (fth (O:=OF)).

Lemma sumf_S n f : sumf (S n) f = sumf n f + f n. Proof. reflexivity. Qed.
Lemma sumf_ext n f g : (forall i, (i < n)%nat -> f i = g i) -> sumf n f = sumf n g.
Proof. induction n; cbn; intros H; [reflexivity|]. rewrite IHn, H; auto. Qed.
Lemma sumf_add n f g : sumf n (fun i => f i + g i) = sumf n f + sumf n g.
Proof. induction n; cbn; [ring|]. rewrite IHn; ring. Qed.
Lemma sumf_sub n f g : sumf n (fun i => f i - g i) = sumf n f - sumf n g.
Proof. induction n; cbn; [ring|]. rewrite IHn; ring. Qed.
Lemma sumf_scale n c f : sumf n (fun i => c * f i) = c * sumf n f.
Proof. induction n; cbn; [ring|]. rewrite IHn; ring. Qed.
Lemma sumf_scale_r n c f : sumf n (fun i => f i * c) = sumf n f * c.
Proof. induction n; cbn; [ring|]. rewrite IHn; ring. Qed.
Lemma sumf_opp n f : sumf n (fun i => - f i) = - sumf n f.
Proof. induction n; cbn; [ring|]. rewrite IHn; ring. Qed.
Lemma sumf_conj n f : conj (sumf n f) = sumf n (fun i => conj (f i)).
Proof. induction n; cbn; [apply conj_0|]. rewrite conj_add, IHn; reflexivity. Qed.
Lemma sumf_zero n : sumf n (fun _ => 0) = 0.
Proof. induction n; cbn; [reflexivity|]. rewrite IHn; ring. Qed.
Lemma sumf_zero_ext n f : (forall i, (i < n)%nat -> f i = 0) -> sumf n f = 0.
Proof. intros H. rewrite (sumf_ext n f (fun _ => 0)) by exact H. apply sumf_zero. Qed.
Lemma sumf_const n c : sumf n (fun _ => c) = ofnat n * c.
Proof. induction n; cbn; [ring|]. rewrite IHn; ring. Qed.
Lemma sumf_shift n f : sumf (S n) f = f O + sumf n (fun i => f (S i)).
Proof.
  induction n; [cbn; ring|].
  change (sumf (S (S n)) f) with (sumf (S n) f + f (S n)). rewrite IHn. cbn. ring.
Qed.
Lemma sumf_rev n f : sumf n f = sumf n (fun i => f (n - 1 - i)%nat).
Proof.
  revert f; induction n; intros f; [reflexivity|].
  rewrite sumf_shift. cbn [sumf]. replace (S n - 1 - n)%nat with O by lia.
  rewrite (IHn (fun i => f (S i))).
  rewrite (Radd_comm (F_R (fth (O:=OF)))). f_equal.
  apply sumf_ext; intros i Hi; f_equal; lia.
Qed.
Lemma sumf_split n m f : sumf (n + m) f = sumf n f + sumf m (fun i => f (n + i)%nat).
Proof.
  induction m; [rewrite Nat.add_0_r; cbn; ring|].
  rewrite Nat.add_succ_r. cbn [sumf]. rewrite IHm. ring.
Qed.
Lemma sumf_exch n m (f : nat -> nat -> F) :
  sumf n (fun i => sumf m (fun j => f i j)) = sumf m (fun j => sumf n (fun i => f i j)).
Proof. induction n; cbn. { symmetry; apply sumf_zero. } rewrite IHn, <- sumf_add. reflexivity. Qed.
Lemma sumf_delta n (m : nat) (c : F) : (m < n)%nat ->
  sumf n (fun i => if (i =? m)%nat then c else 0) = c.
Proof.
  induction n; intros H; [lia|]. cbn. destruct (Nat.eqb_spec n m) as [->|Hn].
  - rewrite sumf_zero_ext. { ring. } intros i Hi. destruct (Nat.eqb_spec i m); [lia|reflexivity].
  - rewrite IHn by lia. ring.
Qed.
Lemma sumf_single n (m : nat) f : (m < n)%nat ->
  (forall i, (i < n)%nat -> i <> m -> f i = 0) -> sumf n f = f m.
Proof.
  intros Hm H. rewrite (sumf_ext n f (fun i => if (i =? m)%nat then f m else 0)).
  - apply sumf_delta; exact Hm.
  - intros i Hi. destruct (Nat.eqb_spec i m) as [->|Hne]; [reflexivity|apply H; assumption].
Qed.
Lemma sumf_telescope n (g : nat -> F) : sumf n (fun k => g k - g (S k)) = g O - g n.
Proof. induction n; cbn; [ring|]. rewrite IHn; ring. Qed.
Lemma sumf_le_ext n m f : (n <= m)%nat -> (forall i, (n <= i < m)%nat -> f i = 0) -> sumf m f = sumf n f.
Proof.
  intros Hnm H. replace m with (n + (m - n))%nat by lia. rewrite sumf_split.
  rewrite (sumf_zero_ext (m - n)). { ring. } intros i Hi. apply H. lia.
Qed.
End Sum.
