(* T7: the FFT-based kernels under the loop-IR tie.

       arma.arma2psd, minvar.minvar (the WHOLE function: checks + embedded arburg + psi loop + fft + division),
       correlog.CORRELOGRAMPSD, periodogram.speriodogram (1-D path)

   are regenerated from the Python source on every run of C08 / C16 / C01 (tools/props/_loopir.py) into IR programs that use the
   vector primitives of Model/LoopIR.v ([EFft] / [ERfft] over the hidden twiddle parameter [VTw tw], [EFftShift], [EMaxArr], [EMean],
   slice stores ...).  This file says, for each kernel, WHAT the run of the program must be in terms of the hand-written model
   (Model/Arma2psd.v, Model/Minvar.v, Model/Periodogram.v): [<kernel>_spec] is an [outcome] - the returned arrays with the dtype tags the
   IR gives them, or the exception class the code must raise - and [<kernel>_args] builds the argument list the Python function would
   receive ([None] = argument omitted: the Python default applies) followed by the hidden oracle parameters and the twiddle.
   Definitions only.  The comparisons evaluated by vm_compute:

     tie_<kernel>   (any F, any feq)   out_eq feq (run prog args) spec        EXACT at QcC with tw1 / tw2 / tw4 (same outcome constructor,
                                                                              same exception class, every entry, the tags)
     f_<kernel>     (binary64)         the same equality at FloatC with the harness twiddle table - the IR run and the model perform the
                                       same operations in the same order, so the floats must agree BIT FOR BIT - and, within the
                                       tolerance the existing correspondences use, the IR run against the implementation's output.

   Tags: IR scalars carry no dtype, so an array combined with a field scalar is tagged "complex" by the IR where numpy keeps float64
   (psd /= max(psd); sampling / real(psi); res *= 2*pi/df).  The specs give the IR's tag; it is not a claim about numpy's dtype there. *)
From Coq Require Import String QArith Qcanon PrimFloat.
Require Import Spectrum.Theory.Ops Spectrum.Theory.Vec Spectrum.Theory.Dft Spectrum.Model.LoopIR Spectrum.Model.LoopIRTie
               Spectrum.Model.Levinson Spectrum.Model.Burg Spectrum.Model.Minvar.
Require Export Spectrum.Model.Corr Spectrum.Model.Arma2psd Spectrum.Model.Periodogram.      (* cnorm, arma_sides, pyval: named by the generated cases *)
Require Import
               Spectrum.Instances.QcC Spectrum.Instances.QcCTw Spectrum.Instances.FloatC Spectrum.Instances.FloatTw.
Import ListNotations.
Local Open Scope Z_scope.

Section Vec.
Context {F : Type} {OF : Ops F}.
Variable feq : F -> F -> bool.
Local Open Scope F_scope.

(* ---------------- equality of outcomes *)
Definition exc_code (e : exc) : nat :=
  match e with
  | ValueError => 0 | AssertionError => 1 | IndexError => 2 | ZeroDivisionError => 3 | TypeError => 4 | UnboundLocal => 5
  | Unsupported => 6 | NotImplementedError => 7 | SpectrumError => 8
  end%nat.
Definition val_eq (a b : @value F) : bool :=
  match a, b with
  | VArr ra la, VArr rb lb => Bool.eqb ra rb && leq feq la lb
  | VF x, VF y => feq x y
  | VI x, VI y => (x =? y)%Z
  | VB x, VB y => Bool.eqb x y
  | VNone, VNone => true
  | VStr x, VStr y => String.eqb x y
  | _, _ => false
  end.
Fixpoint vals_eq (l1 l2 : list (@value F)) : bool :=
  match l1, l2 with
  | [], [] => true
  | a :: t1, b :: t2 => val_eq a b && vals_eq t1 t2
  | _, _ => false
  end.
Definition out_eq (o1 o2 : @outcome F) : bool :=
  match o1, o2 with
  | ORet l1, ORet l2 => vals_eq l1 l2
  | OErr a, OErr b => Nat.eqb (exc_code a) (exc_code b)
  | _, _ => false
  end.

Definition oarr (a : option (bool * list F)) : option (@value F) := option_map (fun q => VArr (fst q) (snd q)) a.
Definition one_lit : F := lit 1 0.          (* the Python default 1. as the IR evaluates it *)

(* ---------------- arma2psd(A=None, B=None, rho=1., T=1., NFFT=4096, sides='default', norm=False) *)
Definition arma2psd_args (tw : nat -> Z -> F) (A B : option (bool * list F)) (rho T : option F) (nfft : nat)
                         (sides : option string) (norm : option bool) : list (option (@value F)) :=
  [oarr A; oarr B; option_map VF rho; option_map VF T; Some (vint nfft); option_map VStr sides; option_map VB norm; Some (VTw tw)].
Definition arma_sides_of (s : option string) : option arma_sides :=
  match s with
  | None => Some SidesDefault
  | Some t => if String.eqb t "default" then Some SidesDefault else if String.eqb t "centerdc" then Some SidesCenterdc else None
  end.
Definition arma_long (nfft : nat) (c : option (bool * list F)) : bool :=
  match c with Some q => negb (length (snd q) <? nfft)%nat | None => false end.
Definition arma2psd_spec (tw : nat -> Z -> F) (A B : option (bool * list F)) (rho T : option F) (nfft : nat)
                         (sides : option string) (norm : option bool) : @outcome F :=
  let rh := match rho with Some z => z | None => one_lit end in
  let tv := match T with Some z => z | None => one_lit end in
  let nm := match norm with Some b => b | None => false end in
  match A, B with
  | None, None => OErr ValueError                                  (* "Either AR or MA model must be provided" *)
  | _, _ =>
      if arma_long nfft A || arma_long nfft B then OErr IndexError   (* den[k+1] / num[k+1] beyond NFFT (den[0] when NFFT = 0) *)
      else match arma_sides_of sides with
           | None => OErr AssertionError                            (* assert sides in ['centerdc'] *)
           | Some sd =>
               match arma2psd (tw nfft) (option_map snd A) (option_map snd B) rh tv nfft sd nm with
               | Some psd => ORet [VArr (negb nm) psd]             (* numpy.real: float64; after psd /= max(psd) the IR's tag is complex *)
               | None => OErr IndexError
               end
           end
  end.
Definition tie_arma2psd (tw : nat -> Z -> F) (p : program) A B rho T nfft sides norm : bool :=
  out_eq (run feq (@nostop F) p (arma2psd_args tw A B rho T nfft sides norm)) (arma2psd_spec tw A B rho T nfft sides norm).

(* ---------------- minvar(X, order, sampling=1., NFFT=default_NFFT), the whole function *)
Definition minvar_args (tw : nat -> Z -> F) (isreal : bool) (x : list F) (order : Z) (s : option F) (nfft : option nat)
  : list (option (@value F)) :=
  [Some (VArr isreal x); Some (VI order); option_map VF s; option_map vint nfft; Some (VTw tw)].
Definition minvar_spec (tw : nat -> Z -> F) (x : list F) (order : Z) (s : option F) (nfft : nat) : @outcome F :=
  let sv := match s with Some z => z | None => one_lit end in
  if (order <? 0)%Z then OErr SpectrumError                        (* errors.is_positive_integer(order) *)
  else
    let m := Z.to_nat order in
    match arburg x (m - 1) no_stop with
    | None => OErr ValueError                                       (* arburg: order - 1 <= 0, order - 1 > len(X), rho <= 0 *)
    | Some _ =>
        match minvar (tw nfft) x m sv nfft with
        | Some (psd, A, k) => ORet [VArr false psd; VArr false A; VArr false k]
        | None => OErr IndexError                                   (* psi[K] with K = NFFT < order *)
        end
    end.
Definition tie_minvar (tw : nat -> Z -> F) (p : program) (isreal : bool) x order s nfft : bool :=
  out_eq (run feq (@nostop F) p (minvar_args tw isreal x order s (Some nfft))) (minvar_spec tw x order s nfft).

(* ---------------- CORRELOGRAMPSD(X, Y=None, lag=-1, window='hamming', norm='unbiased', NFFT=4096, window_params={}, correlation_method='xcorr')
   hidden parameters, in the program's order: Window(2*lag+1, window).data; the two results of each of the two xcorr calls; the two
   pylab_rms_flat results of each of the two embedded CORRELATIONs; the twiddle.
   [meth]: the string given for correlation_method (None = omitted: 'xcorr').  For 'xcorr' the oracle slots are fed the MODEL's xcorr
   (all 2*lag+1 lags; the program takes rxy[lag:]); for 'CORRELATION' they are never read. *)
Definition backend_of (meth : option string) : option backend :=
  match meth with
  | None => Some BXcorr
  | Some t => if String.eqb t "CORRELATION" then Some BCorrelation else if String.eqb t "xcorr" then Some BXcorr else None
  end.
Definition xc_value (r : option (list F)) : @value F := match r with Some l => VArr false l | None => VNone end.
Definition correlogram_args (tw : nat -> Z -> F) (rx : bool) (x : list F) (y : option (bool * list F)) (lag : nat) (wfull : list F)
                            (NFFT : option (option nat)) (nm : option (option string)) (meth : option string) (o1 o2 : F)
  : list (option (@value F)) :=
  let yl := match y with None => x | Some q => snd q end in
  let c := match norm_of nm with Some c => c | None => Unbiased end in
  let l := lag in
  [Some (VArr rx x); oarr y; Some (vint lag); Some (VStr "hamming");
   option_map (fun s => match s with None => VNone | Some t => VStr t end) nm;
   option_map (fun n => match n with None => VNone | Some k => vint k end) NFFT;
   None; option_map VStr meth;
   Some (VArr true wfull);
   Some (xc_value (xcorr (o1 * o2) x yl l c)); Some VNone; Some (xc_value (xcorr (o1 * o2) yl x l c)); Some VNone;
   Some (VF o1); Some (VF o2); Some (VF o2); Some (VF o1);
   Some (VTw tw)].
Definition correlogram_spec (tw : nat -> Z -> F) (x : list F) (y : option (bool * list F)) (lag : nat) (wfull : list F)
                            (NFFT : option (option nat)) (nm : option (option string)) (meth : option string) (o1 o2 : F) : @outcome F :=
  let N := length x in
  let nf := match NFFT with None => Some 4096%nat | Some v => v end in
  let n := resolve nf N in
  if negb (lag <? N)%nat then OErr AssertionError            (* assert lag < N *)
  else match backend_of meth with
  | None => OErr AssertionError                                     (* assert correlation_method in [...] *)
  | Some be =>
      let l := lag in
      match norm_of nm with
      | None => OErr AssertionError                                 (* CORRELATION's assertion on norm *)
      | Some c =>
          if (n =? 0)%nat then OErr IndexError                      (* psd[0] on an empty array *)
          else if (n <? l + 1)%nat && negb (l =? 1)%nat then OErr ValueError   (* the slice psd[1:lag+1] is shorter than the lag values *)
          else match correlogram (tw n) (o1 * o2) x (option_map snd y) l wfull nf c be with
               | Some p => ORet [VArr true p]
               | None => OErr AssertionError
               end
      end
  end.
Definition tie_correlogram (tw : nat -> Z -> F) (p : program) (rx : bool) x y lag wfull NFFT nm meth o1 o2 : bool :=
  out_eq (run feq (@nostop F) p (correlogram_args tw rx x y lag wfull NFFT nm meth o1 o2))
         (correlogram_spec tw x y lag wfull NFFT nm meth o1 o2).

(* ---------------- speriodogram(x, NFFT=None, detrend=True, sampling=1., scale_by_freq=True, window='hamming', axis=0), 1-D x
   hidden parameters: Window(r, window).data, numpy.pi, the twiddle.  The flags are the Python values of Model.Periodogram.pyval
   (an INTEGER flag is outside the tie: the IR's [EIsBool] does not give 1 == True). *)
Definition pyval_value (v : pyval) : @value F :=
  match v with PyTrue => VB true | PyFalse => VB false | PyNone => VNone | PyStr => VStr "mean" | PyInt z => VI z end.
Definition speriodogram_args (tw : nat -> Z -> F) (pi : F) (isreal : bool) (x w : list F) (NFFT : option nat)
                             (dt sbf : option pyval) (fs : option F) : list (option (@value F)) :=
  [Some (VArr isreal x); option_map vint NFFT; option_map pyval_value dt; option_map VF fs; option_map pyval_value sbf;
   Some (VStr "hamming"); None; Some (VArr true w); Some (VF pi); Some (VTw tw)].
Definition speriodogram_spec (tw : nat -> Z -> F) (pi : F) (isreal : bool) (x w : list F) (NFFT : option nat)
                             (dt sbf : option pyval) (fs : option F) : @outcome F :=
  let n := resolve NFFT (length x) in
  let d := match dt with Some v => v | None => PyTrue end in
  let s := match sbf with Some v => v | None => PyTrue end in
  let f := match fs with Some z => z | None => one_lit end in
  if (n =? 0)%nat then OErr ValueError                              (* numpy.fft: invalid number of data points *)
  else ORet [VArr (negb (py_is_true s)) (speriodogram (tw n) (ofZ 2 * pi) x w NFFT isreal d s f)].
Definition tie_speriodogram (tw : nat -> Z -> F) (pi : F) (p : program) (isreal : bool) x w NFFT dt sbf fs : bool :=
  out_eq (run feq (@nostop F) p (speriodogram_args tw pi isreal x w NFFT dt sbf fs)) (speriodogram_spec tw pi isreal x w NFFT dt sbf fs).
End Vec.

(* ---------------- the exact instance: QcC with the exact twiddle characters of period 1, 2, 4 *)
Definition twq (n : nat) : Z -> QcC :=
  match n with 1%nat => tw1 | 2%nat => tw2 | 4%nat => tw4 | _ => fun _ => (0%Qc, 0%Qc) end.
Definition q_arma2psd := @tie_arma2psd QcC qcc_ops qfeq twq.
Definition q_minvar := @tie_minvar QcC qcc_ops qfeq twq.
Definition q_correlogram := @tie_correlogram QcC qcc_ops qfeq twq.
Definition q_speriodogram := @tie_speriodogram QcC qcc_ops qfeq twq.
Definition Tw : option (@value QcC) := Some (VTw twq).

(* ---------------- binary64 *)
Local Existing Instance fc_ops.
Definition ffeq (a b : FloatC) : bool := PrimFloat.eqb (fst a) (fst b) && PrimFloat.eqb (snd a) (snd b).
Definition twf (tbl : list FloatC) (n : nat) : Z -> FloatC :=
  if Nat.eqb n (length tbl) then tw_table tbl else fun _ => (0%float, 0%float).
Definition fflat (v : @value FloatC) : option (list FloatC) :=
  match v with VArr _ l => Some l | VF z => Some [z] | VNone => Some [] | _ => None end.
Fixpoint fclose_all (tol floor : float) (vs : list (@value FloatC)) (impl : list (list FloatC)) : bool :=
  match vs, impl with
  | [], [] => true
  | v :: vt, i :: it => match fflat v with Some l => fc_close_rel tol floor l i | None => false end && fclose_all tol floor vt it
  | _, _ => false
  end.
(* the IR run against the hand model: same constructor / exception class, every array within [tolm] (tolm = 0: bit for bit) *)
Fixpoint fvals_close (tolm floor : float) (l1 l2 : list (@value FloatC)) : bool :=
  match l1, l2 with
  | [], [] => true
  | a :: t1, b :: t2 => match fflat a, fflat b with Some x, Some y => fc_close_rel tolm floor x y | _, _ => false end && fvals_close tolm floor t1 t2
  | _, _ => false
  end.
Definition f_vs_model (tolm floor : float) (o spec : @outcome FloatC) : bool :=
  match o, spec with
  | ORet a, ORet b => fvals_close tolm floor a b
  | OErr a, OErr b => Nat.eqb (exc_code a) (exc_code b)
  | _, _ => false
  end.
(* the implementation returned [impl] / raised [raised] *)
Definition f_vs_impl (tol floor : float) (o : @outcome FloatC) (raised : option exc) (impl : list (list FloatC)) : bool :=
  match raised, o with
  | Some e, OErr e' => Nat.eqb (exc_code e) (exc_code e')
  | None, ORet vs => fclose_all tol floor vs impl
  | _, _ => false
  end.
Definition frun := @run FloatC fc_ops ffeq (@nostop FloatC).
(* each binary64 case: the IR run agrees with the hand model within [tolm] (0: bit for bit) AND with the implementation within [tol] *)
Definition f_arma2psd (tolm tol floor : float) (tbl : list FloatC) (p : program) A B rho T nfft sides norm (raised : option exc) (impl : list FloatC) : bool :=
  let o := frun p (arma2psd_args (twf tbl) A B rho T nfft sides norm) in
  f_vs_model tolm floor o (arma2psd_spec (twf tbl) A B rho T nfft sides norm) && f_vs_impl tol floor o raised [impl].
(* minvar: [tolk] for the AR coefficients / reflection coefficients, [tol] for the PSD *)
Definition f_minvar (tolm tol floor tolk : float) (tbl : list FloatC) (p : program) (isreal : bool) x order s nfft (raised : option exc)
                    (ipsd ia ik : list FloatC) : bool :=
  let o := frun p (minvar_args (twf tbl) isreal x order s (Some nfft)) in
  f_vs_model tolm floor o (minvar_spec (twf tbl) x order s nfft) &&
  match raised, o with
  | Some e, OErr e' => Nat.eqb (exc_code e) (exc_code e')
  | None, ORet [VArr _ psd; VArr _ a; VArr _ k] =>
      fc_close_rel tol floor psd ipsd && fc_close_rel tolk 1%float a ia && fc_close_rel tolk 1%float k ik
  | _, _ => false
  end.
Definition f_correlogram (tolm tol floor : float) (tbl : list FloatC) (p : program) (rx : bool) x y lag wfull NFFT nm meth o1 o2
                         (raised : option exc) (impl : list FloatC) : bool :=
  let o := frun p (correlogram_args (twf tbl) rx x y lag wfull NFFT nm meth o1 o2) in
  f_vs_model tolm floor o (correlogram_spec (twf tbl) x y lag wfull NFFT nm meth o1 o2) && f_vs_impl tol floor o raised [impl].
Definition f_speriodogram (tolm tol floor : float) (tbl : list FloatC) (pi : FloatC) (p : program) (isreal : bool) x w NFFT dt sbf fs
                          (raised : option exc) (impl : list FloatC) : bool :=
  let o := frun p (speriodogram_args (twf tbl) pi isreal x w NFFT dt sbf fs) in
  f_vs_model tolm floor o (speriodogram_spec (twf tbl) pi isreal x w NFFT dt sbf fs) && f_vs_impl tol floor o raised [impl].
