(* Model of spectrum.arma.ma (src/spectrum/arma.py:345-389), definitions only.

     ma(X, Q, M):
         if Q <= 0 or Q >= M: raise ValueError
         a, rho, _ = aryule(X, M, 'biased')            (allow_singularity keeps its default True)
         a = insert(a, 0, 1)
         ma_params, _, _ = aryule(a, Q, 'biased')
         return ma_params, rho

   and the spectrum pma.__call__ builds from it: arma2psd(A=None, B=ma_params, rho=rho, T=sampling, NFFT). *)
Require Import Spectrum.Theory.Ops Spectrum.Theory.Sum Spectrum.Theory.Vec
               Spectrum.Model.Levinson Spectrum.Model.Corr Spectrum.Model.Yule Spectrum.Model.Arma2psd.

Section MaEst.
Context {F : Type} {OF : Ops F}.
Local Open Scope F_scope.

Inductive ma_err := MaValue | MaAssert | MaSingular.   (* ValueError (orders) / AssertionError (order >= N) / ValueError("singular matrix") *)
Definition ma_of_yw (e : yw_err) : ma_err := match e with YAssert => MaAssert | YSingular => MaSingular end.

Definition ma_est (x : list F) (Q M : nat) : ma_err + (list F * F) :=
  if (Q =? 0)%nat || (M <=? Q)%nat then inl MaValue
  else match aryule x M Biased true with
       | inl e => inl (ma_of_yw e)
       | inr (a, rho, _) =>
           match aryule (1 :: a) Q Biased true with
           | inl e => inl (ma_of_yw e)
           | inr (b, _, _) => inr (b, rho)
           end
       end.

(* the two-sided spectrum of pma at sampling 1 *)
Definition pma_S (tw : Z -> F) (x : list F) (Q M : nat) (n : nat) : option (list F) :=
  match ma_est x Q M with
  | inr (b, rho) => arma2psd tw None (Some b) rho 1 n SidesDefault false
  | inl _ => None
  end.
End MaEst.
