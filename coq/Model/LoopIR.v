(* A small deep-embedded imperative IR for the explicit-loop routines of spectrum (LEVINSON, arburg,
   CORRELATION, HERMTOEP, TOEPLITZ, levup, levdown, the psi loop of minvar) and its interpreter.

   The IR terms are produced from the Python source of the snapshot by tools/props/_loopir.py on every
   run (DESIGN 2.3(c)); the interpreter [run] is total, fuel-free (every loop is a [for] over an evaluated
   [range], so the recursion is structural on the list of its values), polymorphic in [Ops F] and
   [vm_compute]-able.  At the exact instance QcC its result is compared with ZERO tolerance against the
   hand-written models (Model/LoopIRTie.v).

   Semantics is that of the Python/numpy fragment it stands for, dynamically typed:
     values    : field scalars (Python float/complex and numpy scalars; no rounding), Python ints (Z), bools,
                 None, strings, 1-D arrays (a dtype tag "real" used only by isrealobj, and the entries),
                 an abstract Criteria object;
     int/float : an int meeting a field scalar is coerced ([ofZ]); int/int is true division;
                 // and % are integer only, Python sign convention (= Coq Z.div / Z.modulo);
     x / 0     : the field's own [div] (as in the hand models: no exception, the instance's total division);
     indexing  : Python's (negative indices wrap, IndexError outside); slices clamp like Python's;
     arrays    : VALUE semantics.  The translator rejects every function in which an array that may be shared
                 (a parameter, a plain alias, a slice view) is mutated in place, so the difference from
                 numpy's reference semantics is never observable in an accepted program;
     errors    : raise / assert / IndexError / dynamic type errors are outcomes ([OErr]), never skipped.
   Not modelled: rounding, the truncation numpy applies when a complex value is stored into a float array
   (the tag of an array does not change its entries).

   Added for arcovar_marple / modcovar_marple (T3):
     ordering  : < <= > >= between two numbers of which at least one is a field scalar are decided by the code's
                 sign test on the difference: a <= b is [le0 (a - b)], a > b its negation, a >= b is [le0 (b - a)],
                 a < b its negation (the operands are real-valued wherever the code orders them; [le0] reads the real
                 part, as for ELe0).  == and != are [feq], as before;
     lists     : a Python list that the code only binds to list displays, appends to and returns is kept as an array
                 of scalars; [SAppend] appends one scalar (the translator enforces the "only" and rejects every other
                 use, so that list and array semantics cannot be told apart).
   Every loop is still a [for] over a range: no [while], no fuel.

   Added for rlevinson (T5):
     matrices  : a 2-D array value [VMat] (dtype tag, number of columns, the rows), created only by
                 numpy.zeros((n, m)[, dtype=complex]); read by U[i, j], U[i, lo:hi:step] (a row), U[lo:hi:step, j] (a column),
                 written by U[i, j] = x and U[:, j] = v (a 1-D array of len(U) entries, or one entry / a scalar, broadcast);
                 the translator admits a matrix name in exactly these forms and as an element of a [return] (so no other
                 variable ever holds a matrix, and 1-D operations never meet one); a wrong shape is ValueError, a bad
                 index IndexError, as in numpy;
     calls     : [SCall] runs the body of another translated function of the same module on a fresh store (arguments
                 evaluated left to right in the caller, omitted ones take the callee's defaults) and binds the n >= 2 values
                 of its [return] to n slots of the caller ([[a, e[k-1]] = levdown(a, e[k])]: the translator then emits the
                 stores of the targets, left to right).  Arrays are passed and returned by value; the translator's aliasing
                 pass is run on the callee too.  A callee that returns another number of values is [Unsupported].

   Added for the wrappers aryule / ma / ac2poly / ac2rc / poly2ac / poly2rc / ar2rc / rc2poly / rc2ac (T6):
     calls     : the callee of an [SCall] may live in ANOTHER module of the package (the translator resolves the module's imports
                 syntactically); keyword and omitted arguments are positions of the argument list ([None] = the callee's default), the
                 hidden oracle parameters of a callee (CORRELATION's two pylab_rms_flat results) are hidden parameters of the caller;
                 [SCall1] is [d = f(args)] for a callee that returns exactly one value (a callee that falls off its end gives None; a
                 tuple value is [Unsupported]: a name bound to the tuple a call returns is translated to one slot per component);
     exceptions: NotImplementedError (ar2rc).

   Added for the FFT-based kernels arma2psd / minvar / CORRELOGRAMPSD / speriodogram (T7):
     transforms: [EFft a n w] is numpy.fft.fft(a[, n]) = [dft (tw m) m a] of Theory/Dft.v (the array cropped / zero-padded to the
                 m = n points, m = len(a) when n is omitted; m <= 0 is numpy's ValueError), [ERfft] is numpy.fft.rfft = the first
                 m/2+1 bins of the same transform (the entries are transformed as they are: the dtype tag is not read).  The twiddle
                 characters are NOT computed: [w] must evaluate to the value [VTw tw], [tw m : Z -> F] standing for
                 a |-> exp(-2 pi i a / m); the translator makes it a hidden last parameter of every program that calls fft / rfft
                 (like the pylab_rms_flat oracle of CORRELATION), so [run] keeps its signature.  Theorems quantify over [tw];
                 the exact runs pass tw1 / tw2 / tw4 of Instances/QcCTw.v, the binary64 runs a table;
     vectors   : numpy.fft.fftshift ([EFftShift]), the builtin max of an array ([EMaxArr]: the first largest entry, decided by the
                 sign test of the difference as every ordering of the IR; the empty array is ValueError), numpy.mean of a 1-D array
                 ([EMean]: sumL / len, axis 0 or -1 only), x.ndim ([ENdim]), type(x) == int ([EIsInt]);
                 abs(v)**2, numpy.real, * and / between arrays and scalars were elementwise already;
     stores    : [SStoreSlice x lo hi step e] is x[lo:hi:step] = e: the positions of the Python slice (negative steps, clamping) are
                 written in order from an array of the same length, or from one value (an array of length 1 or a scalar: numpy
                 broadcasts it, also into an empty slice); any other length is ValueError;
     exceptions: SpectrumError (an exception class of spectrum/errors.py: errors.is_positive_integer).

   Added for lpc (T10):
     transforms: [EIfft a n w] is numpy.fft.ifft(a[, n]) = [idft (tw m) m a] of Theory/Dft.v (the conjugate twiddles tw m (-jk), divided by
                 m), through the same hidden twiddle parameter as [EFft];
     integers  : [ENextPow2 n] is spectrum.tools.nextpow2 = ceil(log2(n)) on a POSITIVE integer-valued argument (the translator accepts
                 the call only while the text of nextpow2 is `res = ceil(log2(x)); return res.astype('int')` with numpy's ceil / log2, and
                 translates the argument in integer arithmetic: `2.*len(x)-1` is the integer 2*len(x)-1; exact for n < 2^52); = Z.log2_up;
                 n <= 0 (log2 of a non-positive number: nan / -inf cast to int) is [Unsupported];  [EPow2 k] is 2 ** k for k >= 0
                 (negative k: [Unsupported]). *)
Require Import Spectrum.Theory.Ops Spectrum.Theory.Vec Spectrum.Theory.Dft.
From Coq Require Import String.
From Coq Require Export ZArith List.
Local Open Scope Z_scope.

Inductive exc := ValueError | AssertionError | IndexError | ZeroDivisionError | TypeError | UnboundLocal | Unsupported | NotImplementedError | SpectrumError.

Inductive binop := BAdd | BSub | BMul | BDiv | BFloorDiv | BMod.
Inductive cmpop := CEq | CNe | CLt | CLe | CGt | CGe.

(* variables are slots of the store (the translator numbers the parameters first, then the locals) *)
Inductive expr :=
| EVar (x : nat)
| EInt (n : Z)                        (* Python int literal *)
| ELit (num : Z) (e2 : nat)           (* Python float literal num / 2^e2 (only low-bit dyadic literals are accepted) *)
| ENone | EBool (b : bool) | EStr (s : string)
| EBin (op : binop) (a b : expr)      (* scalars, or elementwise / broadcast on arrays *)
| ENeg (a : expr)
| EConj (a : expr)                    (* z.conjugate(), z.conj(), numpy.conj(z): scalar or elementwise *)
| EReal (a : expr)                    (* z.real, numpy.real(z) *)
| EImagSq (a : expr)                  (* z.imag ** 2  =  -((z - conj z)/2)^2 *)
| ENrm2 (a : expr)                    (* abs(z) ** 2  =  z * conj z: scalar or elementwise *)
| EFloat (a : expr)                   (* float(n) *)
| ELen (a : expr)                     (* len(a), a.size *)
| EMax (a b : expr) | EMin (a b : expr)   (* on ints *)
| EIndex (a i : expr)                 (* a[i] *)
| ESlice (a : expr) (lo hi step : option expr)   (* a[lo:hi:step] *)
| EZeros (n : expr) (isreal : bool)   (* numpy.zeros(n, dtype=float|complex) *)
| ECopy (a : expr)                    (* numpy.array(a), a.copy() *)
| EAsComplex (a : expr)               (* a.astype(complex) *)
| EInsert (a i v : expr)              (* numpy.insert(a, i, v), scalar v *)
| EConcat (a b : expr)                (* numpy.concatenate((a, b)) *)
| EArrNil | EArrCons (v : expr) (a : expr)       (* list displays [v0, v1, ...] used as arrays *)
| ESum (a : expr)                     (* builtin sum(a): left fold from 0 *)
| EDot (a b : expr)                   (* numpy.dot: product of scalars, sum of products of 1-D arrays (no conjugate) *)
| EComp (j : nat) (lo hi : expr) (body : expr)   (* [body for j in range(lo, hi)] *)
| ECmp (op : cmpop) (a b : expr)
| ELe0 (a : expr)                     (* a <= 0, a <= 0. : the sign test of the code, [le0] *)
| EAnd (a b : expr) | EOr (a b : expr) | ENot (a : expr)   (* short-circuit, on truth values *)
| EIsNone (a : expr)                  (* a is None *)
| EIsBool (b : bool) (a : expr)       (* a is True / a == True / a is False / a == False *)
| EIsRealObj (a : expr)               (* numpy.isrealobj(a) on an array *)
| ENewCrit                            (* Criteria(name=..., N=...): an abstract order-selection object *)
| EZeros2 (n m : expr) (isreal : bool)          (* numpy.zeros((n, m), dtype=float|complex): a matrix *)
| EIndex2 (a i j : expr)                        (* a[i, j] *)
| ERowSlice (a i : expr) (lo hi step : option expr)   (* a[i, lo:hi:step] *)
| EColSlice (a : expr) (lo hi step : option expr) (j : expr)    (* a[lo:hi:step, j] *)
| EFft (a : expr) (n : option expr) (w : expr)  (* numpy.fft.fft(a[, n]); w: the hidden twiddle parameter *)
| ERfft (a : expr) (n : option expr) (w : expr) (* numpy.fft.rfft(a[, n]) *)
| EFftShift (a : expr)                          (* numpy.fft.fftshift(a) on a 1-D array *)
| EMaxArr (a : expr)                            (* builtin max(a) over a 1-D array *)
| EMean (a : expr) (axis : option expr)         (* numpy.mean(a[, axis=0|-1]) on a 1-D array *)
| EIsInt (a : expr)                             (* type(a) == int *)
| ENdim (a : expr)                              (* a.ndim *)
| EIfft (a : expr) (n : option expr) (w : expr) (* T10: numpy.fft.ifft(a[, n]); w: the hidden twiddle parameter *)
| ENextPow2 (a : expr)                          (* T10: tools.nextpow2(n) = ceil(log2(n)) of a positive integer-valued argument *)
| EPow2 (a : expr).                             (* T10: 2 ** k for an int k >= 0 *)

Inductive stmt :=
| SSkip
| SSeq (a b : stmt)
| SAssign (x : nat) (e : expr)
| SStore (x : nat) (i e : expr)       (* x[i] = e *)
| SResize (x : nat) (n : expr)        (* x.resize(n, refcheck=False): truncate / zero-extend in place *)
| SIf (c : expr) (a b : stmt)
| SFor (x : nat) (lo hi step : expr) (body : stmt)    (* for x in range(lo, hi, step) *)
| SBreak | SContinue
| SReturn (es : list expr)
| SRaise (e : exc)
| SAssert (c : expr)
| SCritCall (dst : option nat) (obj : nat) (rho k : expr)   (* [dst =] obj(rho=.., k=..) *)
| SUnsupported                        (* a branch the translator was told not to enter (arburg with a criteria
                                         object is translated; nothing uses this at present) *)
| SAppend (x : nat) (e : expr)        (* x.append(e) on a Python list of scalars that is only appended to and returned *)
| SStore2 (x : nat) (i j e : expr)    (* x[i, j] = e on a matrix *)
| SStoreCol (x : nat) (j e : expr)    (* x[:, j] = e on a matrix *)
| SCall (dsts : list nat) (nparams : nat) (defaults : list (option expr)) (nslots : nat) (body : stmt) (args : list (option expr))
                                      (* [d0, d1, ..] = f(args): the callee's program inlined as a term; fresh store *)
| SCall1 (dst : nat) (nparams : nat) (defaults : list (option expr)) (nslots : nat) (body : stmt) (args : list (option expr))
                                      (* d = f(args) for a callee that returns ONE value (r = CORRELATION(X, maxlags=order, norm=norm)) *)
| SStoreSlice (x : nat) (lo hi step : option expr) (e : expr).   (* x[lo:hi:step] = e *)

Record program := mkProgram {
  p_name : string;
  p_nparams : nat;
  p_defaults : list (option expr);    (* one per parameter: the Python default, if any *)
  p_nslots : nat;
  p_body : stmt }.

Section Interp.
Context {F : Type} {OF : Ops F}.
Variable feq : F -> F -> bool.                 (* the code's == / != on numbers *)
Variable stop : Z -> F -> F -> bool.           (* abstract Criteria: obj(rho, k) is False iff stop k rho_previous rho *)
Local Open Scope F_scope.

Inductive value :=
| VF (z : F) | VI (n : Z) | VB (b : bool) | VNone | VStr (s : string)
| VArr (isreal : bool) (l : list F)
| VCrit (last : option F)
| VUnbound
| VMat (isreal : bool) (ncols : nat) (rows : list (list F))    (* every row has ncols entries *)
| VTw (tw : nat -> Z -> F).           (* the twiddle characters: tw m a stands for exp(-2 pi i a / m) (hidden parameter of fft / rfft) *)

Definition store := list value.
Definition R (A : Type) := (A + exc)%type.
Definition ok {A} (a : A) : R A := inl a.
Definition err {A} (e : exc) : R A := inr e.
Definition bind {A B} (m : R A) (f : A -> R B) : R B := match m with inl a => f a | inr e => inr e end.
Notation "x <- m ;; f" := (bind m (fun x => f)) (at level 61, m at next level, right associativity).

Definition ofZ (z : Z) : F :=
  match z with Z0 => 0 | Zpos p => ofnat (Pos.to_nat p) | Zneg p => - ofnat (Pos.to_nat p) end.
Definition lit (num : Z) (e2 : nat) : F :=
  match e2 with O => ofZ num | _ => ofZ num / ofnat (2 ^ e2) end.

Definition get (st : store) (x : nat) : R value :=
  match nth x st VUnbound with VUnbound => err UnboundLocal | v => ok v end.
Fixpoint set (st : store) (x : nat) (v : value) : store :=
  match st, x with
  | [], _ => []
  | _ :: t, O => v :: t
  | a :: t, S x' => a :: set t x' v
  end.

Definition asF (v : value) : R F := match v with VF z => ok z | VI n => ok (ofZ n) | _ => err TypeError end.
Definition asZ (v : value) : R Z := match v with VI n => ok n | _ => err TypeError end.
Definition asArr (v : value) : R (bool * list F) := match v with VArr r l => ok (r, l) | _ => err TypeError end.
Definition asMat (v : value) : R (bool * nat * list (list F)) := match v with VMat r c rows => ok (r, c, rows) | _ => err TypeError end.
Definition truthy (v : value) : R bool :=
  match v with
  | VB b => ok b | VNone => ok false | VI n => ok (negb (n =? 0)%Z)
  | VStr s => ok (negb (String.eqb s EmptyString))
  | _ => err TypeError
  end.

Definition fop (op : binop) : option (F -> F -> F) :=
  match op with BAdd => Some add | BSub => Some sub | BMul => Some mul | BDiv => Some div | _ => None end.

Fixpoint map2 (f : F -> F -> F) (l1 l2 : list F) : list F :=
  match l1, l2 with a :: t1, b :: t2 => f a b :: map2 f t1 t2 | _, _ => [] end.

Definition arithZ (op : binop) (a b : Z) : R value :=
  match op with
  | BAdd => ok (VI (a + b)) | BSub => ok (VI (a - b)) | BMul => ok (VI (a * b))
  | BDiv => ok (VF (ofZ a / ofZ b))
  | BFloorDiv => if (b =? 0)%Z then err ZeroDivisionError else ok (VI (a / b))
  | BMod => if (b =? 0)%Z then err ZeroDivisionError else ok (VI (a mod b))
  end.

Definition arith (op : binop) (va vb : value) : R value :=
  match va, vb with
  | VI a, VI b => arithZ op a b
  | VArr ra la, VArr rb lb =>
      match fop op with
      | Some f => if Nat.eqb (length la) (length lb) then ok (VArr (ra && rb) (map2 f la lb)) else err ValueError
      | None => err TypeError
      end
  | VArr ra la, VI b => match fop op with Some f => ok (VArr ra (map (fun x => f x (ofZ b)) la)) | None => err TypeError end
  | VArr ra la, VF b => match fop op with Some f => ok (VArr false (map (fun x => f x b) la)) | None => err TypeError end
  | VI a, VArr rb lb => match fop op with Some f => ok (VArr rb (map (fun x => f (ofZ a) x) lb)) | None => err TypeError end
  | VF a, VArr rb lb => match fop op with Some f => ok (VArr false (map (fun x => f a x) lb)) | None => err TypeError end
  | _, _ =>
      match fop op with
      | Some f => a <- asF va ;; b <- asF vb ;; ok (VF (f a b))
      | None => err TypeError
      end
  end.

Definition cmpZ (op : cmpop) (a b : Z) : bool :=
  match op with
  | CEq => (a =? b)%Z | CNe => negb (a =? b)%Z | CLt => (a <? b)%Z | CLe => (a <=? b)%Z
  | CGt => (b <? a)%Z | CGe => (b <=? a)%Z
  end.
Definition eqne (op : cmpop) (e : bool) : R bool :=
  match op with CEq => ok e | CNe => ok (negb e) | _ => err TypeError end.
(* numbers, at least one a field scalar: == / != by [feq]; the order by the sign test [le0] of the difference *)
Definition cmpF (op : cmpop) (a b : F) : R bool :=
  match op with
  | CEq | CNe => eqne op (feq a b)
  | CLe => ok (le0 (a - b)) | CGt => ok (negb (le0 (a - b)))
  | CGe => ok (le0 (b - a)) | CLt => ok (negb (le0 (b - a)))
  end.
Definition compare (op : cmpop) (va vb : value) : R bool :=
  match va, vb with
  | VI a, VI b => ok (cmpZ op a b)
  | VF a, VF b => cmpF op a b
  | VF a, VI b => cmpF op a (ofZ b)
  | VI a, VF b => cmpF op (ofZ a) b
  | VStr a, VStr b => eqne op (String.eqb a b)
  | VB a, VB b => eqne op (Bool.eqb a b)
  | VNone, VNone => eqne op true
  | VNone, VStr _ | VStr _, VNone | VNone, VB _ | VB _, VNone | VStr _, VB _ | VB _, VStr _ => eqne op false
  | _, _ => err TypeError
  end.

(* Python index normalisation on a sequence of length n *)
Definition norm_index (n : nat) (i : Z) : R nat :=
  let i' := if (i <? 0)%Z then (i + Z.of_nat n)%Z else i in
  if ((0 <=? i') && (i' <? Z.of_nat n))%Z then ok (Z.to_nat i') else err IndexError.

(* the values of range(lo, hi, step) *)
Fixpoint range_from (lo step : Z) (n : nat) : list Z :=
  match n with O => [] | S n' => lo :: range_from (lo + step) step n' end.
Definition range_len (lo hi step : Z) : nat :=
  if (0 <? step)%Z then Z.to_nat ((hi - lo + step - 1) / step)
  else Z.to_nat ((lo - hi - step - 1) / (- step)).
Definition range_vals (lo hi step : Z) : R (list Z) :=
  if (step =? 0)%Z then err ValueError else ok (range_from lo step (range_len lo hi step)).

(* Python slice.indices(n): start, stop after clamping; the selected positions *)
Definition slice_positions (n : nat) (lo hi : option Z) (step : Z) : list Z :=
  let len := Z.of_nat n in
  if (0 <? step)%Z then
    let adj v := let v := if (v <? 0)%Z then (v + len)%Z else v in Z.max 0 (Z.min v len) in
    let s := match lo with None => 0%Z | Some v => adj v end in
    let e := match hi with None => len | Some v => adj v end in
    range_from s step (range_len s e step)
  else
    let adj v := let v := if (v <? 0)%Z then (v + len)%Z else v in Z.max (-1) (Z.min v (len - 1)) in
    let s := match lo with None => (len - 1)%Z | Some v => adj v end in
    let e := match hi with None => (-1)%Z | Some v => adj v end in
    range_from s step (range_len s e step).

Definition resize (l : list F) (n : nat) : list F := mk n (fun j => nthF l j).
Fixpoint updF (l : list F) (i : nat) (v : F) : list F :=
  match l, i with
  | [], _ => []
  | _ :: t, O => v :: t
  | a :: t, S i' => a :: updF t i' v
  end.
Definition sum_left (l : list F) : F := fold_left add l 0.
Fixpoint dot (l1 l2 : list F) : F :=
  match l1, l2 with a :: t1, b :: t2 => a * b + dot t1 t2 | _, _ => 0 end.
Definition imagsq (z : F) : F := - (((z - conj z) / two) * ((z - conj z) / two)).

(* matrices *)
Definition mrow (rows : list (list F)) (i : nat) : list F := nth i rows [].
Definition mcol (rows : list (list F)) (j : nat) : list F := map (fun row => nthF row j) rows.
Definition mzeros (n m : nat) : list (list F) := map (fun _ => mk m (fun _ => 0)) (seq 0 n).
Fixpoint mupd_row (rows : list (list F)) (i : nat) (f : list F -> list F) : list (list F) :=
  match rows, i with
  | [], _ => []
  | r :: t, O => f r :: t
  | r :: t, S i' => r :: mupd_row t i' f
  end.
Fixpoint mset_col (rows : list (list F)) (j : nat) (vs : list F) : list (list F) :=   (* one value per row *)
  match rows, vs with
  | r :: t, v :: vt => updF r j v :: mset_col t j vt
  | _, _ => []
  end.

(* vectors (T7) *)
Definition fft_points (len : nat) (n : option Z) : R nat :=
  match n with
  | None => if Nat.eqb len 0 then err ValueError else ok len
  | Some k => if (k <=? 0)%Z then err ValueError else ok (Z.to_nat k)
  end.
Definition fftshiftL (t : list F) : list F :=
  let n := length t in
  mk n (fun j => if (j <? n / 2)%nat then nthF t (j + (n - n / 2)) else nthF t (j - n / 2)).
(* Python's max() over a sequence: x replaces the running maximum m only when x > m, i.e. not (x - m <= 0) *)
Definition maxL (l : list F) : R F :=
  match l with [] => err ValueError | x :: t => ok (fold_left (fun m y => if le0 (y - m) then m else y) t x) end.
Definition meanL (l : list F) : F := sumL l / ofnat (length l).
(* x[positions] = vs, in order *)
Fixpoint store_at (l : list F) (ps : list Z) (vs : list F) : list F :=
  match ps, vs with p :: pt, v :: vt => store_at (updF l (Z.to_nat p) v) pt vt | _, _ => l end.

Definition eval_opt (ev : expr -> R value) (o : option expr) : R (option Z) :=
  match o with None => ok None | Some e => v <- ev e ;; n <- asZ v ;; ok (Some n) end.

Fixpoint eval (st : store) (e : expr) {struct e} : R value :=
  match e with
  | EVar x => get st x
  | EInt n => ok (VI n)
  | ELit num e2 => ok (VF (lit num e2))
  | ENone => ok VNone
  | EBool b => ok (VB b)
  | EStr s => ok (VStr s)
  | EBin op a b => va <- eval st a ;; vb <- eval st b ;; arith op va vb
  | ENeg a => va <- eval st a ;;
      match va with
      | VI n => ok (VI (- n)) | VF z => ok (VF (- z)) | VArr r l => ok (VArr r (map opp l))
      | _ => err TypeError
      end
  | EConj a => va <- eval st a ;;
      match va with
      | VI n => ok (VI n) | VF z => ok (VF (conj z)) | VArr r l => ok (VArr r (map conj l))
      | _ => err TypeError
      end
  | EReal a => va <- eval st a ;;
      match va with VI n => ok (VI n) | VF z => ok (VF (re z)) | VArr r l => ok (VArr true (map re l)) | _ => err TypeError end
  | EImagSq a => va <- eval st a ;; match va with VF z => ok (VF (imagsq z)) | _ => err TypeError end
  | ENrm2 a => va <- eval st a ;;
      match va with
      | VF z => ok (VF (nrm2 z)) | VI n => ok (VI (n * n)) | VArr r l => ok (VArr true (map nrm2 l))
      | _ => err TypeError
      end
  | EFloat a => va <- eval st a ;; match va with VI n => ok (VF (ofZ n)) | _ => err TypeError end
  | ELen a => va <- eval st a ;; match va with VArr _ l => ok (VI (Z.of_nat (length l))) | _ => err TypeError end
  | EMax a b => va <- eval st a ;; vb <- eval st b ;; x <- asZ va ;; y <- asZ vb ;; ok (VI (Z.max x y))
  | EMin a b => va <- eval st a ;; vb <- eval st b ;; x <- asZ va ;; y <- asZ vb ;; ok (VI (Z.min x y))
  | EIndex a i => va <- eval st a ;; vi <- eval st i ;; rl <- asArr va ;; n <- asZ vi ;;
      k <- norm_index (length (snd rl)) n ;; ok (VF (nthF (snd rl) k))
  | ESlice a lo hi step => va <- eval st a ;; rl <- asArr va ;;
      l <- eval_opt (eval st) lo ;; h <- eval_opt (eval st) hi ;; s <- eval_opt (eval st) step ;;
      let s := match s with None => 1%Z | Some v => v end in
      if (s =? 0)%Z then err ValueError
      else ok (VArr (fst rl) (map (fun p => nthF (snd rl) (Z.to_nat p)) (slice_positions (length (snd rl)) l h s)))
  | EZeros n r => vn <- eval st n ;; k <- asZ vn ;;
      if (k <? 0)%Z then err ValueError else ok (VArr r (mk (Z.to_nat k) (fun _ => 0)))
  | ECopy a => va <- eval st a ;; rl <- asArr va ;; ok (VArr (fst rl) (snd rl))
  | EAsComplex a => va <- eval st a ;; rl <- asArr va ;; ok (VArr false (snd rl))
  | EInsert a i v => va <- eval st a ;; vi <- eval st i ;; vv <- eval st v ;;
      rl <- asArr va ;; n <- asZ vi ;; z <- asF vv ;;
      let len := length (snd rl) in
      let n' := if (n <? 0)%Z then (n + Z.of_nat len)%Z else n in
      if ((0 <=? n') && (n' <=? Z.of_nat len))%Z
      then ok (VArr (fst rl)     (* numpy.insert keeps the dtype of the array *)
                    (firstn (Z.to_nat n') (snd rl) ++ z :: skipn (Z.to_nat n') (snd rl)))
      else err IndexError
  | EConcat a b => va <- eval st a ;; vb <- eval st b ;; x <- asArr va ;; y <- asArr vb ;;
      ok (VArr (fst x && fst y) (snd x ++ snd y))
  | EArrNil => ok (VArr true [])
  | EArrCons v a => vv <- eval st v ;; va <- eval st a ;; z <- asF vv ;; rl <- asArr va ;;
      ok (VArr (fst rl && match vv with VI _ => true | _ => false end) (z :: snd rl))
  | ESum a => va <- eval st a ;; rl <- asArr va ;; ok (VF (sum_left (snd rl)))
  | EDot a b => va <- eval st a ;; vb <- eval st b ;;
      match va, vb with
      | VArr _ la, VArr _ lb => if Nat.eqb (length la) (length lb) then ok (VF (dot la lb)) else err ValueError
      | VArr _ _, _ | _, VArr _ _ => err TypeError
      | _, _ => arith BMul va vb
      end
  | EComp j lo hi body => vl <- eval st lo ;; vh <- eval st hi ;; l <- asZ vl ;; h <- asZ vh ;;
      vals <- (fix go (vs : list Z) : R (list F) :=
                 match vs with
                 | [] => ok []
                 | v :: t => x <- eval (set st j (VI v)) body ;; z <- asF x ;; r <- go t ;; ok (z :: r)
                 end) (range_from l 1 (range_len l h 1)) ;;
      ok (VArr false vals)
  | ECmp op a b => va <- eval st a ;; vb <- eval st b ;; r <- compare op va vb ;; ok (VB r)
  | ELe0 a => va <- eval st a ;;
      match va with VI n => ok (VB (n <=? 0)%Z) | VF z => ok (VB (le0 z)) | _ => err TypeError end
  | EAnd a b => va <- eval st a ;; x <- truthy va ;; if x then (vb <- eval st b ;; y <- truthy vb ;; ok (VB y)) else ok (VB false)
  | EOr a b => va <- eval st a ;; x <- truthy va ;; if x then ok (VB true) else (vb <- eval st b ;; y <- truthy vb ;; ok (VB y))
  | ENot a => va <- eval st a ;; x <- truthy va ;; ok (VB (negb x))
  | EIsNone a => va <- eval st a ;; match va with VNone => ok (VB true) | _ => ok (VB false) end
  | EIsBool b a => va <- eval st a ;;
      match va with VB x => ok (VB (Bool.eqb x b)) | VNone | VStr _ => ok (VB false) | _ => err TypeError end
  | EIsRealObj a => va <- eval st a ;; match va with VArr r _ => ok (VB r) | _ => err TypeError end
  | ENewCrit => ok (VCrit None)
  | EZeros2 n m r => vn <- eval st n ;; vm <- eval st m ;; k <- asZ vn ;; l <- asZ vm ;;
      if ((k <? 0) || (l <? 0))%Z then err ValueError else ok (VMat r (Z.to_nat l) (mzeros (Z.to_nat k) (Z.to_nat l)))
  | EIndex2 a i j => va <- eval st a ;; vi <- eval st i ;; vj <- eval st j ;; m <- asMat va ;; ni <- asZ vi ;; nj <- asZ vj ;;
      let '(_, nc, rows) := m in
      ki <- norm_index (length rows) ni ;; kj <- norm_index nc nj ;; ok (VF (nthF (mrow rows ki) kj))
  | ERowSlice a i lo hi step => va <- eval st a ;; vi <- eval st i ;; m <- asMat va ;; ni <- asZ vi ;;
      let '(r, nc, rows) := m in
      ki <- norm_index (length rows) ni ;;
      l <- eval_opt (eval st) lo ;; h <- eval_opt (eval st) hi ;; s <- eval_opt (eval st) step ;;
      let s := match s with None => 1%Z | Some v => v end in
      if (s =? 0)%Z then err ValueError
      else ok (VArr r (map (fun p => nthF (mrow rows ki) (Z.to_nat p)) (slice_positions nc l h s)))
  | EColSlice a lo hi step j => va <- eval st a ;; m <- asMat va ;;
      let '(r, nc, rows) := m in
      l <- eval_opt (eval st) lo ;; h <- eval_opt (eval st) hi ;; s <- eval_opt (eval st) step ;;
      vj <- eval st j ;; nj <- asZ vj ;; kj <- norm_index nc nj ;;
      let s := match s with None => 1%Z | Some v => v end in
      if (s =? 0)%Z then err ValueError
      else ok (VArr r (map (fun p => nthF (mcol rows kj) (Z.to_nat p)) (slice_positions (length rows) l h s)))
  | EFft a n w => va <- eval st a ;; rl <- asArr va ;; k <- eval_opt (eval st) n ;; vw <- eval st w ;;
      match vw with
      | VTw tw => m <- fft_points (length (snd rl)) k ;; ok (VArr false (dft (tw m) m (snd rl)))
      | _ => err TypeError
      end
  | ERfft a n w => va <- eval st a ;; rl <- asArr va ;; k <- eval_opt (eval st) n ;; vw <- eval st w ;;
      match vw with
      | VTw tw => m <- fft_points (length (snd rl)) k ;; ok (VArr false (rdft (tw m) m (snd rl)))
      | _ => err TypeError
      end
  | EFftShift a => va <- eval st a ;; rl <- asArr va ;; ok (VArr (fst rl) (fftshiftL (snd rl)))
  | EMaxArr a => va <- eval st a ;; rl <- asArr va ;; z <- maxL (snd rl) ;; ok (VF z)
  | EMean a ax => va <- eval st a ;; rl <- asArr va ;; k <- eval_opt (eval st) ax ;;
      match k with
      | None | Some 0%Z | Some (-1)%Z => ok (VF (meanL (snd rl)))
      | _ => err ValueError
      end
  | EIsInt a => va <- eval st a ;; match va with VI _ => ok (VB true) | _ => ok (VB false) end
  | ENdim a => va <- eval st a ;; match va with VArr _ _ => ok (VI 1) | VMat _ _ _ => ok (VI 2) | _ => err TypeError end
  | EIfft a n w => va <- eval st a ;; rl <- asArr va ;; k <- eval_opt (eval st) n ;; vw <- eval st w ;;
      match vw with
      | VTw tw => m <- fft_points (length (snd rl)) k ;; ok (VArr false (idft (tw m) m (snd rl)))
      | _ => err TypeError
      end
  | ENextPow2 a => va <- eval st a ;; n <- asZ va ;; if (n <=? 0)%Z then err Unsupported else ok (VI (Z.log2_up n))
  | EPow2 a => va <- eval st a ;; n <- asZ va ;; if (n <? 0)%Z then err Unsupported else ok (VI (2 ^ n))
  end.

Inductive ctl := CNormal | CBreak | CContinue | CRet (vs : list value) | CErr (e : exc).

Fixpoint eval_list (st : store) (es : list expr) : R (list value) :=
  match es with [] => ok [] | e :: t => v <- eval st e ;; r <- eval_list st t ;; ok (v :: r) end.

(* a failing evaluation leaves the store as it was and raises *)
Definition try {A} (st : store) (m : R A) (k : A -> store * ctl) : store * ctl :=
  match m with inl a => k a | inr e => (st, CErr e) end.

(* the iterations of a [for]: [f] is the body; stops at the first break (reported as [CBreak]), return or error *)
Fixpoint for_loop (f : store -> store * ctl) (x : nat) (vs : list Z) (st : store) : store * ctl :=
  match vs with
  | [] => (st, CNormal)
  | v :: t => match f (set st x (VI v)) with
              | (st', CNormal) | (st', CContinue) => for_loop f x t st'
              | other => other
              end
  end.

(* the call prog(args): an argument that is [None] (omitted by the caller) takes the parameter's default *)
Fixpoint bind_args (defs : list (option expr)) (args : list (option value)) : R (list value) :=
  match defs, args with
  | [], [] => ok []
  | d :: dt, a :: at' =>
      v <- match a, d with
           | Some v, _ => ok v
           | None, Some e => eval [] e
           | None, None => err TypeError
           end ;;
      r <- bind_args dt at' ;; ok (v :: r)
  | _, _ => err TypeError
  end.

(* the arguments of a call inside a program: evaluated left to right in the caller's store *)
Fixpoint eval_oargs (st : store) (es : list (option expr)) : R (list (option value)) :=
  match es with
  | [] => ok []
  | None :: t => r <- eval_oargs st t ;; ok (None :: r)
  | Some e :: t => v <- eval st e ;; r <- eval_oargs st t ;; ok (Some v :: r)
  end.
Fixpoint set_all (st : store) (xs : list nat) (vs : list value) : store :=
  match xs, vs with x :: xt, v :: vt => set_all (set st x v) xt vt | _, _ => st end.

Fixpoint exec (s : stmt) (st : store) {struct s} : store * ctl :=
  match s with
  | SSkip => (st, CNormal)
  | SSeq a b => match exec a st with (st', CNormal) => exec b st' | other => other end
  | SAssign x e => try st (eval st e) (fun v => (set st x v, CNormal))
  | SStore x i e =>
      try st (va <- get st x ;; rl <- asArr va ;; vi <- eval st i ;; n <- asZ vi ;; k <- norm_index (length (snd rl)) n ;;
              vv <- eval st e ;; z <- asF vv ;; ok (VArr (fst rl) (updF (snd rl) k z)))
          (fun v => (set st x v, CNormal))
  | SResize x n =>
      try st (va <- get st x ;; rl <- asArr va ;; vn <- eval st n ;; k <- asZ vn ;;
              if (k <? 0)%Z then err ValueError else ok (VArr (fst rl) (resize (snd rl) (Z.to_nat k))))
          (fun v => (set st x v, CNormal))
  | SIf c a b => try st (vc <- eval st c ;; truthy vc) (fun t => if t then exec a st else exec b st)
  | SFor x lo hi step body =>
      try st (vl <- eval st lo ;; vh <- eval st hi ;; vs <- eval st step ;; l <- asZ vl ;; h <- asZ vh ;; s <- asZ vs ;;
              range_vals l h s)
          (fun vals => match for_loop (exec body) x vals st with (st', CBreak) => (st', CNormal) | other => other end)
  | SBreak => (st, CBreak)
  | SContinue => (st, CContinue)
  | SReturn es => try st (eval_list st es) (fun vs => (st, CRet vs))
  | SRaise e => (st, CErr e)
  | SAssert c => try st (vc <- eval st c ;; truthy vc) (fun t => if t then (st, CNormal) else (st, CErr AssertionError))
  | SCritCall dst obj rho k =>
      try st (vo <- get st obj ;; vr <- eval st rho ;; r <- asF vr ;; vk <- eval st k ;; kk <- asZ vk ;;
              match vo with
              | VCrit None => ok (VCrit (Some r), VUnbound)      (* the first call: its result is not specified *)
              | VCrit (Some r0) => ok (VCrit (Some r), VB (negb (stop kk r0 r)))
              | _ => err TypeError
              end)
          (fun p => let st1 := set st obj (fst p) in
                    (match dst with None => st1 | Some d => set st1 d (snd p) end, CNormal))
  | SUnsupported => (st, CErr Unsupported)
  | SAppend x e =>
      try st (va <- get st x ;; rl <- asArr va ;; vv <- eval st e ;; z <- asF vv ;;
              ok (VArr (fst rl && match vv with VI _ => true | _ => false end) (snd rl ++ [z])))
          (fun v => (set st x v, CNormal))
  | SStore2 x i j e =>
      try st (va <- get st x ;; m <- asMat va ;; vi <- eval st i ;; vj <- eval st j ;; ni <- asZ vi ;; nj <- asZ vj ;;
              let '(r, nc, rows) := m in
              ki <- norm_index (length rows) ni ;; kj <- norm_index nc nj ;;
              vv <- eval st e ;; z <- asF vv ;; ok (VMat r nc (mupd_row rows ki (fun row => updF row kj z))))
          (fun v => (set st x v, CNormal))
  | SStoreCol x j e =>
      try st (va <- get st x ;; m <- asMat va ;; vj <- eval st j ;; nj <- asZ vj ;;
              let '(r, nc, rows) := m in
              kj <- norm_index nc nj ;;
              vv <- eval st e ;;
              vs <- match vv with
                    | VArr _ l => if Nat.eqb (length l) (length rows) then ok l
                                  else match l with [z] => ok (map (fun _ => z) rows) | _ => err ValueError end
                    | VF z => ok (map (fun _ => z) rows)
                    | VI n => ok (map (fun _ => ofZ n) rows)
                    | _ => err TypeError
                    end ;;
              ok (VMat r nc (mset_col rows kj vs)))
          (fun v => (set st x v, CNormal))
  | SCall dsts nparams defs nslots body args =>
      try st (vs <- eval_oargs st args ;; bind_args defs vs)
          (fun vals =>
             match exec body (vals ++ repeat VUnbound (nslots - nparams)) with
             | (_, CRet rs) => if Nat.eqb (length rs) (length dsts) && (2 <=? length dsts)%nat then (set_all st dsts rs, CNormal)
                               else (st, CErr Unsupported)
             | (_, CErr e) => (st, CErr e)
             | (_, CNormal) | (_, CBreak) | (_, CContinue) => (st, CErr TypeError)     (* None cannot be unpacked *)
             end)
  | SCall1 dst nparams defs nslots body args =>
      try st (vs <- eval_oargs st args ;; bind_args defs vs)
          (fun vals =>
             match exec body (vals ++ repeat VUnbound (nslots - nparams)) with
             | (_, CRet [r]) => (set st dst r, CNormal)
             | (_, CRet _) => (st, CErr Unsupported)          (* a tuple value: not in the IR *)
             | (_, CErr e) => (st, CErr e)
             | (_, CNormal) => (set st dst VNone, CNormal)    (* the callee fell off its end: None *)
             | (_, CBreak) | (_, CContinue) => (st, CErr TypeError)
             end)
  | SStoreSlice x lo hi step e =>
      try st (va <- get st x ;; rl <- asArr va ;;
              l <- eval_opt (eval st) lo ;; h <- eval_opt (eval st) hi ;; s <- eval_opt (eval st) step ;;
              let s := match s with None => 1%Z | Some v => v end in
              if (s =? 0)%Z then err ValueError
              else
                let ps := slice_positions (length (snd rl)) l h s in
                vv <- eval st e ;;
                vs <- match vv with
                      | VArr _ vl => if Nat.eqb (length vl) (length ps) then ok vl
                                     else match vl with [z] => ok (map (fun _ => z) ps) | _ => err ValueError end
                      | VF z => ok (map (fun _ => z) ps)
                      | VI n => ok (map (fun _ => ofZ n) ps)
                      | _ => err TypeError
                      end ;;
                ok (VArr (fst rl) (store_at (snd rl) ps vs)))
          (fun v => (set st x v, CNormal))
  end.

Inductive outcome := ORet (vs : list value) | OErr (e : exc).

Definition run (p : program) (args : list (option value)) : outcome :=
  match bind_args (p_defaults p) args with
  | inr e => OErr e
  | inl vs =>
      match exec (p_body p) (vs ++ repeat VUnbound (p_nslots p - p_nparams p)) with
      | (_, CNormal) => ORet [VNone]
      | (_, CRet vs) => ORet vs
      | (_, CErr e) => OErr e
      | (_, CBreak) | (_, CContinue) => OErr TypeError
      end
  end.
End Interp.

Arguments VF {F} _.
Arguments VI {F} _.
Arguments VB {F} _.
Arguments VNone {F}.
Arguments VStr {F} _.
Arguments VArr {F} _ _.
Arguments VCrit {F} _.
Arguments VUnbound {F}.
Arguments VMat {F} _ _ _.
Arguments VTw {F} _.
Arguments ORet {F} _.
Arguments OErr {F} _.
