(* C07 — combinator prelude of the generated PSD-cache state machine (definitions only).

   [tools/props/_c07_translate.py] translates psd.py (Range, Spectrum, FourierSpectrum,
   ParametricSpectrum) and the __init__/__call__ of the twelve estimator classes of the SNAPSHOT
   into Gallina text over these combinators, on every run.  Nothing here depends on the source.

   Python values are one dynamically typed universe [val]; an object is a record [St] of the
   (name-mangled) attributes; a method is a function [args -> St -> Res] returning the mutated
   object and either a value or a raised exception (mutations made before a raise are kept,
   as in Python).  PSD arrays are abstracted to [VPsd sn layout len scaled]:
     sn      the attribute values the estimate was computed from (masked by what the class reads),
     layout  the representation the array is in ('onesided' / 'twosided' / 'centerdc'),
     len     its length (an integer the code really branches on),
     scaled  VNone, or the factor 2*pi/df it was multiplied by in scale().
   The numerical content is irrelevant for staleness; the side conversions act on layout and
   length (that a conversion of the true spectrum is the true spectrum in the other layout is
   property C06; here it is part of the abstraction and is exercised by the replay tie). *)
From Coq Require Import List ZArith Bool String Lia QArith Qcanon.
Import ListNotations.
Local Open Scope Z_scope.

Record dval := mkD { d_id : nat; d_len : positive; d_real : bool; d_list : bool }.

Inductive val : Type :=
| VNone | VBool (b : bool) | VStr (s : string) | VInt (z : Z) | VNum (q : Qc) | VData (d : dval)
| VList (l : list val) | VQuot (a b : val)
| VPsd (sn : list val) (layout : val) (len : Z) (scaled : val)
| VAxis (name : val) (len : Z) | VClass (name : string) | VBad.

Definition dval_eqb (a b : dval) : bool :=
  Nat.eqb (d_id a) (d_id b) && Pos.eqb (d_len a) (d_len b) && Bool.eqb (d_real a) (d_real b) && Bool.eqb (d_list a) (d_list b).

(* Python == / is on the atoms the recognised code compares (None, bool, str, int, float, data
   arrays by identity); anything else compares unequal *)
Definition veqb (a b : val) : bool :=
  match a, b with
  | VNone, VNone => true
  | VBool x, VBool y => Bool.eqb x y
  | VStr x, VStr y => String.eqb x y
  | VInt x, VInt y => Z.eqb x y
  | VNum x, VNum y => Qc_eq_bool x y
  | VData x, VData y => dval_eqb x y
  | VClass x, VClass y => String.eqb x y
  | _, _ => false
  end.
Definition vin (a : val) (l : list val) : bool := existsb (veqb a) l.
Definition vltb (a b : val) : bool := match a, b with VInt x, VInt y => Z.ltb x y | _, _ => false end.
Definition vis_int (a : val) : bool := match a with VInt _ => true | _ => false end.
Definition vis_listtype (a : val) : bool := match a with VData d => d_list d | VList _ => true | _ => false end.
Definition visreal (a : val) : bool := match a with VData d => d_real d | _ => false end.
Definition vsize (a : val) : val := match a with VData d => VInt (Zpos (d_len d)) | _ => VBad end.
Definition vlen (a : val) : val := match a with VPsd _ _ n _ => VInt n | VAxis _ n => VInt n | VData d => VInt (Zpos (d_len d)) | _ => VBad end.
Definition vaxis (name len : val) : val := match len with VInt n => VAxis name n | _ => VBad end.
Definition varray (a : val) : val := match a with VData d => VData (mkD (d_id d) (d_len d) (d_real d) false) | _ => a end.
Definition vcopy (a : val) : val := a.
Definition vfloat (a : val) : val := a.
Definition vint (a : val) : val := a.
Definition vquot (a b : val) : val := VQuot a b.
Definition vadd (a b : val) : val := match a, b with VInt x, VInt y => VInt (x + y) | _, _ => VBad end.
Definition vsub (a b : val) : val := match a, b with VInt x, VInt y => VInt (x - y) | _, _ => VBad end.
Definition vmul (a b : val) : val := match a, b with VInt x, VInt y => VInt (x * y) | _, _ => VBad end.
Definition vfloordiv (a b : val) : val := match a, b with VInt x, VInt y => VInt (x / y) | _, _ => VBad end.
Definition vmod (a b : val) : val := match a, b with VInt x, VInt y => VInt (x mod y) | _, _ => VBad end.
(* nextpow2(x) = ceil(log2 x); int(pow(2, n)) *)
Definition vnextpow2 (a : val) : val := match a with VInt x => VInt (Z.log2_up x) | _ => VBad end.
Definition vpow2 (a : val) : val := match a with VInt x => VInt (2 ^ x) | _ => VBad end.

Definition S_one := VStr "onesided".
Definition S_two := VStr "twosided".
Definition S_cen := VStr "centerdc".
Definition S_halved := VStr "twosided/dc-halved".
Definition TwoPi := VStr "2*pi".
Definition S_bad := VStr "not an estimate".

(* ---- abstract PSD arrays *)
Definition vest (sn : list val) (layout : val) (len : val) : val :=
  match len with VInt n => VPsd sn layout n VNone | _ => VBad end.
(* a conversion applied to an array that is not in the layout it expects still returns an array of
   the length the numpy code produces, but it is no estimate any more: layout S_bad *)
Definition conv (from to : val) (f : Z -> Z) (p : val) : val :=
  match p with VPsd sn l n sc => VPsd sn (if veqb l from then to else S_bad) (f n) sc | _ => VBad end.
Definition conv_two2one := conv S_two S_one (fun n => n / 2 + 1).      (* tools.twosided_2_onesided: data[0:N//2+1] *)
Definition conv_one2two := conv S_one S_two (fun n => n + (n - 2)).    (* tools.onesided_2_twosided: data ++ data[-2:0:-1] *)
Definition conv_two2cen := conv S_two S_cen (fun n => n).              (* fftshift *)
Definition conv_cen2two := conv S_cen S_two (fun n => n).              (* ifftshift *)
(* numpy.concatenate((a, b[-1:0:-1])) / 2. on two reads of the one-sided PSD, then x[0] *= 2. *)
Definition vmirror_half (a b : val) : val :=
  match a, b with
  | VPsd sn l n sc, VPsd _ l' n' _ =>
      VPsd sn (if veqb l S_one && veqb l' S_one && (n =? n') then S_halved else S_bad) (n + (n' - 1)) sc
  | _, _ => VBad
  end.
Definition vscale_dc (p : val) : val := conv S_halved S_two (fun n => n) p.
(* psd *= 2*pi/df *)
Definition vimul_twopi_over (p df : val) : val :=
  match p with
  | VPsd sn l n VNone => VPsd sn l n (VQuot TwoPi df)
  | VPsd sn l n _ => VPsd sn l n VBad
  | _ => VBad
  end.
(* estimator output before the class stores it: a full NFFT-point two-sided array *)
Definition vraw (sn : list val) (nfft : val) : val := vest sn S_two nfft.
Definition vslice_half_even (p nfft : val) : val :=           (* psd[0:int(NFFT/2+1)] * 2 *)
  match p, nfft with VPsd sn l _ sc, VInt n => if veqb l S_two then VPsd sn S_one (n / 2 + 1) sc else VBad | _, _ => VBad end.
Definition vslice_half_odd (p nfft : val) : val :=            (* psd[0:int((NFFT+1)/2)] * 2 *)
  match p, nfft with VPsd sn l _ sc, VInt n => if veqb l S_two then VPsd sn S_one ((n + 1) / 2) sc else VBad | _, _ => VBad end.
Definition vflip (p : val) : val := p.                          (* newpsd[::-1] (axis placement: C02) *)
(* speriodogram(...) returns rfft bins for real data, all bins for complex data *)
Definition len_one (n : Z) : Z := if (n mod 2 =? 0) then n / 2 + 1 else (n + 1) / 2.
Definition vest_auto (sn : list val) (data nfft : val) : val :=
  match nfft with VInt n => if visreal data then VPsd sn S_one (len_one n) VNone else VPsd sn S_two n VNone | _ => VBad end.

Record St := mkSt { f_data : val; f_data_y : val; f_sampling : val; f_detrend : val; f_sbf : val; f_sides : val; f_N : val; f_NFFT : val; f_df_priv : val; f_datatype : val; f_cache : val; f_method : val; f_modified : val; f_has_range : val; f_rangeN : val; f_rangeS : val; f_range_df : val; f_window : val; f_lag : val; f_ar_order : val; f_ma_order : val }.
Definition upd_data (v : val) (s : St) : St := mkSt v (f_data_y s) (f_sampling s) (f_detrend s) (f_sbf s) (f_sides s) (f_N s) (f_NFFT s) (f_df_priv s) (f_datatype s) (f_cache s) (f_method s) (f_modified s) (f_has_range s) (f_rangeN s) (f_rangeS s) (f_range_df s) (f_window s) (f_lag s) (f_ar_order s) (f_ma_order s).
Definition upd_data_y (v : val) (s : St) : St := mkSt (f_data s) v (f_sampling s) (f_detrend s) (f_sbf s) (f_sides s) (f_N s) (f_NFFT s) (f_df_priv s) (f_datatype s) (f_cache s) (f_method s) (f_modified s) (f_has_range s) (f_rangeN s) (f_rangeS s) (f_range_df s) (f_window s) (f_lag s) (f_ar_order s) (f_ma_order s).
Definition upd_sampling (v : val) (s : St) : St := mkSt (f_data s) (f_data_y s) v (f_detrend s) (f_sbf s) (f_sides s) (f_N s) (f_NFFT s) (f_df_priv s) (f_datatype s) (f_cache s) (f_method s) (f_modified s) (f_has_range s) (f_rangeN s) (f_rangeS s) (f_range_df s) (f_window s) (f_lag s) (f_ar_order s) (f_ma_order s).
Definition upd_detrend (v : val) (s : St) : St := mkSt (f_data s) (f_data_y s) (f_sampling s) v (f_sbf s) (f_sides s) (f_N s) (f_NFFT s) (f_df_priv s) (f_datatype s) (f_cache s) (f_method s) (f_modified s) (f_has_range s) (f_rangeN s) (f_rangeS s) (f_range_df s) (f_window s) (f_lag s) (f_ar_order s) (f_ma_order s).
Definition upd_sbf (v : val) (s : St) : St := mkSt (f_data s) (f_data_y s) (f_sampling s) (f_detrend s) v (f_sides s) (f_N s) (f_NFFT s) (f_df_priv s) (f_datatype s) (f_cache s) (f_method s) (f_modified s) (f_has_range s) (f_rangeN s) (f_rangeS s) (f_range_df s) (f_window s) (f_lag s) (f_ar_order s) (f_ma_order s).
Definition upd_sides (v : val) (s : St) : St := mkSt (f_data s) (f_data_y s) (f_sampling s) (f_detrend s) (f_sbf s) v (f_N s) (f_NFFT s) (f_df_priv s) (f_datatype s) (f_cache s) (f_method s) (f_modified s) (f_has_range s) (f_rangeN s) (f_rangeS s) (f_range_df s) (f_window s) (f_lag s) (f_ar_order s) (f_ma_order s).
Definition upd_N (v : val) (s : St) : St := mkSt (f_data s) (f_data_y s) (f_sampling s) (f_detrend s) (f_sbf s) (f_sides s) v (f_NFFT s) (f_df_priv s) (f_datatype s) (f_cache s) (f_method s) (f_modified s) (f_has_range s) (f_rangeN s) (f_rangeS s) (f_range_df s) (f_window s) (f_lag s) (f_ar_order s) (f_ma_order s).
Definition upd_NFFT (v : val) (s : St) : St := mkSt (f_data s) (f_data_y s) (f_sampling s) (f_detrend s) (f_sbf s) (f_sides s) (f_N s) v (f_df_priv s) (f_datatype s) (f_cache s) (f_method s) (f_modified s) (f_has_range s) (f_rangeN s) (f_rangeS s) (f_range_df s) (f_window s) (f_lag s) (f_ar_order s) (f_ma_order s).
Definition upd_df_priv (v : val) (s : St) : St := mkSt (f_data s) (f_data_y s) (f_sampling s) (f_detrend s) (f_sbf s) (f_sides s) (f_N s) (f_NFFT s) v (f_datatype s) (f_cache s) (f_method s) (f_modified s) (f_has_range s) (f_rangeN s) (f_rangeS s) (f_range_df s) (f_window s) (f_lag s) (f_ar_order s) (f_ma_order s).
Definition upd_datatype (v : val) (s : St) : St := mkSt (f_data s) (f_data_y s) (f_sampling s) (f_detrend s) (f_sbf s) (f_sides s) (f_N s) (f_NFFT s) (f_df_priv s) v (f_cache s) (f_method s) (f_modified s) (f_has_range s) (f_rangeN s) (f_rangeS s) (f_range_df s) (f_window s) (f_lag s) (f_ar_order s) (f_ma_order s).
Definition upd_cache (v : val) (s : St) : St := mkSt (f_data s) (f_data_y s) (f_sampling s) (f_detrend s) (f_sbf s) (f_sides s) (f_N s) (f_NFFT s) (f_df_priv s) (f_datatype s) v (f_method s) (f_modified s) (f_has_range s) (f_rangeN s) (f_rangeS s) (f_range_df s) (f_window s) (f_lag s) (f_ar_order s) (f_ma_order s).
Definition upd_method (v : val) (s : St) : St := mkSt (f_data s) (f_data_y s) (f_sampling s) (f_detrend s) (f_sbf s) (f_sides s) (f_N s) (f_NFFT s) (f_df_priv s) (f_datatype s) (f_cache s) v (f_modified s) (f_has_range s) (f_rangeN s) (f_rangeS s) (f_range_df s) (f_window s) (f_lag s) (f_ar_order s) (f_ma_order s).
Definition upd_modified (v : val) (s : St) : St := mkSt (f_data s) (f_data_y s) (f_sampling s) (f_detrend s) (f_sbf s) (f_sides s) (f_N s) (f_NFFT s) (f_df_priv s) (f_datatype s) (f_cache s) (f_method s) v (f_has_range s) (f_rangeN s) (f_rangeS s) (f_range_df s) (f_window s) (f_lag s) (f_ar_order s) (f_ma_order s).
Definition upd_has_range (v : val) (s : St) : St := mkSt (f_data s) (f_data_y s) (f_sampling s) (f_detrend s) (f_sbf s) (f_sides s) (f_N s) (f_NFFT s) (f_df_priv s) (f_datatype s) (f_cache s) (f_method s) (f_modified s) v (f_rangeN s) (f_rangeS s) (f_range_df s) (f_window s) (f_lag s) (f_ar_order s) (f_ma_order s).
Definition upd_rangeN (v : val) (s : St) : St := mkSt (f_data s) (f_data_y s) (f_sampling s) (f_detrend s) (f_sbf s) (f_sides s) (f_N s) (f_NFFT s) (f_df_priv s) (f_datatype s) (f_cache s) (f_method s) (f_modified s) (f_has_range s) v (f_rangeS s) (f_range_df s) (f_window s) (f_lag s) (f_ar_order s) (f_ma_order s).
Definition upd_rangeS (v : val) (s : St) : St := mkSt (f_data s) (f_data_y s) (f_sampling s) (f_detrend s) (f_sbf s) (f_sides s) (f_N s) (f_NFFT s) (f_df_priv s) (f_datatype s) (f_cache s) (f_method s) (f_modified s) (f_has_range s) (f_rangeN s) v (f_range_df s) (f_window s) (f_lag s) (f_ar_order s) (f_ma_order s).
Definition upd_range_df (v : val) (s : St) : St := mkSt (f_data s) (f_data_y s) (f_sampling s) (f_detrend s) (f_sbf s) (f_sides s) (f_N s) (f_NFFT s) (f_df_priv s) (f_datatype s) (f_cache s) (f_method s) (f_modified s) (f_has_range s) (f_rangeN s) (f_rangeS s) v (f_window s) (f_lag s) (f_ar_order s) (f_ma_order s).
Definition upd_window (v : val) (s : St) : St := mkSt (f_data s) (f_data_y s) (f_sampling s) (f_detrend s) (f_sbf s) (f_sides s) (f_N s) (f_NFFT s) (f_df_priv s) (f_datatype s) (f_cache s) (f_method s) (f_modified s) (f_has_range s) (f_rangeN s) (f_rangeS s) (f_range_df s) v (f_lag s) (f_ar_order s) (f_ma_order s).
Definition upd_lag (v : val) (s : St) : St := mkSt (f_data s) (f_data_y s) (f_sampling s) (f_detrend s) (f_sbf s) (f_sides s) (f_N s) (f_NFFT s) (f_df_priv s) (f_datatype s) (f_cache s) (f_method s) (f_modified s) (f_has_range s) (f_rangeN s) (f_rangeS s) (f_range_df s) (f_window s) v (f_ar_order s) (f_ma_order s).
Definition upd_ar_order (v : val) (s : St) : St := mkSt (f_data s) (f_data_y s) (f_sampling s) (f_detrend s) (f_sbf s) (f_sides s) (f_N s) (f_NFFT s) (f_df_priv s) (f_datatype s) (f_cache s) (f_method s) (f_modified s) (f_has_range s) (f_rangeN s) (f_rangeS s) (f_range_df s) (f_window s) (f_lag s) v (f_ma_order s).
Definition upd_ma_order (v : val) (s : St) : St := mkSt (f_data s) (f_data_y s) (f_sampling s) (f_detrend s) (f_sbf s) (f_sides s) (f_N s) (f_NFFT s) (f_df_priv s) (f_datatype s) (f_cache s) (f_method s) (f_modified s) (f_has_range s) (f_rangeN s) (f_rangeS s) (f_range_df s) (f_window s) (f_lag s) (f_ar_order s) v.
Definition blank : St := mkSt VNone VNone VNone VNone VNone VNone VNone VNone VNone VNone VNone VNone VNone VNone VNone VNone VNone VNone VNone VNone VNone.

(* ---- methods: state -> (state, outcome) *)
Inductive outcome := Ok (v : val) | Err (e : string).
Definition Res : Type := St * outcome.
Definition ret (s : St) : Res := (s, Ok VNone).
Definition retv (v : val) (s : St) : Res := (s, Ok v).
Definition err (e : string) (s : St) : Res := (s, Err e).
Definition bind (r : Res) (k : val -> St -> Res) : Res :=
  match r with (s, Ok v) => k v s | (s, Err e) => (s, Err e) end.
Definition st_of (r : Res) : St := fst r.

(* ---- what a class' computation reads: a mask over the attribute snapshot *)
Record mask := mkMask { m_data : bool; m_N : bool; m_datatype : bool; m_sampling : bool; m_detrend : bool; m_sbf : bool;
                        m_NFFT : bool; m_window : bool; m_lag : bool; m_ar_order : bool; m_ma_order : bool }.
Definition pick (b : bool) (v : val) : val := if b then v else VNone.
Definition msnap (m : mask) (s : St) : list val :=
  [pick (m_data m) (f_data s); pick (m_N m) (f_N s); pick (m_datatype m) (f_datatype s); pick (m_sampling m) (f_sampling s);
   pick (m_detrend m) (f_detrend s); pick (m_sbf m) (f_sbf s); pick (m_NFFT m) (f_NFFT s); pick (m_window m) (f_window s);
   pick (m_lag m) (f_lag s); pick (m_ar_order m) (f_ar_order s); pick (m_ma_order m) (f_ma_order s)].

(* ---- the operation alphabet *)
Inductive attr := AData | ANFFT | ASampling | ADetrend | AScale | ASides | AWindow | ALag | AAr | AMa.
Inductive op :=
| OSetData (d : dval) | OSetNFFT (v : val) | OSetSampling (q : Qc) | OSetDetrend (v : option string) | OSetScale (b : bool)
| OSetSides (v : string) | OSetWindow (v : string) | OSetLag (z : Z) | OSetAr (v : option Z) | OSetMa (v : option Z)
| OReassign (a : attr) | OCall | ORead | OConv (v : string) | OFreq (v : option string).
Definition ostr (v : option string) : val := match v with Some x => VStr x | None => VNone end.
Definition oint (v : option Z) : val := match v with Some x => VInt x | None => VNone end.

(* ---- frequency axis lengths and the invariant *)
Definition flen (sd : val) (n : Z) : Z := if veqb sd S_one then len_one n else n.
Definition scaled_of (s : St) : val :=
  if veqb (f_sbf s) (VBool true) then VQuot TwoPi (VQuot (f_sampling s) (f_NFFT s)) else VNone.
Definition nfft_of (s : St) : Z := match f_NFFT s with VInt n => n | _ => 0 end.
(* the estimate of the current attribute values, in the layout [sides] currently names *)
Definition target (m : mask) (s : St) : val :=
  VPsd (msnap m s) (f_sides s) (flen (f_sides s) (nfft_of s)) (scaled_of s).
Definition default_sides_of (s : St) : val := if veqb (f_datatype s) (VStr "real") then S_one else S_two.

Record Typ (s : St) : Prop := mkTyp {
  t_data : exists d, f_data s = VData d /\ f_N s = VInt (Zpos (d_len d)) /\
                     f_datatype s = VStr (if d_real d then "real" else "complex") /\ d_list d = false;
  t_nfft : exists n, f_NFFT s = VInt n /\ 0 < n;
  t_mod : exists b, f_modified s = VBool b;
  t_sides : f_sides s = S_one \/ f_sides s = S_two \/ f_sides s = S_cen;
  t_hasr : f_has_range s = VBool true;
  t_df : f_range_df s = VQuot (f_rangeS s) (f_rangeN s) }.

Record Inv (m : mask) (s : St) : Prop := mkInv {
  i_typ : Typ s;
  i_rangeN : f_rangeN s = f_NFFT s;
  i_rangeS : f_rangeS s = f_sampling s;
  i_cache : f_cache s = VNone \/ f_modified s = VBool true \/ f_cache s = target m s }.

(* state after an explicit computation *)
Definition after_call (m : mask) (s : St) : St :=
  let s1 := upd_sides (default_sides_of s) s in
  upd_modified (VBool false) (upd_cache (target m s1) s1).
(* goals of the symbolic execution: a postcondition applied to the result of a method *)
Definition holds (P : Res -> Prop) (r : Res) : Prop := P r.
(* two PSD values are the same estimate (possibly in different layouts) *)
Definition same_estimate (p q : val) : Prop :=
  match p, q with VPsd sn _ _ sc, VPsd sn' _ _ sc' => sn = sn' /\ sc = sc' | _, _ => False end.
Definition CallSpec (m : mask) (call_ : St -> Res) : Prop :=
  forall s, Typ s -> f_rangeN s = f_NFFT s -> f_rangeS s = f_sampling s ->
  exists r, call_ s = (after_call m s, Ok r).
