(* Model of spectrum/yulewalker.py (aryule, the coefficient part of pyule.__call__) and
   spectrum/lpc.py (lpc).  Definitions only.

   aryule(X, order, norm, allow_singularity):
       assert norm in ['biased', 'unbiased']
       r = CORRELATION(X, maxlags=order, norm=norm)        (asserts order < len(X))
       A, P, k = LEVINSON(r, allow_singularity=allow_singularity)   (order = len(r) - 1)
   lpc(x, N):
       m = len(x); N defaults to m-1; if N > m-1 the data are zero padded to N+1 samples (x.resize),
       X = fft(x, 2**nextpow2(2*len(x)-1)); R = real(ifft(abs(X)**2)); R = R/(m-1.)   <- divides by m-1, not m
       a, e, ref = LEVINSON(R, N)       (allow_singularity=False); returns (a, e)
   The FFT autocorrelation is modelled by what it computes in exact arithmetic when the transform
   length is >= 2*len(x)-1 (no circular overlap): entry k of R is the lag sum at lag k for k < len(x),
   the conjugate lag sum at lag nfft-k for k > nfft-len(x), zero in between (numpy.fft is a library
   call: specification, see DESIGN 3.2); [real] is [re]. *)
Require Import Spectrum.Theory.Ops Spectrum.Theory.Sum Spectrum.Theory.Vec
               Spectrum.Model.Levinson Spectrum.Model.Corr.

Section Yule.
Context {F : Type} {OF : Ops F}.
Local Open Scope F_scope.

Inductive yw_err := YAssert | YSingular.       (* AssertionError / ValueError("singular matrix") *)
Definition yw_result := (yw_err + @lev_state F)%type.

Definition aryule (x : list F) (order : nat) (nm : cnorm) (allow : bool) : yw_result :=
  match nm with
  | Biased | Unbiased =>
      match acorr x order nm with
      | None => inl YAssert
      | Some r => match levinson r (length r - 1) allow with
                  | None => inl YSingular
                  | Some st => inr st
                  end
      end
  | _ => inl YAssert
  end.

(* pyule(data, order, norm).__call__ stores  ar, rho, k = aryule(data, order, norm)  (allow_singularity
   keeps aryule's default True) in .ar and .reflection before building the PSD *)
Definition pyule_ar (x : list F) (order : nat) (nm : cnorm) : yw_result := aryule x order nm true.

(* smallest power of two >= n  ( = 2**nextpow2(n) for n >= 1 ) *)
Fixpoint pow2_ge_aux (fuel acc n : nat) : nat :=
  match fuel with
  | O => acc
  | S f => if (n <=? acc)%nat then acc else pow2_ge_aux f (2 * acc) n
  end.
Definition pow2_ge (n : nat) : nat := pow2_ge_aux n 1 n.

(* R = real(ifft(abs(fft(x, nfft))**2)) / (m-1)  with x read as zero beyond its end; L = len(x) after the resize *)
Definition lpc_R (x : list F) (L m : nat) : list F :=
  let nfft := pow2_ge (2 * L - 1) in
  mk nfft (fun k =>
    re (if (k <? L)%nat then lag_sum L x x k
        else if (nfft - k <? L)%nat then conj (lag_sum L x x (nfft - k))
        else 0) / ofnat (m - 1)).

Definition lpc (x : list F) (N : option nat) : option (list F * F) :=
  let m := length x in
  let p := match N with None => (m - 1)%nat | Some n => n end in
  let L := match N with None => m | Some n => if (m - 1 <? n)%nat then (n + 1)%nat else m end in
  match levinson (lpc_R x L m) p false with
  | None => None
  | Some (a, e, _) => Some (a, e)
  end.
End Yule.
