(* Model of the side conversions of spectrum (C06), as the code is after the repair
   "fix: side conversions follow the frequency axes":

     tools.twosided_2_onesided, tools.onesided_2_twosided, tools.twosided_2_centerdc
     (numpy.fft.fftshift), tools.centerdc_2_twosided (numpy.fft.ifftshift), tools.cshift,
     Spectrum.get_converted_psd (six branches, routed by len(psd) and NFFT exactly like the
     code), the sides setter, the psd setter, Range.onesided/twosided/centerdc (integer bins).

   Definitions only.  Index form: every vector is [mk len (fun j => ...)], shifts are written
   with a conditional and n/2, never with a modulus by a variable.  The in-place scalings of
   the code (x * 2. ; x[0] /= 2. ; x[-1] /= 2. ; x / 2. ; x[0] *= 2. ; x[L-1] *= 2.) are kept
   literally, in the order the code applies them (so the L = 1 quirk of onesided_2_twosided,
   which doubles the only entry, is in the model). *)
Require Import Spectrum.Theory.Ops Spectrum.Theory.Sum Spectrum.Theory.Vec.

Inductive side : Type := One | Two | Center.

Definition side_eqb (a b : side) : bool :=
  match a, b with
  | One, One | Two, Two | Center, Center => true
  | _, _ => false
  end.

(* ---------------------------------------------------------------- Range (integer bins) *)
(* len(Range(N).onesided()) etc.: N//2+1 for even N, (N+1)//2 for odd N; N otherwise *)
Definition flen (s : side) (n : nat) : nat :=
  match s with
  | One => if Nat.even n then n / 2 + 1 else (n + 1) / 2
  | _ => n
  end.
(* frequencies(s) = bin * df with df = sampling / N : the integer bins Range reports.
   onesided: a ; twosided: a (0 .. N-1, NOT signed) ; centerdc: a - N//2 *)
Definition freq_bins (s : side) (n : nat) : list Z :=
  map (fun a => match s with
                | Center => (Z.of_nat a - Z.of_nat (n / 2))%Z
                | _ => Z.of_nat a
                end) (seq 0 (flen s n)).
(* the representative in (-n/2, n/2] of a reported bin: the same frequency modulo the
   sampling frequency (twosided bins above n/2 are negative frequencies; the centred
   entry -n/2 of an even n is the Nyquist frequency +n/2) *)
Definition canon (n : nat) (b : Z) : Z :=
  if (Z.of_nat n <? 2 * b)%Z then (b - Z.of_nat n)%Z
  else if (2 * b <=? - Z.of_nat n)%Z then (b + Z.of_nat n)%Z else b.
(* signed bin of entry i of a vector stored with sides s *)
Definition sbin (s : side) (n : nat) (i : nat) : Z := canon n (nth i (freq_bins s n) 0%Z).

Section Convert.
Context {F : Type} {OF : Ops F}.
Local Open Scope F_scope.

(* ---------------------------------------------------------------- tools helpers *)
(* N = len(data); psd = np.array(data[0:N//2+1]) * 2. ; psd[0] /= 2. ; if N % 2 == 0: psd[-1] /= 2.
   (N = 0 raises IndexError in the code; the model returns [] there) *)
Definition two2one (t : list F) : list F :=
  let n := length t in
  mk (Nat.min (n / 2 + 1) n) (fun j =>
    let v := nthF t j * two in
    let v := if (j =? 0)%nat then v / two else v in
    if (Nat.even n && (j =? n / 2)%nat)%bool then v / two else v).

(* psd = np.concatenate((data, data[-2:0:-1])) / 2. ; psd[0] *= 2. ; psd[len(data)-1] *= 2.
   always the even-NFFT layout; data[-2:0:-1] has L-2 entries (none for L <= 2)
   (L = 0 raises IndexError in the code; the model returns [] there) *)
Definition one2two_even (p : list F) : list F :=
  let L := length p in
  mk (L + (L - 2)) (fun j =>
    let v := (if (j <? L)%nat then nthF p j else nthF p (2 * L - 2 - j)) / two in
    let v := if (j =? 0)%nat then v * two else v in
    if (j =? L - 1)%nat then v * two else v).

(* the branch of get_converted_psd for odd NFFT:
   twosided = numpy.concatenate((psd, psd[-1:0:-1])) / 2. ; twosided[0] *= 2. *)
Definition one2two_odd (p : list F) : list F :=
  let L := length p in
  mk (L + (L - 1)) (fun j =>
    let v := (if (j <? L)%nat then nthF p j else nthF p (2 * L - 1 - j)) / two in
    if (j =? 0)%nat then v * two else v).

(* numpy.fft.fftshift: out[j] = x[(j - n//2) mod n] *)
Definition two2center (t : list F) : list F :=
  let n := length t in
  mk n (fun j => if (j <? n / 2)%nat then nthF t (j + (n - n / 2)) else nthF t (j - n / 2)).
(* numpy.fft.ifftshift: out[j] = x[(j + n//2) mod n] *)
Definition center2two (c : list F) : list F :=
  let n := length c in
  mk n (fun j => if (j <? n - n / 2)%nat then nthF c (j + n / 2) else nthF c (j - (n - n / 2))).

(* tools.cshift(data, offset) = deque(data).rotate(offset): rotation to the right by offset,
   to the left for a negative offset; one step at a time, so no modulus appears *)
Definition rot_right1 (l : list F) : list F :=
  match l with [] => [] | _ => last l 0 :: removelast l end.
Definition rot_left1 (l : list F) : list F :=
  match l with [] => [] | x :: r => r ++ [x] end.
Definition cshift (l : list F) (offset : Z) : list F :=
  match offset with
  | Z0 => l
  | Zpos k => Nat.iter (Pos.to_nat k) rot_right1 l
  | Zneg k => Nat.iter (Pos.to_nat k) rot_left1 l
  end.

(* ---------------------------------------------------------------- get_converted_psd *)
(* "if 2 * len(self.psd) - 1 == self.NFFT" (Python integers: false for an empty psd) *)
Definition one2two (nfft : nat) (p : list F) : list F :=
  if (2 * length p =? nfft + 1)%nat then one2two_odd p else one2two_even p.

(* the six branches, and "return self.__psd" when the sides do not change *)
Definition conv (nfft : nat) (s t : side) (p : list F) : list F :=
  match s, t with
  | One, One | Two, Two | Center, Center => p
  | One, Two => one2two nfft p
  | One, Center => two2center (one2two nfft p)
  | Two, One => two2one p
  | Two, Center => two2center p
  | Center, One => two2one (center2two p)
  | Center, Two => center2two p
  end.

(* get_converted_psd(t) of an object with datatype complex/real, NFFT, sides s, stored psd p;
   None = the AssertionError "complex datatype so sides cannot be onesided" (tested after
   the "sides == self.sides" shortcut, as in the code) *)
Definition convert (cplx : bool) (nfft : nat) (s t : side) (p : list F) : option (list F) :=
  if side_eqb s t then Some p
  else if (cplx && side_eqb t One)%bool then None
  else Some (conv nfft s t p).

(* ---------------------------------------------------------------- the object *)
(* observable state of a Spectrum object with an up-to-date stored psd *)
Record pstate : Type := mkP { st_cplx : bool; st_nfft : nat; st_sides : side; st_psd : list F }.

(* p.psd = v : real data keep NFFT and become onesided; complex data become twosided and
   NFFT := len(v) *)
Definition assign_psd (cplx : bool) (nfft : nat) (v : list F) : pstate :=
  if cplx then mkP true (length v) Two v else mkP false nfft One v.

(* p.sides = t : the stored psd is replaced by get_converted_psd(t); an exception leaves the
   object unchanged and is reported as None *)
Definition set_sides (st : pstate) (t : side) : option pstate :=
  match convert (st_cplx st) (st_nfft st) (st_sides st) t (st_psd st) with
  | Some q => Some (mkP (st_cplx st) (st_nfft st) t q)
  | None => None
  end.
(* p.get_converted_psd(t) : a pure query *)
Definition query (st : pstate) (t : side) : option (list F) :=
  convert (st_cplx st) (st_nfft st) (st_sides st) t (st_psd st).

Fixpoint run_path (path : list side) (st : pstate) : option pstate :=
  match path with
  | [] => Some st
  | t :: rest => match set_sides st t with Some st' => run_path rest st' | None => None end
  end.

(* ---------------------------------------------------------------- well-formedness *)
(* Hermitian symmetry of a twosided vector in FFT order: t[j] = t[n-j] (the two-sided PSD of
   real data; exactly the vectors produced from a one-sided one) *)
Definition sym2 (t : list F) : Prop :=
  forall j, (1 <= j < length t)%nat -> nthF t j = nthF t (length t - j).
(* the symmetry a stored vector must have when the data are real *)
Definition symS (s : side) (p : list F) : Prop :=
  match s with One => True | Two => sym2 p | Center => sym2 (center2two p) end.
Definition wf (cplx : bool) (nfft : nat) (s : side) (p : list F) : Prop :=
  (1 <= nfft)%nat /\ length p = flen s nfft /\ (if cplx then s <> One else symS s p).
Definition wf_state (st : pstate) : Prop := wf (st_cplx st) (st_nfft st) (st_sides st) (st_psd st).
(* complex data: a path may not ask for onesided *)
Definition allowed (cplx : bool) (path : list side) : Prop :=
  cplx = true -> ~ In One path.

(* ---------------------------------------------------------------- axis weights *)
(* weight with which source entry i (sides s) contributes to result entry j (sides t):
   the frequencies must agree, up to sign as soon as one of the two is one-sided; an
   interior one-sided value (neither DC nor Nyquist) is split equally between +f and -f *)
Definition is_one (s : side) : bool := side_eqb s One.
Definition interior (n : nat) (b : Z) : bool := negb (b =? 0)%Z && negb (2 * b =? Z.of_nat n)%Z.
Definition bin_match (s t : side) (bi bj : Z) : bool :=
  if (is_one s || is_one t)%bool then (Z.abs bi =? Z.abs bj)%Z else (bi =? bj)%Z.
Definition weight (s t : side) (n : nat) (i j : nat) : F :=
  let bi := sbin s n i in
  let bj := sbin t n j in
  if bin_match s t bi bj
  then (if (is_one s && negb (is_one t) && interior n bi)%bool then 1 / two else 1)
  else 0.
End Convert.
