(* C07 — replaying operation histories on a generated machine and packing what an observer of the
   real object can see into integers (definitions only; used by the correspondence run). *)
From Coq Require Import List ZArith Bool String Lia QArith Qcanon.
Require Import Spectrum.Model.PsdMachineLib.
Import ListNotations.
Local Open Scope Z_scope.

Fixpoint index_of {A} (eqb : A -> A -> bool) (x : A) (l : list A) (i : Z) : Z :=
  match l with [] => 999 | y :: r => if eqb x y then i else index_of eqb x r (i + 1) end.

Definition err_names : list string :=
  ["AssertionError"; "ValueError"; "SpectrumChoiceError"; "SpectrumARError"; "SpectrumMAError"; "SpectrumARMAError";
   "UnboundLocalError"; "RecursionError"; "TypeError"; "AttributeError"]%string.
Definition side_names : list val := [S_one; S_two; S_cen].

Definition vlen_code (v : val) : Z :=   (* length of a returned value: None -> 2, array/axis of length n -> n + 3 *)
  match v with VNone => 2 | VPsd _ _ n _ => n + 3 | VAxis _ n => n + 3 | _ => 0 end.
Definition out_code (o : outcome) : Z := match o with Ok _ => 0 | Err e => 1 + index_of String.eqb e err_names 0 end.
Definition ret_code (o : outcome) : Z := match o with Ok v => vlen_code v | Err _ => 1 end.
Definition int_code (v : val) : Z := match v with VInt n => if (0 <=? n) && (n <? 900) then n else 998 | _ => 999 end.
Definition num_code (tbl : list Qc) (v : val) : Z := match v with VNum q => index_of Qc_eq_bool q tbl 0 | _ => 998 end.
Definition bool_code (v : val) : Z := match v with VBool false => 0 | VBool true => 1 | _ => 2 end.

Section Run.
Variable run : St -> op -> Res.
Variable freq : St -> Res.          (* frequencies() with no argument *)
Variable tbl : list Qc.             (* the sampling values used by the harness *)

(* components, least significant first; every component < 1000 *)
Definition obs_codes (o : outcome) (s : St) : list Z :=
  [out_code o; ret_code o; bool_code (f_modified s); index_of veqb (f_sides s) side_names 0; int_code (f_NFFT s);
   vlen_code (f_cache s); ret_code (snd (freq s)); int_code (f_N s);
   index_of veqb (f_datatype s) [VStr "real"; VStr "complex"] 0;
   num_code tbl (f_sampling s); num_code tbl (f_rangeS s); int_code (f_rangeN s);
   match f_range_df s with VQuot a b => if veqb a (f_rangeS s) && veqb b (f_rangeN s) then 1 else 0 | _ => 0 end].
Fixpoint pack (l : list Z) : Z := match l with [] => 0 | x :: r => x + 1000 * pack r end.
Definition observe (r : Res) : Z := pack (obs_codes (snd r) (fst r)).

(* a history stops at a failing constructor; an operation that raises leaves the mutations made before the raise *)
Fixpoint replay (r : Res) (ops : list op) : Res :=
  match ops with [] => r | o :: rest => replay (run (fst r) o) rest end.
Fixpoint trace (r : Res) (ops : list op) : list Z :=
  observe r :: match ops with [] => [] | o :: rest => trace (run (fst r) o) rest end.

Fixpoint prodn (A : list op) (n : nat) : list (list op) :=
  match n with O => [[]] | S k => flat_map (fun o => map (cons o) (prodn A k)) A end.
(* final observation of every history of exactly n operations over the alphabet A, in itertools.product order *)
Definition histories (pre : list op) (A : list op) (n : nat) : list (list op) := map (app pre) (prodn A n).
Definition sweep_from (init : Res) (pre A : list op) (n : nat) : list Z :=
  let r0 := replay init pre in map (fun ops => observe (replay r0 ops)) (prodn A n).
Definition sweep (init : Res) (A : list op) (n : nat) : list Z := map (fun ops => observe (replay init ops)) (prodn A n).
End Run.

(* positions (and machine values) where the machine and the implementation disagree *)
Fixpoint mismatches (i : Z) (m e : list Z) : list (Z * Z) :=
  match m, e with
  | x :: m', y :: e' => if x =? y then mismatches (i + 1) m' e' else (i, x) :: mismatches (i + 1) m' e'
  | [], [] => []
  | _, _ => [(i, -1)]
  end.
Definition report (m e : list Z) : Z * list (Z * Z) :=
  let d := mismatches 0 m e in (Z.of_nat (List.length d), firstn 8 d).
