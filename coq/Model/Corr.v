(* Model of spectrum/correlation.py (CORRELATION, xcorr) and linalg.corrmtx.  Definitions only. *)
Require Import Spectrum.Theory.Ops Spectrum.Theory.Sum Spectrum.Theory.Vec.

Section Corr.
Context {F : Type} {OF : Ops F}.
Local Open Scope F_scope.

Inductive cnorm := Biased | Unbiased | Coeff | NoNorm.

(* sum_{j < N-k} x[j+k] * conj(y[j]); a shorter input reads as zero beyond its end (zero padding) *)
Definition lag_sum (N : nat) (x y : list F) (k : nat) : F :=
  sumL (mk (N - k) (fun j => nthF x (j + k) * conj (nthF y j))).

(* CORRELATION(x, y, maxlags, norm).  rmsprod = rms(x)*rms(y) is only read by 'coeff' (for the
   autocorrelation it is mean|x|^2).  None = AssertionError (maxlags >= N). *)
Definition correlation (rmsprod : F) (x y : list F) (maxlags : nat) (nm : cnorm) : option (list F) :=
  let N := Nat.max (length x) (length y) in
  if (maxlags <? N)%nat then
    Some (mk (S maxlags) (fun k =>
      let s := lag_sum N x y k in
      match k, nm with
      | O, Biased | O, Unbiased => s / ofnat N
      | O, NoNorm => s
      | O, Coeff => 1
      | S _, Unbiased => s / ofnat (N - k)
      | S _, Biased => s / ofnat N
      | S _, NoNorm => s
      | S _, Coeff => s / rmsprod / ofnat N
      end))
  else None.
Definition mean_pow (x : list F) : F := sumL (map nrm2 x) / ofnat (length x).
Definition acorr (x : list F) (maxlags : nat) (nm : cnorm) := correlation (mean_pow x) x x maxlags nm.

(* xcorr(x, y, maxlags, norm): entry i is lag d = i - maxlags.  None = AssertionError. *)
Definition xlag (N : nat) (x y : list F) (d : Z) : F :=
  if (0 <=? d)%Z then lag_sum N x y (Z.to_nat d)
  else sumL (mk (N - Z.to_nat (- d)) (fun j => nthF x j * conj (nthF y (j + Z.to_nat (- d))))).
Definition xcorr (rmsprod : F) (x y : list F) (maxlags : nat) (nm : cnorm) : option (list F) :=
  let N := length x in
  if negb (length y =? N)%nat || (N <? maxlags)%nat then None
  else Some (mk (2 * maxlags + 1) (fun i =>
    let d := (Z.of_nat i - Z.of_nat maxlags)%Z in
    let s := xlag N x y d in
    match nm with
    | Biased => s / ofnat N
    | Unbiased => s / ofnat (N - Z.to_nat (Z.abs d))
    | Coeff => s / rmsprod / ofnat N
    | NoNorm => s
    end)).

(* corrmtx(x, m, method): rows as lists.  xz t = x[t] inside 0..N-1, zero outside *)
Inductive cmethod := MAutocorrelation | MPrewindowed | MPostwindowed | MCovariance | MModified.
Definition xrow (x : list F) (m : nat) (n : nat) : list F :=     (* X[n][j] = x[n-j], j = 0..m *)
  mk (S m) (fun j => if (j <=? n)%nat then nthF x (n - j) else 0).
Definition corrmtx (x : list F) (m : nat) (meth : cmethod) : list (list F) :=
  let N := length x in
  match meth with
  | MAutocorrelation => map (xrow x m) (seq 0 (N + m))
  | MPrewindowed => map (xrow x m) (seq 0 N)
  | MPostwindowed => map (xrow x m) (seq m N)
  | MCovariance => map (xrow x m) (seq m (N - m))
  | MModified => map (xrow x m) (seq m (N - m))
                 ++ map (fun n => mk (S m) (fun j => conj (nthF x (n - m + j)))) (seq m (N - m))
  end.
End Corr.
