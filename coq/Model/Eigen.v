(* Model of spectrum/eigenfre.py: eigen(), _get_signal_space(), music()/ev() and the
   pmusic / pev __call__ pipelines, as the code is NOW (after the repairs D4 = 5a5f0c6,
   D21 = 36b7e17 and D22 = b2427b9).  Definitions only.

   Library calls are not modelled by code:
   * numpy.linalg.svd(FB) returns (U, S, Vh); the model RECEIVES (S, Vh) (numpy's singular values and
     the rows of numpy's V^H) — in the theorems they are Section variables constrained by [svd_spec];
   * numpy.fft.fft is [dft tw NFFT] of Theory/Dft.v (tw a = exp(-2 pi i a / NFFT));
   * numpy.argmin(aic_eigen(S, 4 NP)) / mdl_eigen (logarithms) enters as the natural number [amin];
   * 2 pi / df of Spectrum.scale() enters as the field element [scale] (None when scale_by_freq is False);
   * numpy.finfo(float).eps enters as the field element [eps] (2^-52 in the binary64 runs, positive in the theorems).

   There is no scaling of the data matrix in the code (Marple's 1/sqrt(2 NP) is absent): none in the model. *)
Require Import Spectrum.Theory.Ops Spectrum.Theory.Sum Spectrum.Theory.Vec Spectrum.Theory.Dft.

(* ---------------- arguments and errors ---------------- *)
Inductive method_arg := MMusic | MEv | MOther.          (* method = 'music' | 'ev' | anything else *)
Inductive crit_arg := CAic | CMdl | COther.             (* criteria = 'aic' | 'mdl' | anything else *)
(* NSIG as passed by the caller: a Python int z, or a float: z (frac = false) or z + 1/2 (frac = true, stands for
   any non-integral value in (z, z+1)) *)
Inductive nsig_arg := NInt (z : Z) | NFlt (z : Z) (frac : bool).
Inductive eig_err :=
  | EMethod        (* ValueError("method must be 'music' or 'ev'") *)
  | EExclusive     (* ValueError("NSIG and threshold cannot be provided together") *)
  | EThreshold     (* ValueError('threshold must be greater than or equal to 1') *)
  | ENsigNeg       (* ValueError('NSIG must be positive') *)
  | ENsigBig       (* ValueError("NSIG must be stricly less than IP") *)
  | EAssert        (* AssertionError 'decrease the second argument' : not 2*(N-P) > P-1 *)
  | ECritUnknown   (* UnboundLocalError: criteria is neither 'aic' nor 'mdl' *)
  | ECritEmpty     (* ValueError: argmin of an empty sequence (P <= 1 with the AIC/MDL rule) *)
  | ENsigType      (* TypeError: range(NSIG, P) with a float NSIG *)
  | ENfft.         (* ValueError: Z[0:P] = V[0:P, I] cannot broadcast when NFFT < P *)

Definition eig_err_eqb (a b : eig_err) : bool :=
  match a, b with
  | EMethod, EMethod | EExclusive, EExclusive | EThreshold, EThreshold | ENsigNeg, ENsigNeg
  | ENsigBig, ENsigBig | EAssert, EAssert | ECritUnknown, ECritUnknown | ECritEmpty, ECritEmpty
  | ENsigType, ENsigType | ENfft, ENfft => true
  | _, _ => false
  end.

Section Eigen.
Context {F : Type} {OF : Ops F}.
Local Open Scope F_scope.

(* ---------------- the forward-backward data matrix ---------------- *)
(* N = len(X); NP = N - P; assert 2*NP > P-1 (on the untruncated NP, negative when N < P); if NP > 100: NP = 100 *)
Definition assert_ok (N P : nat) : bool := (P <=? N)%nat && (P <? 2 * (N - P) + 1)%nat.
Definition np_of (N P : nat) : nat := if (100 <? N - P)%nat then 100%nat else (N - P)%nat.
(* FB[I, K] = X[I-K+P-1]   and   FB[I+NP, K] = X[I+K+1].conjugate()     (0 <= I < NP, 0 <= K < P) *)
Definition fb_fwd (x : list F) (P i : nat) : list F := mk P (fun k => nthF x (i + P - 1 - k)).
Definition fb_bwd (x : list F) (P i : nat) : list F := mk P (fun k => conj (nthF x (i + k + 1))).
Definition fb_matrix (x : list F) (P : nat) : list (list F) :=
  let NP := np_of (length x) P in
  map (fb_fwd x P) (seq 0 NP) ++ map (fb_bwd x P) (seq 0 NP).

Definition mrow (M : list (list F)) (r : nat) : list F := nth r M [].
Definition mat (M : list (list F)) (r k : nat) : F := nthF (mrow M r) k.

(* ---------------- _get_signal_space and the argument checks of eigen() ---------------- *)
Definition gtb (a b : F) : bool := negb (le0 (a - b)).        (* a > b   (real a, b) *)
Definition lt1 (t : F) : bool := negb (le0 (1 - t)).          (* t < 1 *)
Definition minL (l : list F) : F :=
  match l with [] => 0 | a :: t => fold_left (fun m b => if gtb m b then b else m) t a end.
Definition count_gt (S : list F) (m : F) : nat := length (filter (fun s => gtb s m) S).
Definition nsig_z (n : nsig_arg) : Z := match n with NInt z => z | NFlt z _ => z end.
(* "NSIG < 0" and "NSIG >= P" have the same outcome on z and on z + 1/2 *)
Definition nsig_neg (n : nsig_arg) : bool := (nsig_z n <? 0)%Z.
Definition nsig_big (n : nsig_arg) (P : nat) : bool := (Z.of_nat P <=? nsig_z n)%Z.
Definition is_some {A} (o : option A) : bool := match o with Some _ => true | None => false end.

(* _get_signal_space(S, 2*NP, threshold, NSIG, criteria): an explicit NSIG is returned unchanged (whatever its type) *)
Definition get_signal_space (S : list F) (nsig : option nsig_arg) (thr : option F) (crit : crit_arg) (amin : nat)
  : eig_err + nsig_arg :=
  match nsig with
  | Some n => inr n
  | None =>
    match thr with
    | None =>
      match crit with
      | COther => inl ECritUnknown
      | _ => if (length S <=? 1)%nat then inl ECritEmpty else inr (NInt (Z.of_nat (amin + 1)))
      end
    | Some t =>
      let c := count_gt S (t * minL S) in
      inr (NInt (Z.of_nat (if (c =? 0)%nat then 1 else c)))
    end
  end.

(* every decision eigen() takes before / around the numerical part, in the order the code takes them.
   N = len(X); S = the singular values returned by svd(FB) (only looked at when the checks before it pass) *)
Definition eigen_nsig (meth : method_arg) (nsig : option nsig_arg) (thr : option F) (crit : crit_arg) (amin : nat)
                      (N P NFFT : nat) (S : list F) : eig_err + nat :=
  match meth with
  | MOther => inl EMethod
  | _ =>
    if is_some nsig && is_some thr then inl EExclusive
    else if match thr with Some t => lt1 t | None => false end then inl EThreshold
    else if match nsig with Some n => nsig_neg n | None => false end then inl ENsigNeg
    else if match nsig with Some n => nsig_big n P | None => false end then inl ENsigBig
    else if negb (assert_ok N P) then inl EAssert
    else match get_signal_space S nsig thr crit amin with
         | inl e => inl e
         | inr (NFlt _ _) => inl ENsigType
         | inr (NInt z) =>
           let ns := Z.to_nat z in
           if (ns <? P)%nat && (NFFT <? P)%nat then inl ENfft else inr ns
         end
  end.

(* ---------------- the pseudo-spectrum from numpy's (S, Vh) ---------------- *)
(* V = -Vh.transpose(); Z[0:P] = V[0:P, I] (= -Vh[I, :]); Z = fft(Z, NFFT); abs(Z)**2 *)
Definition noise_fft (tw : Z -> F) (NFFT : nat) (vrow : list F) : list F :=
  map nrm2 (dft tw NFFT (map opp vrow)).
(* Python's max(a, b): b when b > a, else a *)
Definition fmax2 (a b : F) : F := if gtb b a then b else a.
(* the floored singular value of D22: max(S[I], numpy.finfo(float).eps * S[0]) *)
Definition sfloor (eps : F) (S : list F) (I : nat) : F := fmax2 (nthF S I) (eps * nthF S 0).
(* PSD = PSD + abs(Z)**2                                   (music)
   PSD = PSD + abs(Z)**2 / max(S[I], eps * S[0])           (ev)      — any other method is rejected before *)
Definition acc_step (meth : method_arg) (eps : F) (tw : Z -> F) (NFFT : nat) (S : list F) (Vh : list (list F))
                    (acc : list F) (I : nat) : list F :=
  let t := noise_fft tw NFFT (mrow Vh I) in
  let s := sfloor eps S I in
  mk NFFT (fun k => nthF acc k + match meth with MEv => nthF t k / s | _ => nthF t k end).
(* for I in range(NSIG, P) *)
Definition pseudo_den (meth : method_arg) (eps : F) (tw : Z -> F) (NFFT P : nat) (S : list F) (Vh : list (list F)) (ns : nat) : list F :=
  fold_left (acc_step meth eps tw NFFT S Vh) (seq ns (P - ns)) (mk NFFT (fun _ => 0)).
(* PSD = 1./PSD *)
Definition pseudo (meth : method_arg) (eps : F) (tw : Z -> F) (NFFT P : nat) (S : list F) (Vh : list (list F)) (ns : nat) : list F :=
  map (fun d => 1 / d) (pseudo_den meth eps tw NFFT P S Vh ns).

(* nby2 = int(NFFT/2); newpsd = np.append(PSD[nby2::-1], PSD[NFFT-1:nby2:-1]) *)
Definition eigen_reorder (NFFT : nat) (PSD : list F) : list F :=
  let nby2 := (NFFT / 2)%nat in
  rev (firstn (nby2 + 1) PSD) ++ rev (skipn (nby2 + 1) PSD).

(* eigen(X, P, NSIG, method, threshold, NFFT, criteria) -> (newpsd, S) *)
Definition eigen (meth : method_arg) (eps : F) (nsig : option nsig_arg) (thr : option F) (crit : crit_arg) (amin : nat)
                 (tw : Z -> F) (NFFT : nat) (x : list F) (P : nat) (S : list F) (Vh : list (list F))
  : eig_err + (list F * list F) :=
  match eigen_nsig meth nsig thr crit amin (length x) P NFFT S with
  | inl e => inl e
  | inr ns => inr (eigen_reorder NFFT (pseudo meth eps tw NFFT P S Vh ns), S)
  end.

(* music(X, IP, NSIG, NFFT, threshold, criteria) and ev(...): eigen() with the method fixed *)
Definition music := eigen MMusic.
Definition ev := eigen MEv.

(* ---------------- pmusic.__call__ / pev.__call__ ---------------- *)
(* tools.centerdc_2_twosided = numpy.fft.ifftshift *)
Definition ifftshift (l : list F) : list F := let h := (length l / 2)%nat in skipn h l ++ firstn h l.
(* real data: psd[0:int(NFFT/2+1)]*2 (even NFFT) or psd[0:int((NFFT+1)/2)]*2 (odd), then [::-1];
   complex data: centerdc_2_twosided(psd); then scale(): psd *= 2*pi/df when scale_by_freq is True *)
Definition class_psd (isreal_data : bool) (NFFT : nat) (scale : option F) (psd : list F) : list F :=
  let p := if isreal_data
           then rev (map (fun a => a * two) (firstn (if Nat.even NFFT then NFFT / 2 + 1 else (NFFT + 1) / 2)%nat psd))
           else ifftshift psd in
  match scale with Some c => map (fun a => a * c) p | None => p end.
(* the object after __call__: (psd, eigenvalues); meth is fixed by the class (pmusic: MMusic, pev: MEv) *)
Definition pclass (meth : method_arg) (eps : F) (isreal_data : bool) (scale : option F)
                  (nsig : option nsig_arg) (thr : option F) (crit : crit_arg) (amin : nat)
                  (tw : Z -> F) (NFFT : nat) (x : list F) (P : nat) (S : list F) (Vh : list (list F))
  : eig_err + (list F * list F) :=
  match eigen meth eps nsig thr crit amin tw NFFT x P S Vh with
  | inl e => inl e
  | inr (psd, ev) => inr (class_psd isreal_data NFFT scale psd, ev)
  end.

(* Spectrum.frequencies() in integer bins (frequency = bin * sampling / NFFT):
   'twosided' and 'onesided' entry j is bin j, 'centerdc' entry j is bin j - NFFT//2 *)
Definition centerdc_bin (NFFT j : nat) : Z := (Z.of_nat j - Z.of_nat (NFFT / 2))%Z.

(* ---------------- function-level reading used by the theorems ---------------- *)
(* right singular vector I of numpy's factorisation FB = U diag(S) Vh: v_I[m] = conj(Vh[I, m]) *)
Definition rsv (Vh : list (list F)) (I m : nat) : F := conj (mat Vh I m).
(* weight of noise vector I *)
Definition weight (meth : method_arg) (eps : F) (S : list F) (I : nat) : F :=
  match meth with MEv => 1 / sfloor eps S I | _ => 1 end.
(* the noise-subspace form at bin b:  D(b) = sum_{I = ns}^{P-1} w_I |e(b)^H v_I|^2 (w_I = 1, or 1/max(S_I, eps S_0) for EV),  e(b)[m] = exp(+2 pi i m b / NFFT),
   so e(b)^H v = sum_m v[m] tw(m b) = dftN tw P v b *)
Definition dform (meth : method_arg) (eps : F) (tw : Z -> F) (P : nat) (S : list F) (Vh : list (list F)) (ns : nat) (b : Z) : F :=
  sumf (P - ns) (fun t => nrm2 (dftN tw P (rsv Vh (ns + t)) b) * weight meth eps S (ns + t)).
End Eigen.
