(* Model of spectrum/burg.py: arburg (with the recursive denominator and the order-selection
   break), _arburg2.  Definitions only. *)
Require Import Spectrum.Theory.Ops Spectrum.Theory.Sum Spectrum.Theory.Vec Spectrum.Model.Levinson.

Section Burg.
Context {F : Type} {OF : Ops F}.
Local Open Scope F_scope.

Record burg_st := mkBurg {
  b_a : list F; b_rho : F; b_ref : list F; b_ef : list F; b_eb : list F; b_den : F; b_temp : F }.

Inductive burg_out := BCont (st : burg_st) | BStop (st : burg_st) | BRaise.

Definition mean_power (x : list F) : F := sumL (map nrm2 x) / ofnat (length x).

(* num = sum_{j=k+1}^{N-1} ef[j] * conj(eb[j-1]) *)
Definition burg_num (N : nat) (ef eb : list F) (k : nat) : F :=
  sumL (mk (N - k - 1) (fun i => nthF ef (i + k + 1) * conj (nthF eb (i + k)))).
(* den = temp * den - |ef[k]|^2 - |eb[N-1]|^2 *)
Definition burg_den (N : nat) (st : burg_st) (k : nat) : F :=
  b_temp st * b_den st - nrm2 (nthF (b_ef st) k) - nrm2 (nthF (b_eb st) (N - 1)).
Definition burg_kp (N : nat) (st : burg_st) (k : nat) : F :=
  (- (two * burg_num N (b_ef st) (b_eb st) k)) / burg_den N st k.

(* stop (k+1) rho_prev rho_new = "the criterion increased": the loop breaks and the
   previous model is returned *)
Definition burg_step (stop : nat -> F -> F -> bool) (N : nat) (st : burg_st) (k : nat) : burg_out :=
  let den := burg_den N st k in
  let kp := burg_kp N st k in
  let temp := 1 - nrm2 kp in
  let new_rho := temp * b_rho st in
  if stop (S k) (b_rho st) new_rho then BStop st
  else if le0 new_rho then BRaise
  else BCont {| b_a := stepup (b_a st) kp; b_rho := new_rho; b_ref := b_ref st ++ [kp];
                b_ef := mk N (fun j => if (k <? j)%nat then nthF (b_ef st) j + kp * nthF (b_eb st) (j - 1) else nthF (b_ef st) j);
                b_eb := mk N (fun j => if (k <? j)%nat then nthF (b_eb st) (j - 1) + conj kp * nthF (b_ef st) j else nthF (b_eb st) j);
                b_den := den; b_temp := temp |}.

Definition burg_init (x : list F) : burg_st :=
  let rho := mean_power x in
  {| b_a := []; b_rho := rho; b_ref := []; b_ef := x; b_eb := x;
     b_den := rho * two * ofnat (length x); b_temp := 1 |}.

Fixpoint burg_iter (stop : nat -> F -> F -> bool) (x : list F) (m : nat) : burg_out :=
  match m with
  | O => BCont (burg_init x)
  | S m' => match burg_iter stop x m' with
            | BCont st => burg_step stop (length x) st m'
            | o => o
            end
  end.

Definition no_stop : nat -> F -> F -> bool := fun _ _ _ => false.
Definition burg_result (st : burg_st) : list F * F * list F := (b_a st, b_rho st, b_ref st).

(* arburg(X, order, criteria): None = ValueError (order out of range, or rho <= 0) *)
Definition arburg (x : list F) (order : nat) (stop : nat -> F -> F -> bool) : option (list F * F * list F) :=
  if (order =? 0)%nat || (length x <? order)%nat then None
  else match burg_iter stop x order with
       | BRaise => None
       | BCont st | BStop st => Some (burg_result st)
       end.

(* the FPE criterion is rational: fpe(N, rho, k) = rho (N+k+1)/(N-k-1); status False iff it increased *)
Definition fpe (N : nat) (rho : F) (k : nat) : F := rho * (ofnat (N + k + 1)) / (ofnat (N - k - 1)).
Definition fpe_stop (N : nat) (gt : F -> F -> bool) : nat -> F -> F -> bool :=
  fun k1 rho_prev rho_new => gt (fpe N rho_new k1) (fpe N rho_prev (k1 - 1)).

(* _arburg2: the vectorised variant, full sums at every stage *)
Definition burg2_step (st : list F * F * list F * list F * list F) : list F * F * list F * list F * list F :=
  let '(a, E, ref, ef, eb) := st in
  let n := (length ef - 1)%nat in
  let efp := mk n (fun j => nthF ef (S j)) in
  let ebp := mk n (fun j => nthF eb j) in
  let num := - (two * sumL (mk n (fun j => conj (nthF ebp j) * nthF efp j))) in
  let den := sumL (mk n (fun j => conj (nthF efp j) * nthF efp j)) + sumL (mk n (fun j => nthF ebp j * conj (nthF ebp j))) in
  let k := num / den in
  (stepup a k, re (1 - conj k * k) * E, ref ++ [k],
   mk n (fun j => nthF efp j + k * nthF ebp j), mk n (fun j => nthF ebp j + conj k * nthF efp j)).
Definition arburg2 (x : list F) (order : nat) : option (list F * F * list F) :=
  if (order =? 0)%nat then None
  else let '(a, E, ref, _, _) := Nat.iter order burg2_step ([], mean_power x, [], x, x) in Some (1 :: a, E, ref).
End Burg.
