(* C09: the call-level behaviour of CORRELATION / xcorr around the core model of Model/Corr.v:
   optional second argument (y=None -> autocorrelation), optional maxlags (None -> N-1), the
   exceptions the code raises (as a small enum) and the lag vector xcorr returns.  Definitions only.

   CORRELATION(x, y, maxlags, norm):   assert maxlags < N                     -> EAssert
   xcorr(x, y, maxlags, norm):         assert len(x) == len(y)                -> EAssert
                                       assert maxlags <= N                    -> EAssert
                                       maxlags == N: res[lags] reads index 2N-1 of a vector of
                                       length 2N-1                            -> EIndex
   (the assertion of xcorr admits maxlags = N although that value cannot be served: a quirk of the
   code that is modelled, not repaired). *)
Require Import Spectrum.Theory.Ops Spectrum.Theory.Sum Spectrum.Theory.Vec Spectrum.Model.Corr.

Section CorrC09.
Context {F : Type} {OF : Ops F}.
Local Open Scope F_scope.

Inductive cerr := EAssert | EIndex.

Definition correlation_c (rmsprod : F) (x : list F) (oy : option (list F)) (oml : option nat) (nm : cnorm)
  : cerr + list F :=
  let y := match oy with Some y => y | None => x end in
  let N := Nat.max (length x) (length y) in
  let ml := match oml with Some m => m | None => (N - 1)%nat end in
  match correlation rmsprod x y ml nm with Some r => inr r | None => inl EAssert end.

(* the autocorrelation call CORRELATION(x, maxlags=, norm=): rms(x)*rms(y) is the mean power of x *)
Definition acorr_c (x : list F) (oml : option nat) (nm : cnorm) : cerr + list F :=
  correlation_c (mean_pow x) x None oml nm.

(* lags = arange(-maxlags, maxlags+1) *)
Definition xcorr_lags (ml : nat) : list Z := map (fun i => (Z.of_nat i - Z.of_nat ml)%Z) (seq 0 (2 * ml + 1)).

Definition xcorr_c (rmsprod : F) (x : list F) (oy : option (list F)) (oml : option nat) (nm : cnorm)
  : cerr + (list F * list Z) :=
  let y := match oy with Some y => y | None => x end in
  let N := length x in
  if negb (length y =? N)%nat then inl EAssert
  else
    let ml := match oml with Some m => m | None => (N - 1)%nat end in
    if (N <? ml)%nat then inl EAssert
    else if (ml =? N)%nat then inl EIndex
    else match xcorr rmsprod x y ml nm with
         | Some r => inr (r, xcorr_lags ml)
         | None => inl EAssert
         end.

(* number of rows of corrmtx(x, m, method) for m < N *)
Definition corrmtx_rows (N m : nat) (meth : cmethod) : nat :=
  match meth with
  | MAutocorrelation => N + m
  | MPrewindowed => N
  | MPostwindowed => N
  | MCovariance => N - m
  | MModified => 2 * (N - m)
  end.
(* entry (n, j) of corrmtx(x, m, method), j <= m, as a function of the data: x[t] is read as zero
   outside 0..N-1 (the pre/post-windowing) *)
Definition corrmtx_entry (x : list F) (m : nat) (meth : cmethod) (n j : nat) : F :=
  let xz := fun n j => if (j <=? n)%nat then nthF x (n - j) else 0 in
  match meth with
  | MAutocorrelation | MPrewindowed => xz n j
  | MPostwindowed | MCovariance => xz (n + m)%nat j
  | MModified => if (n <? length x - m)%nat then xz (n + m)%nat j
                 else conj (nthF x (n - (length x - m) + j))
  end.
End CorrC09.
