(* Comparison of the IR program of lpc.lpc (T10)

       m = len(x);  N omitted: N = m-1;  N > m-1: x.resize(N+1)   (in place, on the PARAMETER)
       X = fft(x, 2**nextpow2(2.*len(x)-1));  R = real(ifft(abs(X)**2));  R = R/(m-1.)
       a, e, ref = LEVINSON(R, N);  return a, e

   regenerated from the Python source on every run of C12 (tools/props/_loopir.py: fft / ifft are [EFft] / [EIfft] = dft / idft of
   Theory/Dft.v over the hidden twiddle parameter, tools.nextpow2 is the primitive [ENextPow2] - accepted only while its text is the
   expected one -, LEVINSON is translated from levinson.py and embedded), with the hand-written model Model.Yule.lpc.

   The hand model does NOT contain a transform: it writes down what the FFT autocorrelation computes in exact arithmetic (lag sums,
   their conjugates at the mirrored positions, zeros in between; [lpc_R]).  Hence
     [tie_lpc] / [q_lpc]  EXACT equality (zero tolerance) at QcC is possible only where exact twiddle characters exist: transform lengths
                          1, 2, 4 (Instances/QcCTw.v has tw1, tw2, tw4; an 8-point character needs sqrt 2 and does not exist in the Gaussian
                          rationals), i.e. len(x) after the resize <= 2;
     [f_lpc]              binary64 (Instances/FloatC.v, twiddle table exp(-2 pi i j/n) from the harness): the IR run against the hand model
                          AND against the implementation's output, both within the tolerance of C12's correspondence (1e-8 * kappa): here
                          the IR really computes the two transforms while the model computes lag sums.
   Tags: the IR tags R complex (an array divided by a field scalar), numpy keeps float64, so the embedded LEVINSON runs its complex branch
   (the model's [levinson] with conj); on the real-valued R both branches compute the same numbers.  The tag of [a] is not numpy's.
   Not in the tie: the empty record (nextpow2 of -1: [Unsupported]), negative N, the effect of x.resize on the CALLER's array. *)
From Coq Require Import String QArith Qcanon PrimFloat.
Require Export Spectrum.Model.LoopIRVec.      (* out_eq, twq / Tw, twf, frun, f_vs_model, f_vs_impl: used by the generated case files too *)
Require Import Spectrum.Theory.Ops Spectrum.Theory.Vec Spectrum.Theory.Dft Spectrum.Model.LoopIR Spectrum.Model.LoopIRTie
               Spectrum.Model.Levinson Spectrum.Model.Corr Spectrum.Model.Yule
               Spectrum.Instances.QcC Spectrum.Instances.QcCTw Spectrum.Instances.FloatC.
Import ListNotations.
Local Open Scope Z_scope.

Section Tie.
Context {F : Type} {OF : Ops F}.
Variable feq : F -> F -> bool.
Variable tw : nat -> Z -> F.
Local Open Scope F_scope.

Definition lpc_args (isreal : bool) (x : list F) (N : option nat) : list (option (@value F)) :=
  [Some (VArr isreal x); option_map (fun n => VI (Z.of_nat n)) N; Some (VTw tw)].
(* ValueError = LEVINSON met P <= 0 (allow_singularity False) *)
Definition lpc_spec (x : list F) (N : option nat) : @outcome F :=
  match lpc x N with
  | Some (a, e) => ORet [VArr false a; VF e]
  | None => OErr ValueError
  end.
Definition tie_lpc (p : program) (isreal : bool) (x : list F) (N : option nat) : bool :=
  out_eq feq (run feq (@nostop F) p (lpc_args isreal x N)) (lpc_spec x N).
End Tie.

(* ---- the exact instance (transform lengths 1, 2, 4) *)
Definition q_lpc := @tie_lpc QcC qcc_ops qfeq twq.

(* ---- binary64: IR run vs the hand model within [tolm], vs the implementation within [tol] *)
Local Existing Instance fc_ops.
Definition f_lpc (tolm tol floor : float) (tbl : list FloatC) (p : program) (isreal : bool) (x : list FloatC) (N : option nat)
                 (raised : option exc) (ia : list FloatC) (ie : FloatC) : bool :=
  let o := frun p (lpc_args (twf tbl) isreal x N) in
  f_vs_model tolm floor o (@lpc_spec FloatC fc_ops x N) && f_vs_impl tol floor o raised [ia; [ie]].
