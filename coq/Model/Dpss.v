(* Model of the Python half of spectrum.mtm.dpss (src/spectrum/mtm.py) and of the objects the
   certificate for the C half (src/cpp/mydpss.c, routine multitap) is checked against.
   Definitions only.

   dpss(N, NW, k):
     k      <- min(round(2*NW), N), at least 1, when k is None                  [default_k]
     raw, tapsum <- multitap(N, k, NW)      C oracle: k rows of N samples, row sums  (inputs here)
     tapers <- raw.reshape(k, N).T / sqrt(N)                                    [scaled]
     for j < k: even j: flip column j when tapsum[j] < 0
                odd  j: flip column j when tapers[0, j] < 0                     [flip, taper]
     acvs   <- _autocov(tapers.T, debias=False) * N   (lag sums  sum_n t[n] t[n+d], d = 0..N-1)
     r      <- 4 W sinc(2 W d),  r[0] <- 2 W          (W = NW/N)                [rseq]
     eig    <- acvs . r                                                         [eig]
   The library calls sqrt and sinc are inputs of the model ([sN], [snc]); the FFT convolution
   inside _autocov is modelled by the lag sum it computes. *)
Require Import Spectrum.Theory.Ops Spectrum.Theory.Sum Spectrum.Theory.Vec.

(* ---- default number of tapers: Python's round() is round-half-to-even.  2*NW = a/b, b > 0 *)
Definition round_half_even (a b : Z) : Z :=
  let q := (a / b)%Z in let r := (a mod b)%Z in
  if (2 * r <? b)%Z then q else if (b <? 2 * r)%Z then (q + 1)%Z else if Z.even q then q else (q + 1)%Z.
Definition default_k (N : nat) (a b : Z) : nat :=
  Z.to_nat (Z.max (Z.min (round_half_even a b) (Z.of_nat N)) 1).

Section Dpss.
Context {F : Type} {OF : Ops F}.
Local Open Scope F_scope.

(* the code's "x < 0" on a real x, through the one sign test of the operations record *)
Definition lt0 (x : F) : bool := negb (le0 (- x)).

(* sample i of row j of the C output *)
Definition rawcol (N : nat) (raw : list F) (j i : nat) : F := nthF raw (j * N + i).
(* tapers[i, j] after the division by sqrt(N) *)
Definition scaled (sN : F) (N : nat) (raw : list F) (j i : nat) : F := rawcol N raw j i / sN.
(* the sign loop *)
Definition flip (sN : F) (N : nat) (raw tapsum : list F) (j : nat) : bool :=
  if Nat.even j then lt0 (nthF tapsum j) else lt0 (scaled sN N raw j 0).
Definition taper (sN : F) (N : nat) (raw tapsum : list F) (j i : nat) : F :=
  if flip sN N raw tapsum j then scaled sN N raw j i * (- (1)) else scaled sN N raw j i.
Definition tapsum_out (sN : F) (N : nat) (raw tapsum : list F) (j : nat) : F :=
  if flip sN N raw tapsum j then nthF tapsum j * (- (1)) else nthF tapsum j.

(* autocovariance method for the eigenvalues *)
Definition acv (N : nat) (t : nat -> F) (d : nat) : F := sumf (N - d) (fun n => t n * t (n + d)%nat).
Definition rseq (W : F) (snc : nat -> F) (d : nat) : F :=
  match d with O => two * W | S _ => two * two * W * snc d end.
Definition eig (N : nat) (W : F) (snc : nat -> F) (t : nat -> F) : F :=
  sumf N (fun d => acv N t d * rseq W snc d).

(* the returned pair: tapers as k columns (each a list of N samples) and the k eigenvalues *)
Definition dpss_post (sN W : F) (sncl : list F) (N k : nat) (raw tapsum : list F) : list (list F) * list F :=
  let cols := map (fun j => mk N (taper sN N raw tapsum j)) (seq 0 k) in
  (cols, map (fun j => eig N W (nthF sncl) (taper sN N raw tapsum j)) (seq 0 k)).

(* ---- the objects of the specification ---- *)
(* sinc concentration kernel K[i,j] = sin(2 pi W (i-j)) / (pi (i-j)) = 2 W sinc(2 W (i-j)) *)
Definition absdiff (i j : nat) : nat := ((i - j) + (j - i))%nat.
Definition kern (W : F) (snc : nat -> F) (i j : nat) : F := two * W * snc (absdiff i j).
Definition quad (N : nat) (K : nat -> nat -> F) (t : nat -> F) : F :=
  sumf N (fun i => sumf N (fun j => t i * K i j * t j)).
Definition dot (N : nat) (u v : nat -> F) : F := sumf N (fun i => u i * v i).
Definition matvec (N : nat) (K : nat -> nat -> F) (t : nat -> F) (i : nat) : F := sumf N (fun j => K i j * t j).

(* Slepian's commuting tridiagonal matrix (the one multitap hands, negated, to the EISPACK routines):
   diagonal ((N-1-2i)/2)^2 cos(2 pi W), off-diagonal i (N-i) / 2 between i-1 and i *)
Definition sl_diag (N : nat) (c : F) (i : nat) : F :=
  let h := (ofnat (N - 1) - two * ofnat i) / two in h * h * c.
Definition sl_off (N : nat) (i : nat) : F := ofnat i * ofnat (N - i) / two.
Definition tmul (N : nat) (c : F) (v : nat -> F) (i : nat) : F :=
  (if (0 <? i)%nat then sl_off N i * v (i - 1)%nat else 0)
  + sl_diag N c i * v i
  + (if (i + 1 <? N)%nat then sl_off N (i + 1) * v (i + 1)%nat else 0).

(* ---- certificate checker for an output matrix V (k columns of N samples) ---- *)
Definition leb (a b : F) : bool := le0 (a - b).
Definition absle (x e : F) : bool := leb x e && leb (- x) e.
Definition allb (n : nat) (p : nat -> bool) : bool := forallb p (seq 0 n).
Definition delta (j l : nat) : F := if (j =? l)%nat then 1 else 0.
Definition gram_ok (N k : nat) (V : nat -> nat -> F) (eps : F) : bool :=
  allb k (fun j => allb k (fun l => absle (dot N (V j) (V l) - delta j l) eps)).
Definition resid (N : nat) (c : F) (v : nat -> F) (theta : F) (i : nat) : F := tmul N c v i - theta * v i.
Definition resid_ok (N k : nat) (clo chi : F) (V : nat -> nat -> F) (theta : nat -> F) (eps : F) : bool :=
  allb k (fun j => allb N (fun i => absle (resid N clo (V j) (theta j) i) eps
                                 && absle (resid N chi (V j) (theta j) i) eps)).
Definition cert_check (N k : nat) (clo chi : F) (Vl : list (list F)) (thetal : list F) (eps_orth eps_res : F) : bool :=
  (length Vl =? k)%nat && (length thetal =? k)%nat && forallb (fun col => (length col =? N)%nat) Vl
  && leb clo chi && leb 0 eps_orth && leb 0 eps_res
  && gram_ok N k (fun j => nthF (nth j Vl [])) eps_orth
  && resid_ok N k clo chi (fun j => nthF (nth j Vl [])) (nthF thetal) eps_res.
End Dpss.
