(* Exact comparison (zero tolerance) of the IR program of levinson.rlevinson, regenerated from the Python source on
   every run of C11 (tools/props/_loopir.py; the callee levdown is translated with it and embedded as an [SCall]),
   with the hand-written model [Model.LinPred.rlevinson]; and the tolerance comparison of the IR run with the
   implementation's float output.  Definitions only; the boolean cases are generated and evaluated by vm_compute at QcC.

   [tie_rlevinson] runs the program on (a with its dtype tag, efinal) and requires
     model = Some (R, stages, kr, es):  the run RETURNS [R; U; kr; e] with
         R   = the model's autocorrelation, every entry (complex dtype: R = numpy.zeros(1, dtype=complex) ...),
         U   = a (p+1) x (p+1) matrix, every entry equal to [Umat stages i m], dtype float iff isrealobj(a),
         kr  = the model's reflection coefficients (read back from the first row of U), dtype of U,
         e   = the model's prediction errors of orders 1..p (float dtype: numpy.zeros(p));
     model = None:  the run RAISES the exception the code must raise there:
         a = []            IndexError     (a[0])
         a[0] <> 1         AssertionError (assert a[0] == 1)
         len(a) < 2        ValueError
         otherwise         ValueError     (levdown: a reflection coefficient equal to one). *)
From Coq Require Import String QArith Qcanon.
Require Import Spectrum.Theory.Ops Spectrum.Theory.Vec Spectrum.Model.LoopIR Spectrum.Model.LoopIRTie
               Spectrum.Model.Levinson Spectrum.Model.LinPred Spectrum.Instances.QcC.
Import ListNotations.
Local Open Scope Z_scope.

Section Tie.
Context {F : Type} {OF : Ops F}.
Variable feq : F -> F -> bool.
Local Open Scope F_scope.

(* every entry of an nr x nc matrix value against an entry function *)
Definition meq (nr nc : nat) (rows : list (list F)) (f : nat -> nat -> F) : bool :=
  Nat.eqb (length rows) nr &&
  forallb (fun i => let row := nth i rows [] in
                    Nat.eqb (length row) nc && forallb (fun j => feq (nthF row j) (f i j)) (seq 0 nc)) (seq 0 nr).

(* rlevinson(a, efinal) *)
Definition tie_rlevinson (p : program) (isreal : bool) (a : list F) (efinal : F) : bool :=
  let o := run feq (@nostop F) p [Some (VArr isreal a); Some (VF efinal)] in
  match @rlevinson F OF feq a efinal with
  | Some (R, stages, kr, es) =>
      match o with
      | ORet [VArr rR R'; VMat rU nc rows; VArr rk kr'; VArr re es'] =>
          negb rR && Bool.eqb rU isreal && Bool.eqb rk isreal && re
          && leq feq R' R && leq feq kr' kr && leq feq es' es
          && Nat.eqb nc (length a) && meq (length a) (length a) rows (Umat stages)
      | _ => false
      end
  | None =>
      match a with
      | [] => is_err o IndexError
      | a0 :: t => if negb (feq a0 1) then is_err o AssertionError else is_err o ValueError
      end
  end.
End Tie.

(* ---- the exact instance *)
Definition q_rlevinson := @tie_rlevinson QcC qcc_ops qfeq.

(* IR run vs the implementation's float output: R, U (row-major), kr, e within tol (relative to the implementation's vector, floor 1) *)
Definition flat_m (v : @value QcC) : option (list QcC) :=
  match v with VMat _ _ rows => Some (concat rows) | _ => flat v end.
Fixpoint close_all_m (tol : Qc) (vs : list (@value QcC)) (impl : list (list QcC)) : bool :=
  match vs, impl with
  | [], [] => true
  | v :: vt, i :: it => match flat_m v with Some l => qcc_close_rel tol (dy 1 0) l i | None => false end && close_all_m tol vt it
  | _, _ => false
  end.
Definition ir_close_m (tol : Qc) (o : @outcome QcC) (impl : list (list QcC)) : bool :=
  match o with ORet vs => close_all_m tol vs impl | OErr _ => false end.
