(* parma.__call__ and pma.__call__ as compositions of the two halves C15 models and ties separately
   (Model/ArmaEst.v: the estimator functions arma_estimate / ma, and class_call = what __call__ hands to arma2psd
   and what it stores).  Definitions only.

     parma.__call__:  ar, ma, rho = arma_estimate(self.data, self.ar_order, self.ma_order, self.lag)
                      psd = arma2psd(A=self.ar, B=self.ma, rho=self.rho, T=self.sampling, NFFT=self.NFFT); slice; scale()
     pma.__call__:    ma, rho = ma(self.data, self.ma_order, self.ar_order)
                      psd = arma2psd(A=None, B=self.ma, rho=self.rho, T=self.sampling, NFFT=self.NFFT); slice; scale()
   (N and order of class_call are only read by the pcovar / pmodcovar variance, not by these two classes.) *)
Require Import Spectrum.Theory.Ops Spectrum.Theory.Vec Spectrum.Theory.Dft
               Spectrum.Model.Levinson Spectrum.Model.Corr Spectrum.Model.Ls Spectrum.Model.ArmaEst.

Section ArmaCall.
Context {F : Type} {OF : Ops F}.

Definition parma_call (tw : Z -> F) (lsm lsq : list F -> nat -> list F) (x : list F) (P Q lag : nat)
           (twopi sampling : F) (NFFT : nat) (real sbf : bool) : aerr + @exposed F :=
  match arma_estimate lsm lsq x P Q lag with
  | inl e => inl e
  | inr (a, b, rho) => class_call tw Cparma a b rho (length x) P twopi sampling NFFT real sbf
  end.

Definition pma_call (tw : Z -> F) (x : list F) (Q M : nat) (twopi sampling : F) (NFFT : nat) (real sbf : bool)
  : aerr + @exposed F :=
  match ma x Q M with
  | inl e => inl e
  | inr (b, rho) => class_call tw Cpma [] b rho (length x) M twopi sampling NFFT real sbf
  end.
(* an executable pair of oracles for arma_estimate: arcovar of Model/Ls.v (corrmtx 'covariance' + Gaussian elimination on
   the normal equations + the code's post-processing) for the lstsq branch, and the same vector zero-padded to the length
   of the input for arcovar_marple (whose [0:P] slice is read) *)
Definition lsq_cov (tol : F) (y : list F) (p : nat) : list F :=
  match arcovar tol y p with Some (a, _) => a | None => [] end.
Definition lsm_cov (tol : F) (y : list F) (p : nat) : list F := pad (length y) (lsq_cov tol y p).
End ArmaCall.
