(* Model of spectrum.arma.arma2psd (src/spectrum/arma.py:30-127), definitions only.

     arma2psd(A=None, B=None, rho=1., T=1., NFFT=4096, sides='default', norm=False)

   den = zeros(NFFT); den[0] = 1; den[k+1] = A[k]   (IndexError when len(A) >= NFFT)
   denf = fft(den, NFFT)                             (same for B -> numf)
   psd  = rho / T * |numf|^2 / |denf|^2              (A and B)
        = rho / T / |denf|^2                         (A only)
        = rho / T * |numf|^2                         (B only)          ValueError when both absent
   psd  = real(psd);  sides = 'centerdc' -> numpy.fft.fftshift(psd);  norm -> psd /= max(psd)

   [tw] stands for a |-> exp(-2 pi i a / NFFT) (see Theory/Dft.v); the operations are
   written in the order the code applies them so that the binary64 run of the same term
   follows the code's rounding closely. *)
Require Import Spectrum.Theory.Ops Spectrum.Theory.Sum Spectrum.Theory.Vec Spectrum.Theory.Dft.

Section Arma2psdModel.
Context {F : Type} {OF : Ops F}.
Local Open Scope F_scope.

(* the zero-padded coefficient array [1, c_0, c_1, ...] of length NFFT; None = IndexError *)
Definition arma_coeffs (NFFT : nat) (c : list F) : option (list F) :=
  if (length c <? NFFT)%nat then Some (pad NFFT (1 :: c)) else None.

(* abs(z)**2. *)
Definition vnrm2 (l : list F) : list F := map nrm2 l.

(* numpy.fft.fftshift / tools.twosided_2_centerdc *)
Definition fftshift (t : list F) : list F :=
  let n := length t in
  mk n (fun j => if (j <? n / 2)%nat then nthF t (j + (n - n / 2)) else nthF t (j - n / 2)).

(* Python's max() over the array: the first largest entry (x replaces m only when x > m) *)
Definition vmax (l : list F) : F :=
  match l with [] => 0 | x :: t => fold_left (fun m y => if le0 (y - m) then m else y) t x end.

Inductive arma_sides := SidesDefault | SidesCenterdc.

(* the sides / norm post-processing of the two-sided spectrum *)
Definition arma_post (sides : arma_sides) (norm : bool) (psd : list F) : list F :=
  let psd := match sides with SidesDefault => psd | SidesCenterdc => fftshift psd end in
  if norm then let m := vmax psd in map (fun x => x / m) psd else psd.

Definition arma2psd (tw : Z -> F) (A B : option (list F)) (rho T : F) (NFFT : nat)
                    (sides : arma_sides) (norm : bool) : option (list F) :=
  let spec (c : option (list F)) : option (option (list F)) :=     (* None = raised *)
    match c with
    | None => Some None
    | Some l => match arma_coeffs NFFT l with None => None | Some v => Some (Some (vnrm2 (dft tw NFFT v))) end
    end in
  match spec A, spec B with
  | None, _ | _, None => None                       (* IndexError: NFFT <= len(A) or len(B) *)
  | Some None, Some None => None                    (* ValueError: neither AR nor MA part *)
  | Some da, Some nb =>
      let raw :=
        match da, nb with
        | Some d, Some n => mk NFFT (fun k => (rho / T * nthF n k) / nthF d k)
        | Some d, None => mk NFFT (fun k => (rho / T) / nthF d k)
        | None, Some n => mk NFFT (fun k => rho / T * nthF n k)
        | None, None => []
        end in
      Some (arma_post sides norm (map re raw))
  end.

(* the polynomial 1 + sum_j c_j z^(j+1) at z = tw(k), i.e. at exp(-2 pi i k / NFFT) *)
Definition polyz (tw : Z -> F) (c : list F) (k : Z) : F :=
  1 + sumf (length c) (fun j => nthF c j * tw (Z.of_nat (j + 1) * k)%Z).
Definition polyz_opt (tw : Z -> F) (c : option (list F)) (k : Z) : F :=
  match c with None => 1 | Some l => polyz tw l k end.
End Arma2psdModel.
