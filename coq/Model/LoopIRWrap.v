(* Exact comparison (zero tolerance) of the IR programs of the thin WRAPPERS

       yulewalker.aryule            = LEVINSON(CORRELATION(X, maxlags=order, norm=norm), allow_singularity=..)
       arma.ma                      = two chained aryule fits with numpy.insert(a, 0, 1) in between
       linear_prediction.ac2poly, ac2rc, poly2ac, poly2rc, ar2rc, rc2poly, rc2ac

   regenerated from the Python source on every run of C11 / C12 / C15 (tools/props/_loopir.py: the calls of LEVINSON, CORRELATION,
   rlevinson, levup, aryule, rc2poly - functions of OTHER modules of the package, resolved through the imports - are translated
   from the callee's module text and embedded as [SCall] / [SCall1]), with the hand-written models Model.Yule.aryule,
   Model.MaEst.ma_est, Model.LinPred.{ac2poly, ac2rc, poly2ac, poly2rc, rc2poly, rc2ac}.  Definitions only; the boolean cases are
   generated and evaluated by vm_compute at QcC.

   Each [tie_*] runs the program on the arguments the Python function would receive ([None] = omitted: the Python default applies)
   and requires: same outcome constructor (return / the same exception class), every entry of every returned array and every scalar
   EQUAL, and the dtype tag numpy gives the result.  Where the hand model says "raises" without a class ([None]), the class the code
   must raise there is spelled out.

   The hidden oracle parameters (the two pylab_rms_flat results of every embedded CORRELATION; read by norm='coeff' only, which
   aryule never passes) are arguments of the comparators: the tie draws them at random.

   One tag is not compared: rc2poly builds its polynomial from a list display of scalars (numpy.array([1, kr[0]])) and IR scalars
   carry no dtype, so the IR cannot tell the float from the complex array there. *)
From Coq Require Import String QArith Qcanon.
Require Import Spectrum.Theory.Ops Spectrum.Theory.Vec Spectrum.Model.LoopIR Spectrum.Model.LoopIRTie
               Spectrum.Model.Levinson Spectrum.Model.Corr Spectrum.Model.Yule Spectrum.Model.MaEst Spectrum.Model.LinPred
               Spectrum.Instances.QcC.
Import ListNotations.
Local Open Scope Z_scope.

Section Tie.
Context {F : Type} {OF : Ops F}.
Variable feq : F -> F -> bool.
Local Open Scope F_scope.

Definition is_err_ni (o : @outcome F) : bool := match o with OErr NotImplementedError => true | _ => false end.

(* aryule(X, order, norm='biased', allow_singularity=True) *)
Definition yw_norm (nm : option string) : option cnorm :=
  match nm with
  | None => Some Biased
  | Some s => if String.eqb s "biased" then Some Biased else if String.eqb s "unbiased" then Some Unbiased else None
  end.
Definition aryule_args (isreal : bool) (x : list F) (order : nat) (nm : option string) (allow : option bool) (o1 o2 : F)
  : list (option (@value F)) :=
  [Some (VArr isreal x); Some (vint order); option_map VStr nm; option_map VB allow; Some (VF o1); Some (VF o2)].
Definition tie_aryule (p : program) (isreal : bool) (x : list F) (order : nat) (nm : option string) (allow : option bool)
                      (o1 o2 : F) : bool :=
  let o := run feq (@nostop F) p (aryule_args isreal x order nm allow o1 o2) in
  let al := match allow with Some b => b | None => true end in
  match yw_norm nm with
  | None => is_err o AssertionError
  | Some c =>
      match aryule x order c al with
      | inr (a, pp, k) =>
          match o with
          | ORet [VArr ra a'; VF p'; VArr rk k'] =>
              Bool.eqb ra isreal && Bool.eqb rk isreal && leq feq a' a && feq p' pp && leq feq k' k
          | _ => false
          end
      | inl YAssert => is_err o AssertionError
      | inl YSingular => is_err o ValueError
      end
  end.

(* ma(X, Q, M); four oracle slots (two per embedded aryule) *)
Definition tie_ma (p : program) (isreal : bool) (x : list F) (Q M : Z) (o1 o2 o3 o4 : F) : bool :=
  let o := run feq (@nostop F) p [Some (VArr isreal x); Some (VI Q); Some (VI M);
                                  Some (VF o1); Some (VF o2); Some (VF o3); Some (VF o4)] in
  if ((Q <=? 0) || (M <=? Q))%Z then is_err o ValueError
  else match @ma_est F OF x (Z.to_nat Q) (Z.to_nat M) with
       | inr (b, rho) =>
           match o with
           | ORet [VArr rb b'; VF rho'] => Bool.eqb rb isreal && leq feq b' b && feq rho' rho
           | _ => false
           end
       | inl MaValue => is_err o ValueError
       | inl MaAssert => is_err o AssertionError
       | inl MaSingular => is_err o ValueError
       end.

(* ac2poly(data) *)
Definition tie_ac2poly (p : program) (isreal : bool) (r : list F) : bool :=
  let o := run feq (@nostop F) p [Some (VArr isreal r)] in
  match r with
  | [] => is_err o IndexError
  | _ => match ac2poly r with
         | Some (a, e) =>
             match o with
             | ORet [VArr ra a'; VF e'] => Bool.eqb ra isreal && leq feq a' a && feq e' e
             | _ => false
             end
         | None => is_err o ValueError
         end
  end.

(* ac2rc(data): the reflection coefficients and data[0] ITSELF (LEVINSON starts from real(data[0])) *)
Definition tie_ac2rc (p : program) (isreal : bool) (r : list F) : bool :=
  let o := run feq (@nostop F) p [Some (VArr isreal r)] in
  match r with
  | [] => is_err o IndexError
  | _ => match ac2rc r with
         | Some (k, r0) =>
             match o with
             | ORet [VArr rk k'; VF r0'] => Bool.eqb rk isreal && leq feq k' k && feq r0' r0
             | _ => false
             end
         | None => is_err o ValueError
         end
  end.

(* the class rlevinson raises where its model returns None *)
Definition rlev_raises (o : @outcome F) (a : list F) : bool :=
  match a with
  | [] => is_err o IndexError
  | a0 :: _ => if negb (feq a0 1) then is_err o AssertionError else is_err o ValueError
  end.

(* poly2ac(poly, efinal) = rlevinson(poly, efinal)[0]: complex dtype *)
Definition tie_poly2ac (p : program) (isreal : bool) (a : list F) (efinal : F) : bool :=
  let o := run feq (@nostop F) p [Some (VArr isreal a); Some (VF efinal)] in
  match @poly2ac F OF feq a efinal with
  | Some R => match o with ORet [VArr false R'] => leq feq R' R | _ => false end
  | None => rlev_raises o a
  end.

(* poly2rc(a, efinal) = rlevinson(a, efinal)[2]: the dtype of U (float iff isrealobj(a)) *)
Definition tie_poly2rc (p : program) (isreal : bool) (a : list F) (efinal : F) : bool :=
  let o := run feq (@nostop F) p [Some (VArr isreal a); Some (VF efinal)] in
  match @poly2rc F OF feq a efinal with
  | Some kr => match o with ORet [VArr rk kr'] => Bool.eqb rk isreal && leq feq kr' kr | _ => false end
  | None => rlev_raises o a
  end.

(* ar2rc(ar): raise NotImplementedError *)
Definition tie_ar2rc (p : program) (isreal : bool) (a : list F) : bool :=
  is_err_ni (run feq (@nostop F) p [Some (VArr isreal a)]).

(* rc2poly(kr, r0=None): r0 omitted = the int 0 *)
Definition tie_rc2poly (p : program) (isreal : bool) (kr : list F) (r0 : option F) : bool :=
  let o := run feq (@nostop F) p [Some (VArr isreal kr); option_map VF r0] in
  match @rc2poly F OF kr (match r0 with Some v => v | None => 0 end) with
  | Some (a, e) => match o with ORet [VArr _ a'; VF e'] => leq feq a' a && feq e' e | _ => false end
  | None => is_err o IndexError
  end.

(* rc2ac(k, R0): a, efinal = rc2poly(k, R0); rlevinson(a, efinal)[0] *)
Definition tie_rc2ac (p : program) (isreal : bool) (k : list F) (r0 : F) : bool :=
  let o := run feq (@nostop F) p [Some (VArr isreal k); Some (VF r0)] in
  match @rc2ac F OF feq k r0 with
  | Some R => match o with ORet [VArr false R'] => leq feq R' R | _ => false end
  | None => match k with [] => is_err o IndexError | _ => is_err o ValueError end
  end.
End Tie.

(* ---- the exact instance *)
Definition q_aryule := @tie_aryule QcC qcc_ops qfeq.
Definition q_ma := @tie_ma QcC qcc_ops qfeq.
Definition q_ac2poly := @tie_ac2poly QcC qcc_ops qfeq.
Definition q_ac2rc := @tie_ac2rc QcC qcc_ops qfeq.
Definition q_poly2ac := @tie_poly2ac QcC qcc_ops qfeq.
Definition q_poly2rc := @tie_poly2rc QcC qcc_ops qfeq.
Definition q_ar2rc := @tie_ar2rc QcC qcc_ops qfeq.
Definition q_rc2poly := @tie_rc2poly QcC qcc_ops qfeq.
Definition q_rc2ac := @tie_rc2ac QcC qcc_ops qfeq.
Definition ir_raises_ni (o : @outcome QcC) : bool := @is_err_ni QcC o.
