(* Executable transliteration of Marple's fast recursions arcovar_marple (covar.py) and
   modcovar_marple (modcovar.py).  Definitions only.  NOTHING is proved about them: their
   equality with the least-squares solution of Model/Ls.v is TESTED (exactly, at QcC, on every
   generated case of the correspondence run) — see tools/props/C14.py.

   The in-place loops of the code are written as simultaneous updates; each loop was checked to
   read only entries that the same loop has not yet overwritten (ascending k touches af[k] and
   ab[m-k-1]; descending k writes d[k+1] from d[k]; the symmetric "K / MK" loops read their four
   operands before writing). *)
Require Import Spectrum.Theory.Ops Spectrum.Theory.Sum Spectrum.Theory.Vec.

Section Marple.
Context {F : Type} {OF : Ops F}.
Local Open Scope F_scope.

(* ---------------- arcovar_marple ---------------- *)
Record cm_state := mkCM { cm_pf : F; cm_pb : F; cm_de : F; cm_ga : F;
                          cm_c : list F; cm_d : list F; cm_r : list F; cm_af : list F; cm_ab : list F }.

Definition cm_init (x : list F) : cm_state :=
  let N := length x in
  let r0 := sumL (map nrm2 x) in
  let r1 := nrm2 (nthF x 0) in
  let rN := nrm2 (nthF x (N - 1)) in
  mkCM (r0 - r1) (r0 - rN) (1 - r1 / r0) (1 - rN / r0)
       (mk N (fun k => if (k =? 0)%nat then conj (nthF x (N - 1)) / r0 else 0))
       (mk N (fun k => if (k =? 0)%nat then conj (nthF x 0) / r0 else 0))
       (mk N (fun _ => 0)) (mk N (fun _ => 0)) (mk N (fun _ => 0)).

(* "Order update: AF and AB vectors; time update: C and D vectors" *)
Definition cm_part1 (x : list F) (m : nat) (s : cm_state) : cm_state :=
  let N := length x in
  let r1 := 1 / cm_pf s in let r2 := 1 / cm_pb s in let r3 := 1 / cm_de s in let r4 := 1 / cm_ga s in
  let c := cm_c s in let d := cm_d s in let r := cm_r s in let af := cm_af s in let ab := cm_ab s in
  let temp0 := sumL (mk (N - (m + 1)) (fun i => nthF x (i + m + 1) * conj (nthF x i))) in
  let r' := mk N (fun k => if (k <? m)%nat then nthF r k - nthF x (N - m - 1) * conj (nthF x (N - m + k))
                           else if (k =? m)%nat then conj temp0 else nthF r k) in
  let theta := nthF x 0 * nthF c m + sumL (mk m (fun k => nthF x (m - k) * nthF c k)) in
  let temp := temp0 + sumL (mk m (fun k => nthF af (m - k - 1) * conj (nthF r' k))) in
  let c1 := - temp * r2 in let c2 := - r1 * conj temp in let c3 := theta * r3 in let c4 := r4 * conj theta in
  let af' := mk N (fun k => if (k <? m)%nat then nthF af k + c1 * nthF ab (m - k - 1)
                            else if (k =? m)%nat then c1 else nthF af k) in
  let ab' := mk N (fun j => if (j <? m)%nat then nthF ab j + c2 * nthF af (m - 1 - j)
                            else if (j =? m)%nat then c2 else nthF ab j) in
  let c' := mk N (fun k => if (k <=? m)%nat then nthF c k + c3 * nthF d k else nthF c k) in
  let d' := mk N (fun k => if (k <=? m)%nat then nthF d k + c4 * nthF c k else nthF d k) in
  mkCM (cm_pf s - nrm2 temp * r2) (cm_pb s - nrm2 temp * r1)
       (cm_de s - nrm2 theta * r4) (cm_ga s - nrm2 theta * r3) c' d' r' af' ab'.

(* "Time update: AF and AB vectors; order update: C and D vectors" *)
Definition cm_part2 (x : list F) (m : nat) (s : cm_state) : cm_state :=
  let N := length x in
  let r1 := 1 / cm_pf s in let r2 := 1 / cm_pb s in let r3 := 1 / cm_de s in let r4 := 1 / cm_ga s in
  let c := cm_c s in let d := cm_d s in let af := cm_af s in let ab := cm_ab s in
  let ef := nthF x (m + 1) + sumL (mk (S m) (fun k => nthF af k * nthF x (m - k))) in
  let eb := nthF x (N - 1 - m - 1) + sumL (mk (S m) (fun k => nthF ab k * nthF x (N - m + k - 1))) in
  let c1 := ef * r3 in let c2 := eb * r4 in let c3 := conj eb * r2 in let c4 := conj ef * r1 in
  let af' := mk N (fun k => if (k <=? m)%nat then nthF af k + c1 * nthF d k else nthF af k) in
  let ab' := mk N (fun k => if (k <=? m)%nat then nthF ab k + c2 * nthF c (m - k) else nthF ab k) in
  let d' := mk N (fun k => if (k =? 0)%nat then c4
                           else if (k <=? m + 1)%nat then nthF d (k - 1) + c4 * nthF af (k - 1) else nthF d k) in
  let c' := mk N (fun j => if (j =? m + 1)%nat then c3
                           else if (j <=? m)%nat then nthF c j + c3 * nthF ab (m - j) else nthF c j) in
  mkCM (cm_pf s - nrm2 ef * r3) (cm_pb s - nrm2 eb * r4)
       (cm_de s - nrm2 ef * r1) (cm_ga s - nrm2 eb * r2) c' d' (cm_r s) af' ab'.

Fixpoint cm_iter (x : list F) (m : nat) : cm_state :=       (* state on entry of loop pass m *)
  match m with
  | O => cm_init x
  | S m' => cm_part2 x m' (cm_part1 x m' (cm_iter x m'))
  end.

(* arcovar_marple(x, order) -> (af, pf, ab, pb); None = the assertion len(x) >= order.
   (The code builds but never raises its ValueErrors.) *)
Definition arcovar_marple (x : list F) (order : nat) : option (list F * F * list F * F) :=
  let N := length x in
  if (N <? order)%nat then None
  else match order with
  | O => let r0 := sumL (map nrm2 x) in
         Some (mk N (fun _ => 0), r0 / ofnat N, mk N (fun _ => 0), r0 / ofnat N)
  | S q => let s := cm_part1 x q (cm_iter x q) in
           Some (cm_af s, cm_pf s / ofnat (N - q - 1), cm_ab s, cm_pb s / ofnat (N - q - 1))
  end.

(* ---------------- modcovar_marple ---------------- *)
Record mm_state := mkMM { mm_p : F; mm_de : F; mm_ga : F; mm_la : F;
                          mm_c : list F; mm_d : list F; mm_r : list F; mm_a : list F }.

Definition twice (z : F) : F := z + z.
Definition re2 (z : F) : F := z + conj z.          (* 2.*np.real(z) *)

Definition mm_init (x : list F) : mm_state :=
  let N := length x in
  let R1 := sumL (mk (N - 2) (fun k => twice (nrm2 (nthF x (k + 1))))) in
  let R2 := nrm2 (nthF x 0) in
  let R3 := nrm2 (nthF x (N - 1)) in
  let R4 := 1 / (R1 + twice (R2 + R3)) in
  mkMM (R1 + R2 + R3) (1 - R2 * R4) (1 - R3 * R4) (conj (nthF x 0 * nthF x (N - 1)) * R4)
       (mk N (fun k => if (k =? 0)%nat then nthF x (N - 1) * R4 else 0))
       (mk N (fun k => if (k =? 0)%nat then conj (nthF x 0) * R4 else 0))
       (mk N (fun _ => 0)) (mk N (fun _ => 0)).

(* order update of A (up to "if M+1 == IP"); also returns THETA, PSI, XI for the time update *)
Definition mm_order (x : list F) (M : nat) (s : mm_state) : mm_state * (F * F * F) :=
  let N := length x in
  let C := mm_c s in let D := mm_d s in let R := mm_r s in let A := mm_a s in
  let save0 := twice (sumL (mk (N - (M + 1)) (fun i => nthF x (i + M + 1) * conj (nthF x i)))) in
  let R' := mk N (fun k => if (k <? M)%nat
                           then nthF R k - nthF x (N - M - 1) * conj (nthF x (N - M + k)) - conj (nthF x M) * nthF x (M - k - 1)
                           else if (k =? M)%nat then conj save0 else nthF R k) in
  let theta := nthF x (N - 1) * nthF D 0 + sumL (mk M (fun k => nthF x (N - k - 2) * nthF D (k + 1))) in
  let psi := nthF x (N - 1) * nthF C 0 + sumL (mk M (fun k => nthF x (N - k - 2) * nthF C (k + 1))) in
  let xi := conj (nthF x 0) * nthF D 0 + sumL (mk M (fun k => conj (nthF x (k + 1)) * nthF D (k + 1))) in
  let save1 := save0 + sumL (mk M (fun k => conj (nthF R' k) * nthF A (M - k - 1))) in
  let C1 := - save1 / mm_p s in
  let A' := mk N (fun k => if (k <? M)%nat then nthF A k + C1 * conj (nthF A (M - 1 - k))
                           else if (k =? M)%nat then C1 else nthF A k) in
  (mkMM (mm_p s * (1 - nrm2 C1)) (mm_de s) (mm_ga s) (mm_la s) C D R' A', (theta, psi, xi)).

Definition in01 (v : F) : bool := negb (le0 v) && le0 (v - 1).      (* v > 0 and v <= 1 *)

(* the two time-update blocks; None = one of the four ValueErrors *)
Definition mm_time (x : list F) (M : nat) (s : mm_state) (tpx : F * F * F) : option mm_state :=
  let N := length x in
  let '(theta, psi, xi) := tpx in
  let C := mm_c s in let D := mm_d s in let A := mm_a s in
  let DELTA := mm_de s in let GAMMA := mm_ga s in let LAMBDA := mm_la s in
  let R1 := 1 / (DELTA * GAMMA - nrm2 LAMBDA) in
  let C1 := (theta * conj LAMBDA + psi * DELTA) * R1 in
  let C2 := (psi * LAMBDA + theta * GAMMA) * R1 in
  let C3 := (xi * conj LAMBDA + theta * DELTA) * R1 in
  let C4 := (theta * LAMBDA + xi * GAMMA) * R1 in
  let Cn := mk N (fun k => if (k <=? M)%nat then nthF C k + C1 * conj (nthF C (M - k)) + C2 * conj (nthF D (M - k)) else nthF C k) in
  let Dn := mk N (fun k => if (k <=? M)%nat then nthF D k + C3 * conj (nthF C (M - k)) + C4 * conj (nthF D (M - k)) else nthF D k) in
  let R2 := nrm2 psi in let R3 := nrm2 theta in let R4 := nrm2 xi in
  let GAMMA1 := GAMMA - (R2 * DELTA + R3 * GAMMA + re2 (psi * LAMBDA * conj theta)) * R1 in
  let DELTA1 := DELTA - (R3 * DELTA + R4 * GAMMA + re2 (theta * LAMBDA * conj xi)) * R1 in
  let LAMBDA1 := LAMBDA + C3 * conj psi + C4 * conj theta in
  let P := mm_p s in
  if le0 P then None
  else if negb (in01 DELTA1 && in01 GAMMA1) then None
  else
    let Q1 := 1 / P in
    let Q2 := 1 / (DELTA1 * GAMMA1 - nrm2 LAMBDA1) in
    let EF := nthF x (M + 1) + sumL (mk (S M) (fun k => nthF A k * nthF x (M - k))) in
    let EB := nthF x (N - M - 2) + sumL (mk (S M) (fun k => conj (nthF A k) * nthF x (N - M + k - 1))) in
    let K1 := EB * Q1 in
    let K2 := conj EF * Q1 in
    let K3 := (conj EB * DELTA1 + EF * LAMBDA1) * Q2 in
    let K4 := (EF * GAMMA1 + conj (EB * LAMBDA1)) * Q2 in
    let A' := mk N (fun k => if (k <=? M)%nat then nthF A k + K3 * nthF Cn k + K4 * nthF Dn k else nthF A k) in
    let C' := mk N (fun k => if (k =? 0)%nat then K1
                             else if (k <=? M + 1)%nat then nthF Cn (k - 1) + K1 * nthF A (k - 1) else nthF Cn k) in
    let D' := mk N (fun k => if (k =? 0)%nat then K2
                             else if (k <=? M + 1)%nat then nthF Dn (k - 1) + K2 * nthF A (k - 1) else nthF Dn k) in
    let S3 := nrm2 EB in let S4 := nrm2 EF in
    let P' := P - (S3 * DELTA1 + S4 * GAMMA1 + re2 (EF * EB * LAMBDA1)) * Q2 in
    let DELTA2 := DELTA1 - S4 * Q1 in
    let GAMMA2 := GAMMA1 - S3 * Q1 in
    let LAMBDA2 := LAMBDA1 + conj (EF * EB) * Q1 in
    if le0 P' then None
    else if negb (in01 DELTA2 && in01 GAMMA2) then None
    else Some (mkMM P' DELTA2 GAMMA2 LAMBDA2 C' D' (mm_r s) A').

Fixpoint mm_iter (x : list F) (M : nat) : option mm_state :=     (* state on entry of loop pass M *)
  match M with
  | O => Some (mm_init x)
  | S M' => match mm_iter x M' with
            | None => None
            | Some s => let '(s1, tpx) := mm_order x M' s in mm_time x M' s1 tpx
            end
  end.

(* modcovar_marple(X, IP) -> (A, P); None = ValueError *)
Definition modcovar_marple (x : list F) (IP : nat) : option (list F * F) :=
  let N := length x in
  match IP with
  | O => let R1 := sumL (mk (N - 2) (fun k => twice (nrm2 (nthF x (k + 1))))) in
         Some ([], (R1 / two + nrm2 (nthF x 0) + nrm2 (nthF x (N - 1))) / ofnat N)
  | S q => match mm_iter x q with
           | None => None
           | Some s => let '(s1, _) := mm_order x q s in
                       Some (mm_a s1, mm_p s1 / two / ofnat (N - q - 1))
           end
  end.
End Marple.
