(* Model of spectrum/mtm.py: pmtm (eigenspectra, the three weighting methods with the adaptive
   iteration exactly as coded) and MultiTapering.__call__ (weighted mean, one-sided fold for real
   data, scale_by_freq).  Definitions only.

   Conventions
   * the tapers are a list of [nwin] rows (the rows of [tapers.transpose()] in the code), each of the
     length of the data; tapers and eigenvalues are INPUTS (dpss is an oracle, see [pmtm]);
   * matrices are lists of rows; [row j M] is row j, [at2 M i j] is entry (i,j);
   * [tw] is the twiddle of the NFFT-point grid (Theory/Dft.v);
   * shapes are those of the code: weights are (nwin x 1) for 'unity'/'eigen' and (NFFT x nwin) for
     'adapt'; the eigenspectra are (nwin x NFFT). *)
Require Import Spectrum.Theory.Ops Spectrum.Theory.Sum Spectrum.Theory.Vec Spectrum.Theory.Dft.

Inductive mt_method := Unity | Eigen | Adapt.

Section Mtm.
Context {F : Type} {OF : Ops F}.
Local Open Scope F_scope.

Definition row (j : nat) (M : list (list F)) : list F := nth j M [].
Definition at2 (M : list (list F)) (i j : nat) : F := nthF (row i M) j.
Definition mkr (n : nat) (f : nat -> list F) : list (list F) := map f (seq 0 n).
(* |a| of a real number, with the only sign test the operations record has *)
Definition absF (a : F) : F := if le0 a then - a else a.

(* Sk_complex = np.fft.fft(np.multiply(tapers.transpose(), x), NFFT)        (nwin x NFFT) *)
Definition tapered (t x : list F) : list F := mk (length x) (fun m => nthF t m * nthF x m).
Definition eigenspectra (tw : Z -> F) (tapers : list (list F)) (x : list F) (nfft : nat) : list (list F) :=
  map (fun t => dft tw nfft (tapered t x)) tapers.
(* Sk = abs(Sk_complex) ** 2 *)
Definition powspec (Skc : list (list F)) : list (list F) := map (map nrm2) Skc.

(* ---- 'unity' and 'eigen' weights, shape (nwin, 1) *)
Definition w_unity (nwin : nat) : list (list F) := mkr nwin (fun _ => [1]).
(* [_x / float(i + 1) for i, _x in enumerate(eigenvalues)] *)
Definition w_eigen (ev : list F) : list (list F) := mkr (length ev) (fun i => [nthF ev i / ofnat (i + 1)]).

(* ---- 'adapt' (P&W pp 368-370 as coded) *)
(* sig2 = np.sum(np.abs(x) ** 2) / float(N) *)
Definition sig2 (x : list F) : F := sumL (map nrm2 x) / ofnat (length x).
(* the constant 0.0005 (binary64: 5/10^4 correctly rounded is that literal) *)
Definition ten : F := ofnat 10.
Definition tolcoef : F := ofnat 5 / (ten * ten * ten * ten).
(* tol = 0.0005 * sig2 / float(NFFT) *)
Definition ad_tol (s2 : F) (nfft : nat) : F := tolcoef * s2 / ofnat nfft.
(* b = S / (S*lam + sig2*(1-lam));  wk = b**2 * lam       (Thomson's weight at the spectrum value S) *)
Definition thomson (lam s2 S : F) : F :=
  let b := S / (S * lam + s2 * (1 - lam)) in b * b * lam.
(* S = np.mean(Sk[:, 0:2], axis=1): the first two tapers, or the only one *)
Definition ad_S0 (Sk : list (list F)) (nwin nfft : nat) : list F :=
  let c := Nat.min 2 nwin in
  mk nfft (fun k => sumf c (fun j => at2 Sk j k) / ofnat c).

Record ad_st := mkAd { ad_S : list F; ad_S1 : list F; ad_wk : list (list F); ad_i : nat }.

(* S = initial estimate, S1 = 0, wk = np.ones((NFFT,1)) * eigenvalues.transpose(), i = 0 *)
Definition ad_init (Sk : list (list F)) (ev : list F) (nfft : nat) : ad_st :=
  {| ad_S := ad_S0 Sk (length ev) nfft; ad_S1 := mk nfft (fun _ => 0);
     ad_wk := mkr nfft (fun _ => mk (length ev) (fun j => 1 * nthF ev j)); ad_i := O |}.
(* sum(np.abs(S - S1)) / NFFT > tol            (builtin sum: left to right from 0) *)
Definition ad_err (nfft : nat) (st : ad_st) : F :=
  sumf nfft (fun k => absF (nthF (ad_S st) k - nthF (ad_S1 st) k)) / ofnat nfft.
Definition ad_continue (nfft : nat) (tol : F) (st : ad_st) : bool := negb (le0 (ad_err nfft st - tol)).
(* one pass through the body of the while loop *)
Definition ad_step (Sk : list (list F)) (ev : list F) (s2 : F) (nfft : nat) (st : ad_st) : ad_st :=
  let nwin := length ev in
  let wk := mkr nfft (fun k => mk nwin (fun j => thomson (nthF ev j) s2 (nthF (ad_S st) k))) in
  let S1 := mk nfft (fun k => sumf nwin (fun j => at2 wk k j * at2 Sk j k) / sumf nwin (fun j => at2 wk k j)) in
  {| ad_S := S1; ad_S1 := ad_S st; ad_wk := wk; ad_i := S (ad_i st) |}.
(* while <continue> and i < fuel: ...         (fuel = 100 in the code) *)
Fixpoint ad_loop (fuel : nat) (Sk : list (list F)) (ev : list F) (s2 tol : F) (nfft : nat) (st : ad_st) : ad_st :=
  match fuel with
  | O => st
  | S f => if ad_continue nfft tol st then ad_loop f Sk ev s2 tol nfft (ad_step Sk ev s2 nfft st) else st
  end.
(* the same loop without the stopping test: the state after exactly n passes *)
Fixpoint ad_iter (n : nat) (Sk : list (list F)) (ev : list F) (s2 : F) (nfft : nat) : ad_st :=
  match n with
  | O => ad_init Sk ev nfft
  | S m => ad_step Sk ev s2 nfft (ad_iter m Sk ev s2 nfft)
  end.
Definition adapt_run (fuel : nat) (Skc : list (list F)) (ev x : list F) (nfft : nat) : ad_st :=
  let Sk := powspec Skc in
  let s2 := sig2 x in
  ad_loop fuel Sk ev s2 (ad_tol s2 nfft) nfft (ad_init Sk ev nfft).

(* ---- pmtm once tapers and eigenvalues are known: (Sk_complex, weights, eigenvalues) *)
Definition pmtm_core (fuel : nat) (tw : Z -> F) (tapers : list (list F)) (ev x : list F) (nfft : nat) (m : mt_method)
  : list (list F) * list (list F) * list F :=
  let Skc := eigenspectra tw tapers x nfft in
  let w := match m with
           | Unity => w_unity (length ev)
           | Eigen => w_eigen ev
           | Adapt => ad_wk (adapt_run fuel Skc ev x nfft)
           end in
  (Skc, w, ev).

(* nextpow2 = ceil(log2 N) and the default NFFT = max(256, 2 ** nextpow2(N)) of pmtm *)
Fixpoint pow2_ge_aux (fuel p n : nat) : nat :=
  match fuel with O => p | S f => if (n <=? p)%nat then p else pow2_ge_aux f (2 * p) n end.
Definition pow2_ge (n : nat) : nat := pow2_ge_aux n 1 n.
Definition pmtm_default_nfft (N : nat) : nat := Nat.max 256 (pow2_ge N).

(* pmtm(x, NW, k, NFFT, e, v, method): None = ValueError.  [dpss N NW k] is the oracle for the taper
   generator (its output is (tapers as rows, eigenvalues)); [NWT] is the type of NW (a float). *)
Definition pmtm {NWT : Type} (dpss : nat -> NWT -> option nat -> list (list F) * list F)
  (fuel : nat) (tw : Z -> F) (x : list F) (NW : option NWT) (k : option nat) (nfft : option nat)
  (e : option (list F)) (v : option (list (list F))) (m : mt_method)
  : option (list (list F) * list (list F) * list F) :=
  let n := match nfft with Some n => n | None => pmtm_default_nfft (length x) end in
  match e, v with
  | None, None => match NW with
                  | Some nw => let tv := dpss (length x) nw k in Some (pmtm_core fuel tw (fst tv) (snd tv) x n m)
                  | None => None
                  end
  | Some e', Some v' => Some (pmtm_core fuel tw v' e' x n m)
  | _, _ => None
  end.

(* ---- MultiTapering.__call__ *)
(* weight applied to taper j at bin k, whatever the shape convention of the method *)
Definition wt (m : mt_method) (w : list (list F)) (j k : nat) : F :=
  match m with Adapt => at2 w k j | _ => at2 w j 0 end.
(* np.mean(Sk * weights, axis=...) : mean over the tapers of weight * |eigenspectrum|^2 *)
Definition mt_mean (m : mt_method) (Skc w : list (list F)) (nwin nfft : nat) : list F :=
  mk nfft (fun k => sumf nwin (fun j => nrm2 (at2 Skc j k) * wt m w j k) / ofnat nwin).
(* real data: Sk[0 : NFFT/2+1] * 2 (NFFT even), Sk[0 : (NFFT+1)/2] * 2 (NFFT odd) *)
Definition mt_keep (nfft : nat) : nat := if Nat.even nfft then (nfft / 2 + 1)%nat else ((nfft + 1) / 2)%nat.
Definition mt_fold (isreal_data : bool) (nfft : nat) (S : list F) : list F :=
  if isreal_data then map (fun a => a * two) (firstn (mt_keep nfft) S) else S.
(* scale(): psd *= 2*pi/df with df = sampling/NFFT; [scale] stands for that real factor *)
Definition mt_scale (scale_by_freq : bool) (scale : F) (psd : list F) : list F :=
  if scale_by_freq then map (fun a => a * scale) psd else psd.
(* the class passes its own NFFT (data length when None) *)
Definition mt_call {NWT : Type} (dpss : nat -> NWT -> option nat -> list (list F) * list F)
  (fuel : nat) (tw : Z -> F) (isreal_data : bool) (x : list F) (NW : option NWT) (k : option nat) (nfft : option nat)
  (e : option (list F)) (v : option (list (list F))) (m : mt_method) (scale_by_freq : bool) (scale : F)
  : option (list F) :=
  let n := match nfft with Some n => n | None => length x end in
  match pmtm dpss fuel tw x NW k (Some n) e v m with
  | None => None
  | Some (Skc, w, ev) => Some (mt_scale scale_by_freq scale (mt_fold isreal_data n (mt_mean m Skc w (length ev) n)))
  end.
End Mtm.
