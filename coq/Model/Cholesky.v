(* Model of spectrum/cholesky.py (CHOLESKY, _numpy_cholesky, _numpy_solver).  Definitions only.

   CHOLESKY(A, B, method) dispatches on the string [method] to one of three library back ends:
     'numpy_solver' : numpy.linalg.solve(A, B)
     'numpy'        : L = numpy.linalg.cholesky(A); y = solve(L, B); x = solve(L^H, y)
     'scipy'        : U = scipy.linalg.cholesky(A) (upper); x = cho_solve((U, False), B)
     anything else  : ValueError
   The library routines are ORACLES (arguments of the model); what is assumed of them is stated as hypotheses of
   the theorems in Proofs/CholeskyTheory.v.  A library routine that raises (LinAlgError: not positive definite /
   singular) is an oracle returning None; the model passes the failure on.
   Matrices are functions nat -> nat -> F restricted to indices < n, vectors nat -> F. *)
From Coq Require Import String List.
Require Import Spectrum.Theory.Ops Spectrum.Theory.Sum.

Section Model.
Context {F : Type} {OF : Ops F}.
Local Open Scope F_scope.

Definition matrix := nat -> nat -> F.
Definition vector := nat -> F.

Definition mvmul (n : nat) (M : matrix) (v : vector) : vector := fun i => sumf n (fun j => M i j * v j).
Definition herm (M : matrix) : matrix := fun i j => conj (M j i).          (* M.transpose().conjugate() *)

Inductive cmethod := MNumpySolver | MNumpy | MScipy.
Definition parse_method (s : string) : option cmethod :=
  if String.eqb s "numpy_solver" then Some MNumpySolver
  else if String.eqb s "numpy" then Some MNumpy
  else if String.eqb s "scipy" then Some MScipy
  else None.

(* the three accepted method strings, named (files that cannot import String's notations state theorems with these) *)
Definition m_numpy_solver : string := "numpy_solver".
Definition m_numpy : string := "numpy".
Definition m_scipy : string := "scipy".

Inductive cerr := ValueError | LinAlgError.

Record oracles := {
  np_solve : nat -> matrix -> vector -> option vector;       (* numpy.linalg.solve *)
  np_cholesky : nat -> matrix -> option matrix;              (* numpy.linalg.cholesky: lower factor *)
  sp_cholesky : nat -> matrix -> option matrix;              (* scipy.linalg.cholesky: upper factor *)
  sp_cho_solve : nat -> matrix -> vector -> option vector    (* scipy.linalg.cho_solve((U, False), B) *)
}.

Definition lift {A} (o : option A) : cerr + A := match o with Some a => inr a | None => inl LinAlgError end.

Definition numpy_cholesky (O : oracles) (n : nat) (A : matrix) (B : vector) : cerr + vector :=
  match np_cholesky O n A with
  | None => inl LinAlgError
  | Some L => match np_solve O n L B with
              | None => inl LinAlgError
              | Some y => lift (np_solve O n (herm L) y)
              end
  end.

Definition CHOLESKY (O : oracles) (n : nat) (A : matrix) (B : vector) (method : string) : cerr + vector :=
  match parse_method method with
  | Some MNumpySolver => lift (np_solve O n A B)
  | Some MNumpy => numpy_cholesky O n A B
  | Some MScipy => match sp_cholesky O n A with
                   | None => inl LinAlgError
                   | Some U => lift (sp_cho_solve O n U B)
                   end
  | None => inl ValueError
  end.

End Model.
