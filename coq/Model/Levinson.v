(* Model of spectrum/levinson.py (LEVINSON, levup, levdown) and toeplitz.py (HERMTOEP).
   Definitions only.  The in-place symmetric "khalf" update of the code is the
   functional step-up a'_j = a_j + k * conj(a_{m-1-j}); that this is what the loop
   computes is established by the correspondence check, not by a theorem. *)
Require Import Spectrum.Theory.Ops Spectrum.Theory.Sum Spectrum.Theory.Vec.

Section Levinson.
Context {F : Type} {OF : Ops F}.
Local Open Scope F_scope.

Definition lev_state := (list F * F * list F)%type.   (* A (without the leading 1), P, reflection *)

(* save = T[k] + sum_{j<k} A[j]*T[k-j-1] *)
Definition lev_delta (T A : list F) (m : nat) : F :=
  nthF T m + sumL (mk m (fun j => nthF A j * nthF T (m - j - 1))).

Definition stepup (A : list F) (k : F) : list F :=
  mk (length A) (fun j => nthF A j + k * conj (nthF A (length A - 1 - j))) ++ [k].

(* one pass of the main loop; None = ValueError("singular matrix") *)
Definition lev_step (T : list F) (allow : bool) (st : lev_state) (m : nat) : option lev_state :=
  let '(A, P, ks) := st in
  let k := (- lev_delta T A m) / P in
  let P' := P * (1 - k * conj k) in
  if le0 P' && negb allow then None
  else Some (stepup A k, P', ks ++ [k]).

Fixpoint lev_iter (T : list F) (allow : bool) (P0 : F) (m : nat) : option lev_state :=
  match m with
  | O => Some ([], P0, [])
  | S m' => match lev_iter T allow P0 m' with
            | None => None
            | Some st => lev_step T allow st m'
            end
  end.

(* LEVINSON(r, order, allow_singularity); the assertion order <= len(r)-1 is the first None *)
Definition levinson (r : list F) (order : nat) (allow : bool) : option lev_state :=
  if (order <=? length r - 1)%nat then lev_iter (tl r) allow (re (nthF r 0)) order else None.

(* levup(acur, knxt, ecur) / levdown(anxt, enxt): polynomials carry their leading 1 *)
Definition levup (acur : list F) (k : F) (e : F) : list F * F :=
  (1 :: stepup (tl acur) k, (1 - conj k * k) * e).
Definition levdown (anxt : list F) (e : F) : list F * F :=
  let a := tl anxt in
  let m := (length a - 1)%nat in
  let k := nthF a m in
  (1 :: mk m (fun j => (nthF a j - k * conj (nthF a (m - 1 - j))) / (1 - nrm2 k)),
   e / (1 - conj k * k)).

(* HERMTOEP(T0, T, Z): solves the Hermitian Toeplitz system; state (A, P, X) *)
Definition herm_step (T Z : list F) (st : list F * F * list F) (m : nat) : option (list F * F * list F) :=
  let '(A, P, X) := st in
  let save := lev_delta T A m in
  let beta := sumL (mk (S m) (fun j => nthF X j * nthF T (m - j))) in
  let k := (- save) / P in
  let P' := P * (1 - k * conj k) in
  if le0 P' then None
  else
    let A' := stepup A k in
    let alpha := (nthF Z (S m) - beta) / P' in
    Some (A', P', mk (S m) (fun j => nthF X j + alpha * conj (nthF A' (m - j))) ++ [alpha]).
Fixpoint herm_iter (T Z : list F) (T0 : F) (m : nat) : option (list F * F * list F) :=
  match m with
  | O => Some ([], T0, [nthF Z 0 / T0])
  | S m' => match herm_iter T Z T0 m' with None => None | Some st => herm_step T Z st m' end
  end.
Definition hermtoep (T0 : F) (T Z : list F) : option (list F) :=
  match herm_iter T Z T0 (length T) with None => None | Some (_, _, X) => Some X end.

(* TOEPLITZ(T0, TC, TR, Z): general Toeplitz system, first column TC, first row TR; state (A, B, P, X) *)
Definition toep_step (TC TR Z : list F) (st : list F * list F * F * list F) (m : nat) : option (list F * list F * F * list F) :=
  let '(A, B, P, X) := st in
  let save1 := lev_delta TC A m in
  let save2 := lev_delta TR B m in
  let beta := sumL (mk (S m) (fun j => nthF X j * nthF TC (m - j))) in
  let t1 := (- save1) / P in
  let t2 := (- save2) / P in
  let P' := P * (1 - t1 * t2) in
  if le0 P' then None
  else
    let A' := mk m (fun j => nthF A j + t1 * nthF B (m - 1 - j)) ++ [t1] in
    let B' := mk m (fun j => nthF B j + t2 * nthF A (m - 1 - j)) ++ [t2] in
    let alpha := (nthF Z (S m) - beta) / P' in
    Some (A', B', P', mk (S m) (fun j => nthF X j + alpha * nthF B' (m - j)) ++ [alpha]).
Fixpoint toep_iter (TC TR Z : list F) (T0 : F) (m : nat) : option (list F * list F * F * list F) :=
  match m with
  | O => Some ([], [], T0, [nthF Z 0 / T0])
  | S m' => match toep_iter TC TR Z T0 m' with None => None | Some st => toep_step TC TR Z st m' end
  end.
Definition toeplitz (T0 : F) (TC TR Z : list F) : option (list F) :=
  match toep_iter TC TR Z T0 (length TC) with None => None | Some (_, _, _, X) => Some X end.
End Levinson.
