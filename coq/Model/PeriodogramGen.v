(* The shape of Periodogram.__call__ and of the psd setter as a small table ("pipeline record") and its
   interpreter.  tools/props/_c01_pipeline.py extracts the record from the snapshot's source on every run
   (fail-closed ast patterns); Proofs/PeriodogramGenTheory.v shows that the interpreter at the record of the
   current tree is the hand-written model [p_call].  Definitions only. *)
Require Import Spectrum.Theory.Ops Spectrum.Theory.Sum Spectrum.Theory.Vec Spectrum.Theory.Dft
               Spectrum.Model.Corr Spectrum.Model.Periodogram.

Inductive flag_src := FlagConst (v : pyval) | FlagSelf.          (* keyword argument: a literal, or the attribute of self *)
Inductive scale_rule := ScaleIfIsTrue | ScaleAlways | ScaleNever.   (* "if self.scale_by_freq is True: self.scale()" / "self.scale()" / nothing *)
Inductive store_rule := KeepNFFT | NFFTLenPsd.                      (* psd setter: NFFT and range.N untouched / both := len(psd) *)
Record pipe := mkPipe {
  pp_sbf : flag_src; pp_detrend : flag_src; pp_scale : scale_rule;
  pp_store_real : store_rule; pp_store_cplx : store_rule }.

Section Gen.
Context {F : Type} {OF : Ops F}.
Local Open Scope F_scope.

Definition p_store_gen (pp : pipe) (s : pstate) (psd : list F) : pstate :=
  match (if p_isreal s then pp_store_real pp else pp_store_cplx pp) with
  | KeepNFFT => mkP (p_data s) (p_isreal s) (p_wname s) (p_window s) (p_sampling s) (p_NFFT s) (p_rangeN s)
                    (p_detrend s) (p_sbf s) (Some psd) false
  | NFFTLenPsd => mkP (p_data s) (p_isreal s) (p_wname s) (p_window s) (p_sampling s) (length psd) (length psd)
                      (p_detrend s) (p_sbf s) (Some psd) false
  end.
(* Spectrum.scale(): if self.scale_by_freq is True: self.psd *= 2*pi/self.df   (reads the stored psd) *)
Definition p_scale_gen (pp : pipe) (twopi : F) (s : pstate) : pstate :=
  if py_is_true (p_sbf s) then
    match p_psd s with
    | Some psd => p_store_gen pp s (map (fun p => p * sbf_factor twopi (p_sampling s) (p_rangeN s)) psd)
    | None => s
    end
  else s.
Definition p_call_gen (pp : pipe) (tw : Z -> F) (twopi : F) (s : pstate) : pstate :=
  let sbfv := match pp_sbf pp with FlagConst v => v | FlagSelf => p_sbf s end in
  let dtv := match pp_detrend pp with FlagConst v => v | FlagSelf => p_detrend s end in
  let psd := speriodogram tw twopi (p_data s) (p_window s) (Some (p_NFFT s)) (p_isreal s) dtv sbfv (p_sampling s) in
  let s1 := p_store_gen pp s psd in
  match pp_scale pp with
  | ScaleIfIsTrue => if py_is_true (p_sbf s1) then p_scale_gen pp twopi s1 else s1
  | ScaleAlways => p_scale_gen pp twopi s1
  | ScaleNever => s1
  end.
End Gen.

(* the pipeline of the current tree (periodogram.py after a54ac38, psd.py) *)
Definition current_pipe : pipe := mkPipe (FlagConst PyFalse) FlagSelf ScaleIfIsTrue KeepNFFT NFFTLenPsd.
