(* Model of spectrum/periodogram.py (speriodogram, Periodogram.__call__ with the part of the
   Spectrum state it touches) and spectrum/correlog.py (CORRELOGRAMPSD).  Definitions only.
   Window samples are INPUTS (the implementation's Window(N, name).data); numpy.fft.fft / rfft are
   the specification [dft] / [rdft] of Theory/Dft.v over a twiddle [tw] for the resolved NFFT;
   2*numpy.pi is the input [twopi]. *)
Require Import Spectrum.Theory.Ops Spectrum.Theory.Sum Spectrum.Theory.Vec Spectrum.Theory.Dft
               Spectrum.Model.Corr.

(* the Python values the two flag tests of speriodogram are applied to *)
Inductive pyval := PyTrue | PyFalse | PyNone | PyStr | PyInt (z : Z).
(* [detrend == True] : True and the integer 1 pass, None / 'mean' / False do not *)
Definition py_eq_true (v : pyval) : bool :=
  match v with PyTrue => true | PyInt 1 => true | _ => false end.
(* [scale_by_freq is True] : only the object True passes *)
Definition py_is_true (v : pyval) : bool := match v with PyTrue => true | _ => false end.

Inductive nfft_arg := NfNone | NfPow2 | NfInt (n : nat).
Inductive backend := BXcorr | BCorrelation.

Section Periodogram.
Context {F : Type} {OF : Ops F}.
Local Open Scope F_scope.

Definition mean (x : list F) : F := sumL x / ofnat (length x).            (* numpy.mean *)
Definition nbins (isreal : bool) (NFFT : nat) : nat := if isreal then (NFFT / 2 + 1)%nat else NFFT.
Definition spectrum_of (tw : Z -> F) (isreal : bool) (n : nat) (v : list F) : list F :=
  if isreal then rdft tw n v else dft tw n v.                             (* rfft / fft, cropping or zero padding to n *)
Definition resolve (NFFT : option nat) (r : nat) : nat := match NFFT with None => r | Some n => n end.
(* res *= 2*pi/df with df = sampling/float(NFFT), only under [scale_by_freq is True] *)
Definition sbf_factor (twopi sampling : F) (n : nat) : F := twopi / (sampling / ofnat n).
Definition psd_scale (twopi : F) (sbf : pyval) (sampling : F) (n : nat) (res : list F) : list F :=
  if py_is_true sbf then map (fun p => p * sbf_factor twopi sampling n) res else res.

(* speriodogram(x, NFFT, detrend, sampling, scale_by_freq, window) for 1-D x of length r:
     abs((r)fft(x*w - m, NFFT))**2 / r   with m = mean(x) (of the UNwindowed data) or 0 *)
Definition speriodogram (tw : Z -> F) (twopi : F) (x w : list F) (NFFT : option nat) (isreal : bool)
                        (detrend sbf : pyval) (sampling : F) : list F :=
  let r := length x in
  let n := resolve NFFT r in
  let m := if py_eq_true detrend then mean x else 0 in
  let xw := mk r (fun i => nthF x i * nthF w i - m) in
  psd_scale twopi sbf sampling n (map (fun z => nrm2 z / ofnat r) (spectrum_of tw isreal n xw)).

(* 2-D input: X is the list of the r rows (each of length c) of the numpy array.
   w = np.array([Window(r).data for _ in range(c)]).transpose(); m = mean over axis 0;
   (r)fft along axis 0; result has one row per bin, one column per data column. *)
Definition colL (M : list (list F)) (j : nat) : list F := map (fun row => nthF row j) M.
Definition transposeL (r c : nat) (M : list (list F)) : list (list F) :=   (* M: c rows of length r *)
  map (fun i => mk c (fun j => nthF (nth j M []) i)) (seq 0 r).
Definition speriodogram2d (tw : Z -> F) (twopi : F) (X : list (list F)) (c : nat) (w : list F) (NFFT : option nat)
                          (isreal : bool) (detrend sbf : pyval) (sampling : F) : list (list F) :=
  let r := length X in
  let n := resolve NFFT r in
  let W := transposeL r c (repeat w c) in
  let m := fun j => if py_eq_true detrend then mean (colL X j) else 0 in
  let Y := map (fun i => mk c (fun j => nthF (nth i X []) j * nthF (nth i W []) j - m j)) (seq 0 r) in
  let S := map (fun j => map (fun z => nrm2 z / ofnat r) (spectrum_of tw isreal n (colL Y j))) (seq 0 c) in
  let R := transposeL (nbins isreal n) c S in
  if py_is_true sbf then map (map (fun p => p * sbf_factor twopi sampling n)) R else R.

(* ---------------- Periodogram class: the state __call__ and the psd property touch ---------------- *)
Record pstate := mkP {
  p_data : list F; p_isreal : bool; p_wname : nat; p_window : list F; p_sampling : F;
  p_NFFT : nat; p_rangeN : nat; p_detrend : pyval; p_sbf : pyval;
  p_psd : option (list F); p_modified : bool }.
(* constructor: NFFT None -> N, 'nextpow2' -> 2**ceil(log2 N), int -> itself; range.N follows NFFT *)
Definition init_nfft (a : nfft_arg) (N : nat) : nat :=
  match a with NfNone => N | NfPow2 => (2 ^ Nat.log2_up N)%nat | NfInt n => n end.
Definition p_init (data : list F) (isreal : bool) (wname : nat) (w : list F) (sampling : F) (a : nfft_arg)
                  (detrend sbf : pyval) : pstate :=
  let n := init_nfft a (length data) in
  mkP data isreal wname w sampling n n detrend sbf None true.
(* psd setter: real data keeps NFFT and the range; complex data re-derives both from len(psd) *)
Definition p_store (s : pstate) (psd : list F) : pstate :=
  if p_isreal s then
    mkP (p_data s) (p_isreal s) (p_wname s) (p_window s) (p_sampling s) (p_NFFT s) (p_rangeN s)
        (p_detrend s) (p_sbf s) (Some psd) false
  else
    mkP (p_data s) (p_isreal s) (p_wname s) (p_window s) (p_sampling s) (length psd) (length psd)
        (p_detrend s) (p_sbf s) (Some psd) false.
(* __call__: speriodogram(..., scale_by_freq=False, detrend=self.detrend); self.psd = psd;
   if self.scale_by_freq is True: self.scale()  i.e.  self.psd *= 2*pi/self.df, df = sampling/range.N *)
Definition p_call (tw : Z -> F) (twopi : F) (s : pstate) : pstate :=
  let psd := speriodogram tw twopi (p_data s) (p_window s) (Some (p_NFFT s)) (p_isreal s) (p_detrend s) PyFalse (p_sampling s) in
  let s1 := p_store s psd in
  if py_is_true (p_sbf s1) then
    p_store s1 (map (fun p => p * sbf_factor twopi (p_sampling s1) (p_rangeN s1)) psd)
  else s1.
(* psd getter: recompute when nothing is stored or the object was modified *)
Definition p_read (tw : Z -> F) (twopi : F) (s : pstate) : pstate :=
  match p_psd s with
  | Some _ => if p_modified s then p_call tw twopi s else s
  | None => p_call tw twopi s
  end.
(* window setter: same name -> nothing; otherwise store and mark modified *)
Definition p_set_window (wname : nat) (w : list F) (s : pstate) : pstate :=
  if (wname =? p_wname s)%nat then s else
  mkP (p_data s) (p_isreal s) wname w (p_sampling s) (p_NFFT s) (p_rangeN s) (p_detrend s) (p_sbf s) (p_psd s) true.
Inductive pop := OpCall | OpRead | OpWindow (wname : nat) (w : list F).
Definition p_step (tw : Z -> F) (twopi : F) (s : pstate) (o : pop) : pstate :=
  match o with OpCall => p_call tw twopi s | OpRead => p_read tw twopi s | OpWindow nm w => p_set_window nm w s end.

(* ---------------- CORRELOGRAMPSD ---------------- *)
Fixpoint set_nth (i : nat) (v : F) (l : list F) : list F :=
  match l with [] => [] | a :: t => match i with O => v :: t | S j => a :: set_nth j v t end end.
(* psd[idx 0], psd[idx 1], ... psd[idx (n-1)] := v 0, v 1, ... in this order (slice assignment) *)
Fixpoint writes (n : nat) (idx : nat -> nat) (v : nat -> F) (l : list F) : list F :=
  match n with O => l | S k => set_nth (idx k) (v k) (writes k idx v l) end.
(* the lags 0..lag of the cross-correlation: CORRELATION(...) or xcorr(...)[lag:] *)
Definition corr_pos (be : backend) (rp : F) (x y : list F) (lag : nat) (nm : cnorm) : option (list F) :=
  match be with
  | BCorrelation => correlation rp x y lag nm
  | BXcorr => match xcorr rp x y lag nm with None => None | Some r => Some (skipn lag r) end
  end.
(* CORRELOGRAMPSD(X, Y, lag, window, norm, NFFT, correlation_method).  wfull = Window(2*lag+1, window).data,
   rp = rms(X)*rms(Y) (read by norm='coeff' only).  None = AssertionError (lag >= N) or numpy's
   IndexError/ValueError (NFFT = 0; NFFT < lag+1: the slice psd[1:lag+1] is shorter than the lag values --
   except that for lag = 1 numpy broadcasts the single value into the empty slices, so NFFT = 1 returns [r0]). *)
Definition correlogram (tw : Z -> F) (rp : F) (x : list F) (y : option (list F)) (lag : nat) (wfull : list F)
                       (NFFT : option nat) (nm : cnorm) (be : backend) : option (list F) :=
  let N := length x in
  let n := resolve NFFT N in
  if negb (lag <? N)%nat then None
  else if (n =? 0)%nat then None
  else if (n <? lag + 1)%nat && negb (lag =? 1)%nat then None
  else
    let w := skipn (lag + 1) wfull in
    let yy := match y with None => x | Some v => v end in
    match corr_pos be rp x yy lag nm with
    | None => None
    | Some rxy =>
      match (match y with None => Some rxy | Some v => corr_pos be rp v x lag nm end) with
      | None => None
      | Some ryx =>
        let p0 := set_nth 0 (nthF rxy 0) (mk n (fun _ => 0)) in
        let p1 := writes lag (fun t => (1 + t)%nat) (fun t => nthF rxy (1 + t) * nthF w t) p0 in
        let p2 := writes lag (fun t => (n - 1 - t)%nat) (fun t => conj (nthF ryx (1 + t)) * nthF w t) p1 in
        Some (map re (dft tw n (if (n <? lag + 1)%nat then p0 else p2)))
      end
    end.
End Periodogram.
