(* Model of spectrum/covar.py (arcovar, pcovar's rho) and modcovar.py (modcovar, pmodcovar's rho):
   the data matrix of linalg.corrmtx ('covariance' / 'modified', see Model/Corr.v), the call
   scipy.linalg.lstsq(-Xc, X1), and the post-processing of its output exactly as the code does it
   (e = X1^H X1 + (X1^H Xc) a, the relative imaginary-part assertion, float(e.real)).
   Definitions only.

   [lstsq] is a parameter of [ar_ls]: the theorems quantify over every solver that returns a
   solution of the normal equations.  The executable instance [ls_solve] is Gaussian elimination
   (no row exchanges: the Gram matrix of a full-column-rank matrix is positive definite, all its
   pivots are positive) on the normal equations, followed by a re-check of the normal equations
   with the exact zero test [is_zero]; None = zero pivot (rank-deficient data). *)
Require Import Spectrum.Theory.Ops Spectrum.Theory.Sum Spectrum.Theory.Vec Spectrum.Model.Corr.

Section Ls.
Context {F : Type} {OF : Ops F}.
Local Open Scope F_scope.

Definition matrix := list (list F).                       (* rows *)
Definition ent (A : matrix) (n j : nat) : F := nthF (nth n A []) j.
Definition col0 (X : matrix) : list F := map (fun r => nthF r 0) X.      (* X[:, 0]  *)
Definition cols1 (X : matrix) : matrix := map (@tl F) X.                 (* X[:, 1:] *)
Definition mneg (A : matrix) : matrix := map (map opp) A.                (* -A *)
Definition mcol (A : matrix) (j : nat) : list F := map (fun r => nthF r j) A.
(* numpy.dot(u.conj().transpose(), v) *)
Definition dotc (u v : list F) : F := sumL (mk (length u) (fun n => conj (nthF u n) * nthF v n)).

(* ---------- normal equations  (A^H A) a = A^H b  for a matrix with p columns ---------- *)
Definition gram_ls (p : nat) (A : matrix) : matrix :=
  map (fun i => mk p (fun j => dotc (mcol A i) (mcol A j))) (seq 0 p).
Definition rhs_ls (p : nat) (A : matrix) (b : list F) : list F := mk p (fun i => dotc (mcol A i) b).
Definition normal_lhs (p : nat) (A : matrix) (a : list F) (i : nat) : F :=
  sumL (mk p (fun j => dotc (mcol A i) (mcol A j) * nthF a j)).

(* exact zero test in a formally real *-field: |z|^2 <= 0 *)
Definition is_zero (z : F) : bool := le0 (nrm2 z).

(* Gaussian elimination on p augmented rows (p coefficients + right-hand side each) *)
Fixpoint gauss (p : nat) (rows : matrix) : option (list F) :=
  match p, rows with
  | O, _ => Some []
  | S q, r :: rest =>
      let piv := nthF r 0 in
      if is_zero piv then None
      else
        let r' := map (fun v => v / piv) (tl r) in
        let rest' := map (fun s => mk (S q) (fun j => nthF s (S j) - nthF s 0 * nthF r' j)) rest in
        match gauss q rest' with
        | None => None
        | Some sol => Some ((nthF r' q - sumL (mk q (fun j => nthF r' j * nthF sol j))) :: sol)
        end
  | S _, [] => None
  end.

Definition normal_eqs_b (p : nat) (A : matrix) (b a : list F) : bool :=
  forallb (fun i => is_zero (normal_lhs p A a i - dotc (mcol A i) b)) (seq 0 p).

Definition ls_solve (p : nat) (A : matrix) (b : list F) : option (list F) :=
  let G := gram_ls p A in
  let r := rhs_ls p A b in
  match gauss p (map (fun i => nth i G [] ++ [nthF r i]) (seq 0 p)) with
  | Some a => if (length a =? p)%nat && normal_eqs_b p A b a then Some a else None
  | None => None
  end.

(* ---------- arcovar / modcovar ---------- *)
Definition lstsq_t := nat -> matrix -> list F -> option (list F).   (* columns, A, b *)

(* the common body of arcovar and modcovar after X = corrmtx(x, order, method);
   tol = 1e-4; second None = AssertionError('wierd behaviour') *)
Definition ar_ls (lstsq : lstsq_t) (tol : F) (X : matrix) (p : nat) : option (list F * F) :=
  let Xc := cols1 X in
  let X1 := col0 X in
  match lstsq p (mneg Xc) X1 with
  | None => None
  | Some a =>
      let s := dotc X1 X1 in
      let Cz := mk p (fun j => dotc X1 (mcol Xc j)) in
      let e := s + sumL (mk p (fun j => nthF Cz j * nthF a j)) in
      (* abs(e.imag) <= tol * s.real, squared: |e - conj e|^2 <= |2 tol re(s)|^2 *)
      if le0 (nrm2 (e - conj e) - nrm2 (two * tol * re s)) then Some (a, re e) else None
  end.

Definition arcovar_with (lstsq : lstsq_t) (tol : F) (x : list F) (p : nat) := ar_ls lstsq tol (corrmtx x p MCovariance) p.
Definition modcovar_with (lstsq : lstsq_t) (tol : F) (x : list F) (p : nat) := ar_ls lstsq tol (corrmtx x p MModified) p.
Definition arcovar := arcovar_with ls_solve.
Definition modcovar := modcovar_with ls_solve.

(* pcovar.__call__ : rho = e / (N - p);  pmodcovar.__call__ : rho = e / (2 (N - p)) *)
Definition pcovar_rho (tol : F) (x : list F) (p : nat) : option (list F * F) :=
  match arcovar tol x p with Some (a, e) => Some (a, e / ofnat (length x - p)) | None => None end.
Definition pmodcovar_rho (tol : F) (x : list F) (p : nat) : option (list F * F) :=
  match modcovar tol x p with Some (a, e) => Some (a, e / (two * ofnat (length x - p))) | None => None end.

(* ---------- the quantities the theorems speak about ---------- *)
(* forward residual at time p+n and backward residual at time n, coefficients c_0..c_{p-1} = a_1..a_p *)
Definition fwd_res (x : list F) (p : nat) (c : nat -> F) (n : nat) : F :=
  nthF x (p + n) + sumf p (fun j => nthF x (p + n - 1 - j) * c j).
Definition bwd_res (x : list F) (p : nat) (c : nat -> F) (n : nat) : F :=
  conj (nthF x n) + sumf p (fun j => conj (nthF x (n + 1 + j)) * c j).
Definition fwd_energy (x : list F) (p : nat) (c : nat -> F) : F :=
  sumf (length x - p) (fun n => nrm2 (fwd_res x p c n)).
Definition bwd_energy (x : list F) (p : nat) (c : nat -> F) : F :=
  sumf (length x - p) (fun n => nrm2 (bwd_res x p c n)).

Fixpoint powF (z : F) (n : nat) : F := match n with O => 1 | S k => z * powF z k end.
(* x_t = sum_{i<q} amp_i z_i^t, t < N *)
Definition expsum (q : nat) (amp z : nat -> F) (t : nat) : F := sumf q (fun i => amp i * powF (z i) t).
(* z^p + c_0 z^{p-1} + ... + c_{p-1} *)
Definition monic_eval (p : nat) (c : nat -> F) (z : F) : F := powF z p + sumf p (fun j => c j * powF z (p - 1 - j)).
End Ls.
