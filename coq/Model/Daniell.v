(* Model of spectrum.periodogram.DaniellPeriodogram (periodogram.py:260-322) as the code is now, definitions only.

     psd = speriodogram(data, NFFT, detrend, sampling, scale_by_freq, window)
     datatype = 'real' if len(psd) % 2 == 1 else 'complex'          <- decided by the PARITY OF THE NUMBER OF BINS, not by the data
     N = len(psd); _slice = 2*P + 1
     newN = ceil(N / _slice); real: if newN even -> N / _slice;  complex: if newN odd -> N / _slice      (then int(): floor)
     newpsd[i] = sum(psd[n] for n in range(i*_slice-P, i*_slice+P+1) if n > 0 and n < N) / count       i < newN
                                                                        ^ bin 0 is never averaged in (strict n > 0)
   The second component of the result (freq = linspace(0, sampling or sampling/2, len(newpsd))) depends on the length only
   and is not modelled.  count = 0 happens exactly for P = 0 at i = 0 (no n with 0 < n <= 0): the code divides 0.0 by 0.0
   (nan, RuntimeWarning); the model divides by [ofnat 0]. *)
Require Import Spectrum.Theory.Ops Spectrum.Theory.Sum Spectrum.Theory.Vec Spectrum.Theory.Dft Spectrum.Model.Periodogram.

Section Daniell.
Context {F : Type} {OF : Ops F}.
Local Open Scope F_scope.

Definition daniell_len (N P : nat) : nat :=
  let sl := (2 * P + 1)%nat in
  let c := ((N + sl - 1) / sl)%nat in                               (* ceil(N / _slice) *)
  if (if Nat.odd N then Nat.even c else Nat.odd c) then (N / sl)%nat else c.

(* n = i*_slice - P + t, t = 0 .. 2P, is averaged in iff 0 < n < N *)
Definition daniell_valid (N P i t : nat) : bool := (P <? i * (2 * P + 1) + t)%nat && (i * (2 * P + 1) + t - P <? N)%nat.
Definition daniell_count (N P i : nat) : nat := length (filter (daniell_valid N P i) (seq 0 (2 * P + 1))).
Definition daniell_smooth (psd : list F) (P : nat) : list F :=
  let N := length psd in
  mk (daniell_len N P) (fun i =>
    sumL (mk (2 * P + 1) (fun t => if daniell_valid N P i t then nthF psd (i * (2 * P + 1) + t - P) else 0))
    / ofnat (daniell_count N P i)).

Definition daniell (tw : Z -> F) (twopi : F) (x w : list F) (P : nat) (NFFT : option nat) (isreal : bool)
                   (detrend sbf : pyval) (sampling : F) : list F :=
  daniell_smooth (speriodogram tw twopi x w NFFT isreal detrend sbf sampling) P.
End Daniell.
