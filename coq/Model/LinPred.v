(* Model of spectrum/linear_prediction.py (ac2poly ac2rc poly2ac poly2rc rc2poly rc2ac,
   the sum/difference polynomials of poly2lsf / lsf2poly) and of levinson.rlevinson with
   the error branches of levdown.  Definitions only.

   [None] stands for "the call raises" (AssertionError / ValueError / IndexError).
   The code's equality tests (a[0] != 1, knxt == 1.0) need a boolean equality, which [Ops]
   does not have: class [Eqb] (instance for QcC in Instances/QcCEq_C11.v, laws in
   Proofs/LinPredTheory.v).

   Quirks that are modelled as they are:
   * levdown raises only for knxt == 1 exactly; any other k with |k| = 1 divides by zero
     (inf/nan in numpy, the totalised x/0 here) - outside the domain of C11.
   * rlevinson never applies levdown to the order-1 polynomial: k_1 is only used in
     e0 = e[0] / (1 - |a_1[1]|^2).
   * rlevinson reads the reflection coefficients back from the first row of the matrix U
     (kr = conj(U[0,1:])), U[i,m] = conj(a_m[m-i]).
   * ac2rc returns data[0] itself while LEVINSON starts from real(data[0]).
   * rc2poly([]) raises (kr[0]); rc2poly(kr) without r0 uses e0 = 0 (callers pass 0). *)
Require Import Spectrum.Theory.Ops Spectrum.Theory.Sum Spectrum.Theory.Vec Spectrum.Model.Levinson.

Class Eqb (F : Type) := eqb : F -> F -> bool.

Section LinPred.
Context {F : Type} {OF : Ops F} {EF : Eqb F}.
Local Open Scope F_scope.

(* ---------------- levdown with its two ValueError branches ---------------- *)
Definition lastc (a : list F) : F := nthF a (length a - 1).
Definition levdown_chk (anxt : list F) (e : F) : option (list F * F) :=
  if negb (eqb (nthF anxt 0) 1) then None
  else if eqb (lastc (tl anxt)) 1 then None
  else Some (levdown anxt e).

(* ---------------- rc2poly(kr, r0) ---------------- *)
Fixpoint rc2poly_iter (ks : list F) (a : list F) (e : F) : list F * F :=
  match ks with
  | [] => (a, e)
  | k :: t => let '(a', e') := levup a k e in rc2poly_iter t a' e'
  end.
Definition rc2poly (kr : list F) (r0 : F) : option (list F * F) :=
  match kr with
  | [] => None
  | k0 :: t => Some (rc2poly_iter t [1; k0] (r0 * (1 - conj (conj k0 * k0))))
  end.

(* ---------------- rlevinson(a, efinal) ---------------- *)
(* the step-down sweep: n further levdown calls; result lists (a_m, e_m) from the highest order down *)
Fixpoint stepdown (n : nat) (a : list F) (e : F) : option (list (list F * F)) :=
  match n with
  | O => Some [(a, e)]
  | S n' => match levdown_chk a e with
            | None => None
            | Some (a', e') => match stepdown n' a' e' with
                               | None => None
                               | Some l => Some ((a, e) :: l)
                               end
            end
  end.

(* stages : nth (m-1) = (a_m, e_m), m = 1..p.  The matrix U of the code, entry (i, m) *)
Definition stage_a (stages : list (list F * F)) (m : nat) : list F := fst (nth (m - 1) stages ([], 0)).
Definition stage_e (stages : list (list F * F)) (m : nat) : F := snd (nth (m - 1) stages ([], 0)).
Definition Umat (stages : list (list F * F)) (i m : nat) : F :=
  if (m =? 0)%nat then (if (i =? 0)%nat then 1 else 0)
  else if (i <=? m)%nat then conj (nthF (stage_a stages m) (m - i)) else 0.
(* kr[j] = conj(U[0, j+1]) *)
Definition rlev_kr (stages : list (list F * F)) : list F :=
  mk (length stages) (fun j => conj (Umat stages 0 (S j))).
(* r = -sum(conj(U[k-1::-1,k]) * R[-1::-1]) - kr[k]*e[k-1], with R = [R_0 .. R_k] *)
Definition rlev_next (stages : list (list F * F)) (R : list F) (k : nat) : F :=
  - sumL (mk k (fun i => conj (Umat stages (k - 1 - i) k) * nthF R (k - i)))
  - nthF (rlev_kr stages) k * stage_e stages k.
Fixpoint rlev_R (stages : list (list F * F)) (e0 : F) (n : nat) : list F :=
  match n with
  | O => [e0; - conj (Umat stages 0 1) * e0]
  | S n' => let R := rlev_R stages e0 n' in R ++ [rlev_next stages R (S n')]
  end.

(* returns (R, stages, kr, e); U is [Umat stages]; e = map snd stages *)
Definition rlevinson (a : list F) (efinal : F) : option (list F * list (list F * F) * list F * list F) :=
  if negb (eqb (nthF a 0) 1) then None                       (* assert a[0] == 1 *)
  else if (length a <? 2)%nat then None                      (* ValueError: at least two coefficients *)
  else
    let p := (length a - 1)%nat in
    match stepdown (p - 1) a efinal with
    | None => None
    | Some l =>
        let stages := rev l in
        let e0 := stage_e stages 1 / (1 - nrm2 (nthF (stage_a stages 1) 1)) in
        Some (rlev_R stages e0 (p - 1), stages, rlev_kr stages, map snd stages)
    end.

Definition poly2ac (a : list F) (efinal : F) : option (list F) :=
  match rlevinson a efinal with None => None | Some (R, _, _, _) => Some R end.
Definition poly2rc (a : list F) (efinal : F) : option (list F) :=
  match rlevinson a efinal with None => None | Some (_, _, kr, _) => Some kr end.
Definition rc2ac (k : list F) (r0 : F) : option (list F) :=
  match rc2poly k r0 with None => None | Some (a, e) => poly2ac a e end.

(* ---------------- ac2poly / ac2rc: LEVINSON(data) at full order ---------------- *)
Definition ac2poly (r : list F) : option (list F * F) :=
  match r with
  | [] => None
  | _ => match levinson r (length r - 1) false with
         | None => None
         | Some (a, P, _) => Some (1 :: a, P)
         end
  end.
Definition ac2rc (r : list F) : option (list F * F) :=
  match r with
  | [] => None
  | _ => match levinson r (length r - 1) false with
         | None => None
         | Some (_, _, k) => Some (k, nthF r 0)
         end
  end.

(* ---------------- line spectral frequencies: the algebraic part ---------------- *)
(* poly2lsf: a1 = [a, 0]; a2 = a1 reversed; P1 = a1 - a2; Q1 = a1 + a2 *)
Definition lsf_a1 (a : list F) : list F := a ++ [0].
Definition lsf_P1 (a : list F) : list F :=
  let a1 := lsf_a1 a in mk (length a1) (fun j => nthF a1 j - nthF a1 (length a1 - 1 - j)).
Definition lsf_Q1 (a : list F) : list F :=
  let a1 := lsf_a1 a in mk (length a1) (fun j => nthF a1 j + nthF a1 (length a1 - 1 - j)).
(* numpy.convolve and scipy.signal.deconvolve by a monic divisor (quotient, remainder) *)
Definition conv (x y : list F) : list F :=
  mk (length x + length y - 1) (fun n => sumL (mk (S n) (fun i => nthF x i * nthF y (n - i)))).
Fixpoint deconv_q (num d : list F) (n : nat) : list F :=   (* first n quotient coefficients, d monic *)
  match n with
  | O => []
  | S n' => let q := deconv_q num d n' in
            q ++ [nthF num n' - sumL (mk n' (fun i => nthF q i * nthF d (n' - i)))]
  end.
Definition deconv (num d : list F) : list F * list F :=
  let q := deconv_q num d (length num - length d + 1) in
  (q, mk (length num) (fun j => nthF num j - nthF (conv q d) j)).
Definition d_m1 : list F := [1; - (1)].        (* [1, -1]    root z = 1  *)
Definition d_p1 : list F := [1; 1].            (* [1,  1]    root z = -1 *)
Definition d_pm : list F := [1; 0; - (1)].     (* [1, 0, -1] roots z = 1, -1 *)
(* the polynomials whose roots poly2lsf takes, with the remainders of the two divisions *)
Definition lsf_PQ (a : list F) : (list F * list F) * (list F * list F) :=
  let p := (length a - 1)%nat in
  if Nat.odd p then (deconv (lsf_P1 a) d_pm, (lsf_Q1 a, []))
  else (deconv (lsf_P1 a) d_m1, deconv (lsf_Q1 a) d_p1).
(* lsf2poly after numpy.poly: P1, Q1 from P, Q; a = .5*(P1+Q1) without its last element *)
Definition lsf_combine (p : nat) (P Q : list F) : list F :=
  let P1 := if Nat.odd p then conv P d_pm else conv P d_m1 in
  let Q1 := if Nat.odd p then Q else conv Q d_p1 in
  let s := mk (length P1) (fun j => (nthF P1 j + nthF Q1 j) / two) in
  firstn (length s - 1) s.
End LinPred.
