(* Model of spectrum/arma.py (ma, arma_estimate, arma2psd), yulewalker.aryule and the __call__
   pipelines of the AR/MA/ARMA classes (parma, pma, pyule, pburg, pcovar, pmodcovar) as the code
   is now.  Definitions only.

   aryule = LEVINSON(CORRELATION(x, maxlags=order, norm), allow_singularity=True).
   The covariance-method solvers are oracles: [lsm] stands for arcovar_marple (used when P <= 4;
   returns an array as long as its input whose first P entries are the coefficients), [lsq] for
   arcovar (scipy lstsq, P > 4).  The theorems quantify over every pair of oracles meeting the
   normal equations ([cov_normal]); [ls_exact] is the executable instance of the correspondence run
   (elimination without pivoting on the normal equations: the Gram matrix of a full-rank system is
   Hermitian positive definite, so every leading minor is non-zero).  Errors: the code's exceptions
   as a small enum, in the order in which the code reaches them. *)
Require Import Spectrum.Theory.Ops Spectrum.Theory.Sum Spectrum.Theory.Vec Spectrum.Theory.Dft
               Spectrum.Model.Levinson Spectrum.Model.Corr.

Section ArmaEst.
Context {F : Type} {OF : Ops F}.
Local Open Scope F_scope.

Inductive aerr := EValue | EAssert | EIndex.

(* ---------- aryule(X, order, norm) ---------- *)
Definition aryule (x : list F) (order : nat) (nm : cnorm) : option lev_state :=
  match acorr x order nm with
  | None => None                                     (* AssertionError: order >= N *)
  | Some r => levinson r (length r - 1) true         (* LEVINSON(r): order = len(r)-1, singular stages allowed *)
  end.

(* ---------- ma(X, Q, M) ---------- *)
Definition ma (x : list F) (Q M : nat) : aerr + (list F * F) :=
  if (Q =? 0)%nat || (M <=? Q)%nat then inl EValue          (* ValueError('Q(MA) must be in ]0,lag[') *)
  else match aryule x M Biased with
       | None => inl EAssert
       | Some (a, rho, _) =>
           match aryule (1 :: a) Q Biased with                (* a = insert(a, 0, 1) *)
           | None => inl EAssert
           | Some (b, _, _) => inr (b, rho)
           end
       end.

(* ---------- the covariance method (arcovar / arcovar_marple) as a specification ---------- *)
(* forward prediction error of order p at time n (p <= n < len y) *)
Definition cov_err (y a : list F) (p n : nat) : F :=
  nthF y n + sumL (mk p (fun j => nthF y (n - 1 - j) * nthF a j)).
(* i-th normal equation Xc^H (X1 + Xc a) = 0 of the rows n = p .. len(y)-1 *)
Definition cov_normal_lhs (y a : list F) (p i : nat) : F :=
  sumL (mk (length y - p) (fun t => conj (nthF y (p + t - 1 - i)) * cov_err y a p (p + t))).
Definition cov_normal (y a : list F) (p : nat) : Prop :=
  forall i, (i < p)%nat -> cov_normal_lhs y a p i = 0.
Definition cov_normal_resid (y a : list F) (p : nat) : list F := mk p (cov_normal_lhs y a p).

(* executable exact solver: normal equations G a = -g, elimination without pivoting *)
Definition cov_gram (y : list F) (p i j : nat) : F :=
  sumL (mk (length y - p) (fun t => conj (nthF y (p + t - 1 - i)) * nthF y (p + t - 1 - j))).
Definition cov_rhs (y : list F) (p i : nat) : F :=
  - sumL (mk (length y - p) (fun t => conj (nthF y (p + t - 1 - i)) * nthF y (p + t))).
Definition row_sub (c : F) (piv row : list F) : list F :=
  mk (length row) (fun j => nthF row j - c * nthF piv j).
Fixpoint elim (fuel : nat) (rows : list (list F)) : list (list F) :=
  match fuel, rows with
  | S f, piv :: rest =>
      piv :: elim f (map (fun r => tl (row_sub (nthF r 0 / nthF piv 0) piv r)) rest)
  | _, _ => []
  end.
Fixpoint backsub (rows : list (list F)) : list F :=
  match rows with
  | [] => []
  | piv :: rest =>
      let xs := backsub rest in
      let m := length xs in
      ((nthF piv (S m) - sumL (mk m (fun j => nthF piv (S j) * nthF xs j))) / nthF piv 0) :: xs
  end.
Definition ls_exact (y : list F) (p : nat) : list F :=
  backsub (elim p (map (fun i => mk p (cov_gram y p i) ++ [cov_rhs y p i]) (seq 0 p))).
Definition lsm_exact (y : list F) (p : nat) : list F := pad (length y) (ls_exact y p).

(* ---------- arma_estimate(X, P, Q, lag) ---------- *)
(* Y[K] of the first loop: KPQ = K+Q-P+1 <0: conj R[-KPQ]; =0: R0; >0: R[KPQ] *)
Definition arma_yval (r : list F) (P Q K : nat) : F :=
  if (K + Q + 1 <? P)%nat then conj (nthF r (P - Q - 1 - K)) else nthF r (K + Q + 1 - P).
(* the sequence handed to the covariance method: the first MPQ = lag-Q+P entries, resized to lag *)
Definition arma_y (r : list F) (P Q lag : nat) : list F :=
  mk lag (fun k => if (k <? lag + P - Q)%nat then arma_yval r P Q k else 0).
(* Y[k-P] = X[k] + sum_j a_j X[k-j-1], k = P..N-1 *)
Definition arma_resid (x a : list F) (P : nat) : list F :=
  mk (length x - P) (fun t => nthF x (t + P) + sumL (mk P (fun j => nthF a j * nthF x (t + P - j - 1)))).

Definition arma_ar (lsm lsq : list F -> nat -> list F) (N : nat) (y : list F) (P lag : nat) : aerr + list F :=
  if (P <=? 4)%nat then
    if (lag <? P)%nat then inl EAssert                       (* assert len(x) >= order *)
    else if (lag =? 0)%nat then inl EIndex                   (* x[0] of an empty array *)
    else inr (firstn P (lsm y P))                            (* res[0][0:P] *)
  else
    if (lag <=? P)%nat && (P <? N)%nat then inl EIndex       (* arcovar returns lag-1 zeros; the filter reads ar[lag-1] *)
    else inr (lsq y P).

Definition arma_estimate (lsm lsq : list F -> nat -> list F) (x : list F) (P Q lag : nat)
  : aerr + (list F * list F * F) :=
  let N := length x in
  match acorr x lag Unbiased with
  | None => inl EAssert                                      (* lag >= N *)
  | Some r =>
    if (N <? P)%nat then inl EValue                          (* zeros(N-P): negative dimension *)
    else if (0 <? lag + P - Q)%nat && ((lag + Q + 1 <? P)%nat || (N - P <? lag + P - Q)%nat)
    then inl EIndex                                          (* R[P-Q-1] or Y[K] out of bounds *)
    else
      match arma_ar lsm lsq N (arma_y r P Q lag) P lag with
      | inl e => inl e
      | inr a =>
          match ma (arma_resid x a P) Q (2 * Q) with
          | inl e => inl e
          | inr (b, rho) => inr (a, b, rho)
          end
      end
  end.

(* ---------- arma2psd(A, B, rho, T, NFFT), sides='default', norm=False ---------- *)
Definition polyfft (tw : Z -> F) (NFFT : nat) (c : option (list F)) (k : nat) : F :=
  match c with None => 1 | Some c => nthF (dft tw NFFT (1 :: c)) k end.
Definition fits (NFFT : nat) (c : option (list F)) : bool :=
  match c with None => true | Some c => (length c <? NFFT)%nat end.
Definition arma2psd (tw : Z -> F) (A B : option (list F)) (rho T : F) (NFFT : nat) : aerr + list F :=
  match A, B with
  | None, None => inl EValue
  | _, _ =>
    if fits NFFT A && fits NFFT B then
      inr (mk NFFT (fun k =>
        match A, B with
        | Some _, Some _ => rho / T * nrm2 (polyfft tw NFFT B k) / nrm2 (polyfft tw NFFT A k)
        | Some _, None => rho / T / nrm2 (polyfft tw NFFT A k)
        | None, _ => rho / T * nrm2 (polyfft tw NFFT B k)
        end))
    else inl EIndex                                          (* den[k+1] = A[k] beyond NFFT *)
  end.

(* ---------- the classes: what __call__ hands to arma2psd, what it stores ---------- *)
Inductive pclass := Cparma | Cpma | Cpyule | Cpburg | Cpcovar | Cpmodcovar.
Record exposed := mkExposed { x_ar : option (list F); x_ma : option (list F); x_rho : option F; x_psd : list F }.

(* v = the estimator's scalar output (rho of arma_estimate/ma/aryule/arburg, e of arcovar/modcovar) *)
Definition class_rho (c : pclass) (v : F) (N order : nat) : F :=
  match c with
  | Cpcovar => v / ofnat (N - order)
  | Cpmodcovar => v / (two * ofnat (N - order))
  | _ => v
  end.
Definition class_A (c : pclass) (ar : list F) : option (list F) :=
  match c with Cpma => None | _ => Some ar end.
Definition class_B (c : pclass) (ma : list F) : option (list F) :=
  match c with Cparma | Cpma => Some ma | _ => None end.
Definition class_rho_exposed (c : pclass) : bool := match c with Cpyule => false | _ => true end.
Definition nbins (real : bool) (NFFT : nat) : nat :=
  if real then (if (NFFT mod 2 =? 0)%nat then NFFT / 2 + 1 else (NFFT + 1) / 2)%nat else NFFT.
(* the real-data slice *2, then scale(): psd *= 2*pi/df, df = sampling/NFFT, when scale_by_freq *)
Definition class_finish (real sbf : bool) (twopi sampling : F) (NFFT : nat) (psd : list F) : list F :=
  let p1 := if real then map (fun v => v * two) (firstn (nbins real NFFT) psd) else psd in
  if sbf then map (fun v => v * (twopi / (sampling / ofnat NFFT))) p1 else p1.
Definition class_call (tw : Z -> F) (c : pclass) (ar ma : list F) (v : F) (N order : nat)
           (twopi sampling : F) (NFFT : nat) (real sbf : bool) : aerr + exposed :=
  let rho := class_rho c v N order in
  match arma2psd tw (class_A c ar) (class_B c ma) rho sampling NFFT with
  | inl e => inl e
  | inr psd => inr (mkExposed (class_A c ar) (class_B c ma)
                              (if class_rho_exposed c then Some rho else None)
                              (class_finish real sbf twopi sampling NFFT psd))
  end.
End ArmaEst.
