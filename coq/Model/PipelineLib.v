(* Static library for the GENERATED pipeline table (tools/props/_pipelines.py writes the table from
   the __call__ bodies of the thirteen PSD classes, from the functional estimators they call and from
   psd.py on every run).  This file holds: the vocabulary of the table, and a small operational
   interpreter giving each class' stored PSD as a function of
      - S        : what the functional estimator computes at sampling = 1 with no frequency scaling
                   (its two-sided model spectrum; for speriodogram on real data its rfft bins),
      - scale_by_freq, sampling, NFFT, datatype,
   following the code's order:  functional estimator -> store (slice, doubling, flips) -> scale() calls.
   Definitions only; lemmas in Proofs/PipelineTheory.v; theorems over the generated table are
   re-proved on every run.  Used by C08 (normalisation); the record also carries what C02/C03/C04/C05/
   C15 need (argument routing, stored attributes, slices, return value). *)
From Coq Require Import String.
Require Import Spectrum.Theory.Ops Spectrum.Theory.Sum Spectrum.Theory.Vec.

(* ---------------- vocabulary ---------------- *)
Inductive cls := Periodogram | Pcorrelogram | Pburg | Pyule | Pcovar | Pmodcovar | Parma | Pma
               | Pminvar | Pmusic | Pev | MultiTapering | Pdaniell.
Definition all_classes : list cls :=
  [Periodogram; Pcorrelogram; Pburg; Pyule; Pcovar; Pmodcovar; Parma; Pma; Pminvar; Pmusic; Pev; MultiTapering; Pdaniell].
Definition cls_eqb (a b : cls) : bool :=
  match a, b with
  | Periodogram, Periodogram | Pcorrelogram, Pcorrelogram | Pburg, Pburg | Pyule, Pyule | Pcovar, Pcovar
  | Pmodcovar, Pmodcovar | Parma, Parma | Pma, Pma | Pminvar, Pminvar | Pmusic, Pmusic | Pev, Pev
  | MultiTapering, MultiTapering | Pdaniell, Pdaniell => true
  | _, _ => false
  end.

(* the groups the property statement speaks about (specification, not extracted) *)
Inductive group := GModel    (* AR / MA / ARMA model spectra: value divided by the sampling factor *)
                 | GFixed    (* periodogram, correlogram, multitaper, subspace: value unchanged *)
                 | GMinvar.  (* minimum variance: outside both groups (C16) *)
Definition group_of (c : cls) : group :=
  match c with
  | Pburg | Pyule | Pcovar | Pmodcovar | Parma | Pma => GModel
  | Periodogram | Pcorrelogram | MultiTapering | Pmusic | Pev | Pdaniell => GFixed
  | Pminvar => GMinvar
  end.

Inductive base := BFourier | BParametric | BSpectrum.
(* the function that produces the PSD array *)
Inductive festim := FSperiodogram | FCorrelogrampsd | FArma2psd | FMinvar | FEigen | FPmtm | FDaniell.
(* what reaches the functional estimator's scale_by_freq / sampling (or T) parameter *)
Inductive flagsrc := FlagNoParam | FlagConst (b : bool) | FlagSelf.
Inductive sampsrc := SampNoParam | SampConst1 | SampSelf.
(* how the functional estimator itself uses them (read off its own source) *)
Inductive fscale := FsNone | FsIfFlag.      (* FsIfFlag: if scale_by_freq is True: res *= 2*pi / (sampling/float(NFFT)) *)
Inductive fsamp := UseNone | UseDiv | UseMul.  (* value independent of / divided by / multiplied by its sampling argument *)
(* upper bound of the real-data slice *)
Inductive hiexpr := HalfPlus1   (* int(self.NFFT/2 + 1) *)
                  | HalfUp.     (* int((self.NFFT+1)/2) *)
Inductive store :=
  | SAsIs                                                    (* self.psd = <functional result> *)
  | SHalf (hi_even hi_odd : hiexpr) (factor : nat) (flip : bool)  (* psd[0:hi] * factor, [::-1] when flip *)
  | STwo2One                                                 (* tools.twosided_2_onesided *)
  | SCenter2Two.                                             (* tools.centerdc_2_twosided = ifftshift *)
(* one call of self.scale() in __call__ *)
Inductive sguard := GAlways | GIfFlag.       (* unguarded / under "if self.scale_by_freq is True" *)

Record pipeline := mkPipeline {
  p_base : base;
  p_default_sbf : bool;                       (* default of scale_by_freq in __init__ *)
  p_init_passes : bool;                       (* __init__ hands sampling, NFFT, scale_by_freq to the base class *)
  p_param_est : string;                       (* arburg / aryule / ... ("" when there is none) *)
  p_param_args : list (string * string);      (* its parameters <- source expression *)
  p_est : festim;
  p_est_args : list (string * string);        (* parameters of the functional estimator <- source expression ("default:v" when omitted) *)
  p_flag : flagsrc;
  p_samp : sampsrc;
  p_fscale : fscale;
  p_fsamp : fsamp;
  p_post : list string;                       (* recognised post-processing between the call and the store *)
  p_stores : list (string * string);          (* attributes stored besides psd <- source expression *)
  p_real : store;
  p_cplx : store;
  p_scale_real : list sguard;                 (* the scale() calls executed for real data, in order *)
  p_scale_cplx : list sguard;
  p_modified_false : bool;                    (* __call__ ends with self.modified = False *)
  p_returns_self : bool }.

(* psd.py: scale(), df, the sampling / NFFT / psd setters *)
Record psdmodel := mkPsdModel {
  m_scale_guarded : bool;            (* scale() multiplies only "if self.scale_by_freq is True" *)
  m_df_from_range : bool;            (* Spectrum.df returns self._range.df, Range keeps df = sampling/float(N) in both setters *)
  m_init_range_sampling : bool;      (* __init__ builds Range(..., sampling) *)
  m_setsampling_updates_range : bool;(* the sampling setter assigns self._range.sampling *)
  m_setnfft_updates_range : bool;    (* the NFFT setter assigns self._range.N *)
  m_psdset_cplx_nfft_len : bool }.   (* psd setter, complex data: NFFT := len(psd); range.N := NFFT *)

(* Range generators: "for a in range(0, hi): yield e * self.df", optionally under "if self.N % 2 == 0" *)
Inductive iexpr := IVar | IN | IConst (z : Z) | IAdd (a b : iexpr) | ISub (a b : iexpr) | IFloorDiv (a b : iexpr) | IMod (a b : iexpr).
Inductive rgen := GFor (hi : iexpr) (yield_ : iexpr) | GIfEvenN (g_even g_odd : rgen).
Record rangemodel := mkRange { r_onesided : rgen; r_twosided : rgen; r_centerdc : rgen }.
Inductive sides := Onesided | Twosided | Centerdc.

Fixpoint eval_i (e : iexpr) (v n : Z) : Z :=
  match e with
  | IVar => v | IN => n | IConst z => z
  | IAdd a b => eval_i a v n + eval_i b v n
  | ISub a b => eval_i a v n - eval_i b v n
  | IFloorDiv a b => eval_i a v n / eval_i b v n
  | IMod a b => eval_i a v n mod eval_i b v n
  end%Z.

Fixpoint lookup (c : cls) (t : list (cls * pipeline)) : option pipeline :=
  match t with [] => None | (c', p) :: r => if cls_eqb c c' then Some p else lookup c r end.

(* ---------------- interpreter ---------------- *)
Section Interp.
Context {F : Type} {OF : Ops F}.
Local Open Scope F_scope.
Variable twopi : F.                       (* 2 * numpy.pi *)

Definition ofZ (z : Z) : F := if (z <? 0)%Z then - ofnat (Z.to_nat (- z)) else ofnat (Z.to_nat z).
Definition df (samp : F) (N : nat) : F := samp / ofnat N.

Fixpoint run_gen (g : rgen) (samp : F) (N : nat) : list F :=
  match g with
  | GFor hi y => mk (Z.to_nat (eval_i hi 0%Z (Z.of_nat N))) (fun a => ofZ (eval_i y (Z.of_nat a) (Z.of_nat N)) * df samp N)
  | GIfEvenN a b => if Nat.even N then run_gen a samp N else run_gen b samp N
  end.
Definition gen_of (r : rangemodel) (s : sides) : rgen :=
  match s with Onesided => r_onesided r | Twosided => r_twosided r | Centerdc => r_centerdc r end.

(* the Spectrum attributes the axis depends on *)
Record sstate := mkState { st_sampling : F; st_range_sampling : F; st_NFFT : nat; st_range_N : nat }.
Definition st_init (m : psdmodel) (samp0 samp : F) (NFFT : nat) : sstate :=
  (* Range(size, sampling) in __init__ (samp0 stands for whatever a Range would hold otherwise), NFFT setter *)
  {| st_sampling := samp; st_range_sampling := if m_init_range_sampling m then samp else samp0;
     st_NFFT := NFFT; st_range_N := if m_setnfft_updates_range m then NFFT else O |}.
Definition st_set_sampling (m : psdmodel) (v : F) (s : sstate) : sstate :=
  {| st_sampling := v; st_range_sampling := if m_setsampling_updates_range m then v else st_range_sampling s;
     st_NFFT := st_NFFT s; st_range_N := st_range_N s |}.
Definition st_df (s : sstate) : F := df (st_range_sampling s) (st_range_N s).
Definition st_frequencies (r : rangemodel) (sd : sides) (s : sstate) : list F :=
  run_gen (gen_of r sd) (st_range_sampling s) (st_range_N s).

(* tools.twosided_2_onesided: data[0:N//2+1]*2, first entry halved, last entry halved when N is even *)
Definition two2one (v : list F) : list F :=
  let n := length v in
  mk (n / 2 + 1) (fun j => let x := nthF v j * two in
                           let x := if (j =? 0)%nat then x / two else x in
                           if (Nat.even n && (j =? n / 2)%nat)%bool then x / two else x).
(* numpy.fft.ifftshift *)
Definition ifftshift (c : list F) : list F :=
  let n := length c in
  mk n (fun j => if (j <? n - n / 2)%nat then nthF c (j + n / 2) else nthF c (j - (n - n / 2))).

Definition hi_eval (h : hiexpr) (NFFT : nat) : nat :=
  match h with HalfPlus1 => NFFT / 2 + 1 | HalfUp => (NFFT + 1) / 2 end.

Definition do_store (s : store) (NFFT : nat) (v : list F) : list F :=
  match s with
  | SAsIs => v
  | SHalf he ho fac flip =>
      let hi := if Nat.even NFFT then hi_eval he NFFT else hi_eval ho NFFT in
      let w := vscale (ofnat fac) (firstn hi v) in
      if flip then rev w else w
  | STwo2One => two2one v
  | SCenter2Two => ifftshift v
  end.

(* what the functional estimator returns, given the spectrum S it computes at sampling 1, unscaled *)
Definition samp_arg (p : pipeline) (samp : F) : F := match p_samp p with SampSelf => samp | _ => 1 end.
Definition flag_arg (p : pipeline) (sbf : bool) : bool :=
  match p_flag p with FlagSelf => sbf | FlagConst b => b | FlagNoParam => false end.
Definition fresult (p : pipeline) (sbf : bool) (samp : F) (NFFT : nat) (Sp : list F) : list F :=
  let v := match p_fsamp p with
           | UseNone => Sp
           | UseDiv => vscale (1 / samp_arg p samp) Sp
           | UseMul => vscale (samp_arg p samp) Sp
           end in
  match p_fscale p with
  | FsNone => v
  | FsIfFlag => if flag_arg p sbf then vscale (twopi / df (samp_arg p samp) NFFT) v else v
  end.

(* Spectrum.scale() *)
Definition scale_method (m : psdmodel) (sbf : bool) (dfv : F) (psd : list F) : list F :=
  if (negb (m_scale_guarded m) || sbf)%bool then vscale (twopi / dfv) psd else psd.
Definition scale_step (m : psdmodel) (sbf : bool) (dfv : F) (psd : list F) (g : sguard) : list F :=
  match g with
  | GAlways => scale_method m sbf dfv psd
  | GIfFlag => if sbf then scale_method m sbf dfv psd else psd
  end.
Definition run_scales (m : psdmodel) (gs : list sguard) (sbf : bool) (dfv : F) (psd : list F) : list F :=
  fold_left (scale_step m sbf dfv) gs psd.

(* the PSD a class stores: functional estimator -> store -> scale() calls.
   The functional estimator is fed self.sampling / self.NFFT; scale() reads self.df = range.sampling / range.N;
   the psd setter leaves NFFT alone for real data and sets NFFT := len(psd), range.N := NFFT for complex data. *)
Definition stored (m : psdmodel) (p : pipeline) (real : bool) (sbf : bool) (s : sstate) (Sp : list F) : list F :=
  let st := do_store (if real then p_real p else p_cplx p) (st_NFFT s) (fresult p sbf (st_sampling s) (st_NFFT s) Sp) in
  let rangeN := if real then st_range_N s else if m_psdset_cplx_nfft_len m then length st else st_range_N s in
  run_scales m (if real then p_scale_real p else p_scale_cplx p) sbf (df (st_range_sampling s) rangeN) st.

(* the same pipeline read as ONE scalar coefficient applied to the sampling-free layout [do_store st NFFT Sp]
   (Proofs/PipelineTheory.v: stored = vscale coef layout); every factor is listed in the order it is applied *)
Definition fcoef (p : pipeline) (sbf : bool) (samp : F) (NFFT : nat) : F :=
  (match p_fscale p with
   | FsNone => 1
   | FsIfFlag => if flag_arg p sbf then twopi / df (samp_arg p samp) NFFT else 1
   end) *
  (match p_fsamp p with UseNone => 1 | UseDiv => 1 / samp_arg p samp | UseMul => samp_arg p samp end).
Definition gfac (m : psdmodel) (sbf : bool) (dfv : F) (g : sguard) : F :=
  let k := if (negb (m_scale_guarded m) || sbf)%bool then twopi / dfv else 1 in
  match g with GAlways => k | GIfFlag => if sbf then k else 1 end.
Fixpoint scoef (m : psdmodel) (gs : list sguard) (sbf : bool) (dfv : F) : F :=
  match gs with [] => 1 | g :: r => scoef m r sbf dfv * gfac m sbf dfv g end.
Definition layout (p : pipeline) (real : bool) (NFFT : nat) (Sp : list F) : list F :=
  do_store (if real then p_real p else p_cplx p) NFFT Sp.
Definition coef (m : psdmodel) (p : pipeline) (real : bool) (sbf : bool) (s : sstate) (len : nat) : F :=
  let rangeN := if real then st_range_N s else if m_psdset_cplx_nfft_len m then len else st_range_N s in
  scoef m (if real then p_scale_real p else p_scale_cplx p) sbf (df (st_range_sampling s) rangeN)
  * fcoef p sbf (st_sampling s) (st_NFFT s).

(* states an object can be in as far as the axis is concerned: constructed, then any number of sampling assignments *)
Inductive reachable (m : psdmodel) : sstate -> Prop :=
  | reach_init : forall samp0 samp NFFT, reachable m (st_init m samp0 samp NFFT)
  | reach_set : forall v s, reachable m s -> reachable m (st_set_sampling m v s).
End Interp.
