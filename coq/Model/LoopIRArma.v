(* Exact comparison (zero tolerance) of the IR program of arma.arma_estimate (T10)

       R = CORRELATION(X, maxlags=lag, norm='unbiased');  the Y[K] loop;  Y.resize(lag)
       P <= 4: res = arcovar_marple(Y.copy(), P); ar_params = res[0][0:P]
       P >  4: res = arcovar(Y.copy(), P);        ar_params = res[0]          (scipy lstsq: an ORACLE call)
       Y.resize(N-P);  the residual filter;  ma_params, rho = ma(Y, Q, 2*Q)

   regenerated from the Python source on every run of C15 (tools/props/_loopir.py: CORRELATION, arcovar_marple, ma with
   yulewalker.aryule / CORRELATION / LEVINSON inside are translated from their module texts and embedded; the two results of
   arcovar are hidden ORACLE parameters), with the hand-written model Model.ArmaEst.arma_estimate.  Definitions only; the
   boolean cases are generated (tools/props/_loopir_arma.py) and evaluated by vm_compute at QcC.

   The model takes its two solvers as parameters.  The comparison instantiates them with what the program uses:
     lsm := [lsm_marple] = the first result of the hand model of arcovar_marple (Model/CovarMarple.v; itself under the exact
            tie of C14 and, for orders 0 / 1, a theorem), because the program EMBEDS Marple's recursion;
     lsq := the constant function returning the array [orc] that the tie feeds into the oracle slot of arcovar: the claim is
            for ALL values of that slot (C15's own correspondence is about the value: exact normal equations).
   Required: same outcome constructor (return / the same exception class: ValueError, AssertionError, IndexError), every
   entry of ar_params and ma_params, rho, and the dtype tags (both arrays complex: Y is numpy.zeros(.., dtype=complex), the
   oracle array is fed with the complex tag scipy gives it).

   Outside the tie: exceptions of the oracle call itself (arcovar on an empty record, lag = 0 with P > 4), negative P, Q, lag
   (the model takes naturals).  For lag <= P with P > 4 the model says IndexError "because arcovar returns lag-1 coefficients":
   the tie feeds an array of that length ([arma_oracle_len]). *)
From Coq Require Import String QArith Qcanon.
Require Import Spectrum.Theory.Ops Spectrum.Theory.Vec Spectrum.Model.LoopIR Spectrum.Model.LoopIRTie
               Spectrum.Model.Levinson Spectrum.Model.Corr Spectrum.Model.CovarMarple Spectrum.Model.ArmaEst
               Spectrum.Instances.QcC.
Import ListNotations.
Local Open Scope Z_scope.

Section Tie.
Context {F : Type} {OF : Ops F}.
Variable feq : F -> F -> bool.
Local Open Scope F_scope.

(* res[0] of arcovar_marple(y, p): the forward coefficients, an array as long as y *)
Definition lsm_marple (y : list F) (p : nat) : list F :=
  match arcovar_marple y p with Some (af, _, _, _) => af | None => [] end.

(* the number of coefficients arcovar(Y, P) returns for a record of [lag] samples (corrmtx has lag-P rows: none for lag <= P,
   and scipy's lstsq then returns lag-1 values) *)
Definition arma_oracle_len (P lag : nat) : nat := if (lag <=? P)%nat then (lag - 1)%nat else P.

(* arma_estimate(X, P, Q, lag); hidden parameters: arcovar's two results, then the pylab_rms_flat results of the embedded
   CORRELATIONs (one pair for arma_estimate's own call, two pairs inside ma) *)
Definition arma_estimate_args (isreal : bool) (x : list F) (P Q lag : nat) (orc : list F) (oe : F) (o : list F)
  : list (option (@value F)) :=
  [Some (VArr isreal x); Some (vint P); Some (vint Q); Some (vint lag); Some (VArr false orc); Some (VF oe)]
  ++ map (fun v => Some (VF v)) o.

Definition arma_estimate_spec (x : list F) (P Q lag : nat) (orc : list F) : @outcome F :=
  match arma_estimate lsm_marple (fun _ _ => orc) x P Q lag with
  | inl EValue => OErr ValueError
  | inl EAssert => OErr AssertionError
  | inl EIndex => OErr IndexError
  | inr (a, b, rho) => ORet [VArr false a; VArr false b; VF rho]
  end.

Definition tie_arma_estimate (p : program) (isreal : bool) (x : list F) (P Q lag : nat) (orc : list F) (oe : F) (o : list F) : bool :=
  match run feq (@nostop F) p (arma_estimate_args isreal x P Q lag orc oe o), arma_estimate_spec x P Q lag orc with
  | ORet [VArr false a'; VArr false b'; VF rho'], ORet [VArr false a; VArr false b; VF rho] =>
      leq feq a' a && leq feq b' b && feq rho' rho
  | OErr ValueError, OErr ValueError | OErr AssertionError, OErr AssertionError | OErr IndexError, OErr IndexError => true
  | _, _ => false
  end.
End Tie.

(* ---- the exact instance *)
Definition q_arma_estimate := @tie_arma_estimate QcC qcc_ops qfeq.
