(* Model of /repo/src/spectrum/window.py: every window_* generator, the create_window factory
   (interpreting the tables that tools/props/_c20_translate.py regenerates from the source on every
   run), enbw() and the Window object's three reported quantities.

   Definitions only.  Polymorphic in the field operations [Ops F] and in a record [TOps F] of the
   real-analytic library functions the code calls (cos sin exp log sqrt abs pi, numpy.i0, comparisons,
   and scipy's chebwin as an oracle).  The same terms are
     - reasoned about at F = R (stdlib Reals)             : Proofs/Window*.v, Properties/C20.v
     - executed at F = float (PrimFloat binary64)          : Instances/FloatWin.v, correspondence run
     - executed at F = Qc for the purely algebraic windows : Examples.
   The operation ORDER of every formula is the one of the Python source (so that the binary64 run
   differs from numpy only in the transcendental functions). *)
Require Import Spectrum.Theory.Ops Spectrum.Theory.Vec.
From Coq Require Import String Ascii.
Notation length := List.length.
Local Open Scope string_scope.

Class TOps (F : Type) := mkTOps {
  tcos : F -> F; tsin : F -> F; texp : F -> F; tln : F -> F; tsqrt : F -> F; tabs : F -> F;
  tpi : F;
  tI0 : F -> F;                  (* numpy.i0 : modified Bessel function of the first kind, order 0 *)
  tltb : F -> F -> bool;         (* a <  b *)
  tleb : F -> F -> bool;         (* a <= b *)
  teqb : F -> F -> bool;         (* a == b *)
  tcheb : nat -> F -> list F     (* scipy.signal.windows.chebwin(N, at) : oracle *)
}.

Section WindowModel.
Context {F : Type} {OF : Ops F} {TF : TOps F}.
Local Open Scope F_scope.

(* ---- numbers: integers embedded by binary recursion (exact in binary64 below 2^53), decimal
        literals as correctly rounded quotients of two integers (= Python's float literal) *)
Fixpoint ofpos (p : positive) : F :=
  match p with xH => 1 | xO q => two * ofpos q | xI q => two * ofpos q + 1 end.
Definition ofZ (z : Z) : F := match z with Z0 => 0 | Zpos p => ofpos p | Zneg p => - ofpos p end.
Definition ofn (n : nat) : F := ofZ (Z.of_nat n).
Definition lit (n : Z) (d : positive) : F := ofZ n / ofpos d.
Definition half : F := lit 1 2.

(* index families: the sample index is a binary integer (so that the binary64 run costs O(log i)
   per sample, not O(i)); [mkz n f] = [f 0; f 1; ...; f (n-1)]  (= mk n (f o Z.of_nat), Proofs/WindowBridge.v) *)
Fixpoint zseq (s : Z) (n : nat) : list Z := match n with O => [] | S k => s :: zseq (s + 1)%Z k end.
Definition mkz (n : nat) (f : Z -> F) : list F := map f (zseq 0%Z n).

(* numpy.linspace(a, b, N)[i]  (endpoint=True): arange(N)*step + a, last element overwritten by b;
   N = 1 gives [a].  NZ = Z.of_nat N is passed in (computed once per window). *)
Definition linspace (a b : F) (NZ i : Z) : F :=
  if (NZ =? 1)%Z then a
  else if (i =? NZ - 1)%Z then b
  else ofZ i * ((b - a) / ofZ (NZ - 1)) + a.

(* numpy.sinc(x) = sin(pi x)/(pi x), 1 at x = 0 (numpy evaluates the quotient at 1e-20 there,
   which is 1.0 in binary64; the documented value 1 is the specification used here) *)
Definition sinc (x : F) : F := if teqb x 0 then 1 else let y := tpi * x in tsin y / y.

Definition sq (x : F) : F := x * x.
Definition cube (x : F) : F := x * x * x.
Definition ones (N : nat) : list F := mkz N (fun _ => 1).
(* "if N == 1: return ones(1)" *)
Definition unless1 (N : nat) (f : Z -> F) : list F := if (N =? 1)%nat then [1] else mkz N f.

(* ---------------------------------------------------------------- the generators *)
Definition window_rectangle (N : nat) : list F := ones N.

(* numpy.bartlett / hamming / hanning (numpy 2.x): n = arange(1-M, M, 2) *)
Definition np_n (NZ i : Z) : F := ofZ (1 - NZ + 2 * i).
Definition window_bartlett (N : nat) : list F :=
  let NZ := Z.of_nat N in
  unless1 N (fun i => let n := np_n NZ i in
                      if tleb n 0 then 1 + n / ofZ (NZ - 1) else 1 - n / ofZ (NZ - 1)).
Definition window_hamming (N : nat) : list F :=
  let NZ := Z.of_nat N in
  unless1 N (fun i => lit 54 100 + lit 46 100 * tcos (tpi * np_n NZ i / ofZ (NZ - 1))).
Definition window_hann (N : nat) : list F :=
  let NZ := Z.of_nat N in
  unless1 N (fun i => half + half * tcos (tpi * np_n NZ i / ofZ (NZ - 1))).

(* numpy.kaiser(N, beta) *)
Definition window_kaiser (N : nat) (beta : F) : list F :=
  let NZ := Z.of_nat N in
  unless1 N (fun i => let alpha := ofZ (NZ - 1) / two in
                      tI0 (beta * tsqrt (1 - sq ((ofZ i - alpha) / alpha))) / tI0 beta).

Definition window_blackman (N : nat) (alpha : F) : list F :=
  let NZ := Z.of_nat N in
  let a0 := (1 - alpha) / two in let a1 := half in let a2 := alpha / two in
  unless1 N (fun i => let k := ofZ i / ofZ (NZ - 1) in
                      a0 - a1 * tcos (two * tpi * k) + a2 * tcos (ofZ 4 * tpi * k)).

Definition window_gaussian (N : nat) (alpha : F) : list F :=
  let NZ := Z.of_nat N in
  mkz N (fun i => let t := linspace (- (ofZ (NZ - 1) / two)) (ofZ (NZ - 1) / two) NZ i in
                  texp (- half * sq (alpha * t / (ofZ NZ / two)))).

Definition window_chebwin (N : nat) (att : F) : list F := tcheb N att.

Definition window_cosine (N : nat) : list F :=
  let NZ := Z.of_nat N in
  unless1 N (fun i => tsin (tpi * ofZ i / ofZ (NZ - 1))).

Definition window_lanczos (N : nat) : list F :=
  let NZ := Z.of_nat N in
  unless1 N (fun i => sinc (two * ofZ i / ofZ (NZ - 1) - 1)).

Definition bh_a0 : F := lit 62 100.
Definition bh_a1 : F := lit 48 100.
Definition bh_a2 : F := lit 38 100.
Definition window_bartlett_hann (N : nat) : list F :=
  let NZ := Z.of_nat N in
  unless1 N (fun i => bh_a0 - bh_a1 * tabs (ofZ i / ofZ (NZ - 1) - half)
                      - bh_a2 * tcos (two * tpi * ofZ i / ofZ (NZ - 1))).

Definition coeff4 (N : nat) (a0 a1 a2 a3 : F) : list F :=
  let NZ := Z.of_nat N in
  unless1 N (fun i => let n := ofZ i in let N1 := ofZ (NZ - 1) in
     a0 - a1 * tcos (two * tpi * n / N1) + a2 * tcos (ofZ 4 * tpi * n / N1) - a3 * tcos (ofZ 6 * tpi * n / N1)).
Definition window_nuttall (N : nat) : list F :=
  coeff4 N (lit 355768 1000000) (lit 487396 1000000) (lit 144232 1000000) (lit 12604 1000000).
Definition window_blackman_nuttall (N : nat) : list F :=
  coeff4 N (lit 3635819 10000000) (lit 4891775 10000000) (lit 1365995 10000000) (lit 106411 10000000).
Definition window_blackman_harris (N : nat) : list F :=
  coeff4 N (lit 35875 100000) (lit 48829 100000) (lit 14128 100000) (lit 1168 100000).

Definition bohman_f (x : F) : F :=
  (1 - tabs x) * tcos (tpi * tabs x) + 1 / tpi * tsin (tpi * tabs x).
Definition window_bohman (N : nat) : list F :=
  let NZ := Z.of_nat N in mkz N (fun i => bohman_f (linspace (- (1)) 1 NZ i)).

(* tukey: x = linspace(0,1,N); the samples with x < r/2 get the cosine taper, the result is
   concatenate((w, ones(N - 2 len w), flipud(w))) *)
Definition tukey_head (N : nat) (r : F) : list F :=
  let NZ := Z.of_nat N in
  map (fun x => half * (1 + tcos (two * tpi / r * (x - r / two))))
      (filter (fun x => tltb x (r / two)) (mkz N (linspace 0 1 NZ))).
Definition window_tukey (N : nat) (r : F) : list F :=
  if (N =? 1)%nat then [1]
  else if teqb r 0 then ones N
  else if teqb r 1 then window_hann N
  else let w := tukey_head N r in (w ++ ones (N - 2 * length w) ++ rev w)%list.

(* parzen: three index sets by where(), concatenated as (w3, w1, w2) *)
Definition parzen_in (NZ : Z) (y : F) : F := 1 - ofZ 6 * sq (tabs y / (ofZ NZ / two)) + ofZ 6 * cube (tabs y / (ofZ NZ / two)).
Definition parzen_out (NZ : Z) (y : F) : F := two * cube (1 - tabs y / (ofZ NZ / two)).
Definition window_parzen (N : nat) : list F :=
  let NZ := Z.of_nat N in
  let n := mkz N (linspace (- (ofZ (NZ - 1) / two)) (ofZ (NZ - 1) / two) NZ) in
  let q := ofZ (NZ - 1) / ofZ 4 in
  let n1 := filter (fun y => tleb (tabs y) q) n in
  let n2 := filter (fun y => tltb q y) n in
  let n3 := filter (fun y => tltb y (- q)) n in
  (map (parzen_out NZ) n3 ++ map (parzen_in NZ) n1 ++ map (parzen_out NZ) n2)%list.

Definition ft_a0 : F := lit 21557895 100000000.
Definition ft_a1 : F := lit 41663158 100000000.
Definition ft_a2 : F := lit 277263158 1000000000.
Definition ft_a3 : F := lit 83578947 1000000000.
Definition ft_a4 : F := lit 6947368 1000000000.
Definition flattop_f (x : F) : F :=
  ft_a0 - ft_a1 * tcos x + ft_a2 * tcos (two * x) - ft_a3 * tcos (ofZ 3 * x) + ft_a4 * tcos (ofZ 4 * x).
(* mode: true = "periodic", false = "symmetric" *)
Definition window_flattop (N : nat) (periodic : bool) : list F :=
  let NZ := Z.of_nat N in
  if periodic then mkz N (fun i => flattop_f (two * tpi * ofZ i / ofZ NZ))
  else unless1 N (fun i => flattop_f (two * tpi * ofZ i / ofZ (NZ - 1))).

(* taylor *)
Fixpoint prodL (l : list F) : F := match l with [] => 1 | x :: t => x * prodL t end.
Definition signpow (m : nat) : F := if Nat.even m then 1 else - (1).     (* (-1)**m *)
Definition taylor_A (sll : F) : F :=
  let B := texp (tln (ofZ 10) * (- sll / ofZ 20)) in          (* 10 ** (-sll/20) *)
  tln (B + tsqrt (sq B - 1)) / tpi.
Definition taylor_ma (nbar : nat) : list nat := seq 1 (nbar - 1).
Definition taylor_Fm (nbar : nat) (A : F) (m : nat) : F :=
  let s2 := sq (ofn nbar) / (sq A + sq (ofn nbar - half)) in
  let numer := signpow (m + 1) * prodL (map (fun j => 1 - sq (ofn m) / s2 / (sq A + sq (ofn j - half))) (taylor_ma nbar)) in
  let denom := two * prodL (map (fun j => 1 - sq (ofn m) / sq (ofn j)) (filter (fun j => negb (j =? m)%nat) (taylor_ma nbar))) in
  numer / denom.
(* W(n) for a real abscissa n; Fm = [(m, F_m)] *)
Definition taylor_W (NZ : Z) (Fm : list (F * F)) (n : F) : F :=
  two * sumL (map (fun mf => snd mf * tcos (two * tpi * fst mf * (n - ofZ NZ / two + half) / ofZ NZ)) Fm) + 1.
Definition window_taylor (N nbar : nat) (sll : F) : list F :=
  let NZ := Z.of_nat N in
  let A := taylor_A sll in
  let Fm := map (fun m => (ofn m, taylor_Fm nbar A m)) (taylor_ma nbar) in
  let scale := taylor_W NZ Fm (ofZ (NZ - 1) / two) in
  mkz N (fun i => taylor_W NZ Fm (ofZ i) / scale).

Definition nhalf (NZ i : Z) : F := linspace (- (ofZ NZ / two)) (ofZ NZ / two) NZ i.
Definition window_riesz (N : nat) : list F :=
  let NZ := Z.of_nat N in mkz N (fun i => 1 - sq (tabs (nhalf NZ i / (ofZ NZ / two)))).
Definition window_riemann (N : nat) : list F :=
  let NZ := Z.of_nat N in mkz N (fun i => sinc (two * nhalf NZ i / ofZ NZ)).
Definition window_poisson (N : nat) (alpha : F) : list F :=
  let NZ := Z.of_nat N in mkz N (fun i => texp (- alpha * tabs (nhalf NZ i) / (ofZ NZ / two))).
Definition window_poisson_hanning (N : nat) (alpha : F) : list F :=
  map (fun p => fst p * snd p) (combine (window_hann N) (window_poisson N alpha)).
Definition window_cauchy (N : nat) (alpha : F) : list F :=
  let NZ := Z.of_nat N in mkz N (fun i => 1 / (1 + sq (alpha * nhalf NZ i / (ofZ NZ / two)))).

(* ---------------------------------------------------------------- enbw() and the Window object *)
Definition enbw (w : list F) : F := ofn (length w) * sumL (map sq w) / sq (sumL w).

(* ---------------------------------------------------------------- the factory *)
Inductive lit_t := LNum (n : Z) (d : positive) | LInt (z : Z) | LStr (s : string) | LNone.
Inductive pval := PF (x : F) | PZ (z : Z) | PS (s : string) | PNone.
Inductive werr := EAssert | EValue | EType | EUnknownGen.
Inductive wres (A : Type) := WOk (a : A) | WErr (e : werr).
Arguments WOk {A} a. Arguments WErr {A} e.

Definition pval_of_lit (l : lit_t) : pval :=
  match l with LNum n d => PF (lit n d) | LInt z => PZ z | LStr s => PS s | LNone => PNone end.

Fixpoint lookup {A : Type} (k : string) (l : list (string * A)) : option A :=
  match l with [] => None | (k', v) :: t => if String.eqb k k' then Some v else lookup k t end.
Definition mem (k : string) (l : list string) : bool := existsb (String.eqb k) l.
Definition keys {A : Type} (l : list (string * A)) : list string := map fst l.

Definition getF (env : list (string * pval)) (k : string) : F :=
  match lookup k env with Some (PF x) => x | Some (PZ z) => ofZ z | _ => 0 end.
Definition getN (env : list (string * pval)) (k : string) : nat :=
  match lookup k env with Some (PZ z) => Z.to_nat z | _ => O end.
Definition getS (env : list (string * pval)) (k : string) : string :=
  match lookup k env with Some (PS s) => s | _ => "" end.

(* f(N, **dargs): the signature's defaults overridden by the keyword arguments; a keyword that is
   not a parameter of f is a TypeError *)
Definition bind (sig : list (string * lit_t)) (kw : list (string * pval)) : wres (list (string * pval)) :=
  if forallb (fun a => mem (fst a) (keys sig)) kw
  then WOk (kw ++ map (fun p => (fst p, pval_of_lit (snd p))) sig)%list
  else WErr EType.

(* the body of each generator, by the name window_names maps to *)
Definition run_gen (g : string) (env : list (string * pval)) (N : nat) : wres (list F) :=
  if g =? "window_rectangle" then WOk (window_rectangle N)
  else if g =? "window_kaiser" then
    (if getS env "method" =? "numpy" then WOk (window_kaiser N (getF env "beta")) else WErr EUnknownGen)
  else if g =? "window_blackman" then WOk (window_blackman N (getF env "alpha"))
  else if g =? "window_bartlett" then WOk (window_bartlett N)
  else if g =? "window_hamming" then WOk (window_hamming N)
  else if g =? "window_hann" then WOk (window_hann N)
  else if g =? "window_gaussian" then WOk (window_gaussian N (getF env "alpha"))
  else if g =? "window_chebwin" then WOk (window_chebwin N (getF env "attenuation"))
  else if g =? "window_cosine" then WOk (window_cosine N)
  else if g =? "window_lanczos" then WOk (window_lanczos N)
  else if g =? "window_bartlett_hann" then WOk (window_bartlett_hann N)
  else if g =? "window_nuttall" then WOk (window_nuttall N)
  else if g =? "window_blackman_nuttall" then WOk (window_blackman_nuttall N)
  else if g =? "window_blackman_harris" then WOk (window_blackman_harris N)
  else if g =? "window_bohman" then WOk (window_bohman N)
  else if g =? "window_tukey" then
    let r := getF env "r" in
    if tleb 0 r && tleb r 1 then WOk (window_tukey N r) else WErr EAssert
  else if g =? "window_parzen" then WOk (window_parzen N)
  else if g =? "window_flattop" then
    let m := getS env "mode" in
    if m =? "periodic" then WOk (window_flattop N true)
    else if m =? "symmetric" then WOk (window_flattop N false) else WErr EAssert
  else if g =? "window_taylor" then WOk (window_taylor N (getN env "nbar") (getF env "sll"))
  else if g =? "window_riesz" then WOk (window_riesz N)
  else if g =? "window_riemann" then WOk (window_riemann N)
  else if g =? "window_poisson" then WOk (window_poisson N (getF env "alpha"))
  else if g =? "window_poisson_hanning" then WOk (window_poisson_hanning N (getF env "alpha"))
  else if g =? "window_cauchy" then WOk (window_cauchy N (getF env "alpha"))
  else WErr EUnknownGen.

Definition call_gen (sigs : list (string * list (string * lit_t))) (g : string)
                    (kw : list (string * pval)) (N : nat) : wres (list F) :=
  match lookup g sigs with
  | None => WErr EUnknownGen
  | Some sig => match bind sig kw with WErr e => WErr e | WOk env => run_gen g env N end
  end.

Definition lower_ascii (c : ascii) : ascii :=
  let n := nat_of_ascii c in if ((65 <=? n) && (n <=? 90))%nat then ascii_of_nat (n + 32) else c.
Fixpoint lower (s : string) : string :=
  match s with EmptyString => EmptyString | String c t => String (lower_ascii c) (lower t) end.

(* create_window(N, name, **kargs), over the three tables read from the source:
   names  = window_names, routes = windows_with_parameters (keys only matter), sigs = def signatures *)
Definition create_window (names : list (string * string)) (routes : list (string * list string))
                         (sigs : list (string * list (string * lit_t)))
                         (N : nat) (name : option string) (kw : list (string * pval)) : wres (list F) :=
  let name := lower (match name with None => "rectangle" | Some s => s end) in
  match lookup name names with
  | None => WErr EAssert
  | Some g =>
    match lookup name routes with
    | None => match kw with [] => call_gen sigs g [] N | _ => WErr EValue end
    | Some allowed =>
      if forallb (fun a => mem (fst a) allowed) kw then call_gen sigs g kw N else WErr EValue
    end
  end.

(* Window(N, name, **kargs): (data, N, enbw) as reported by the three getters *)
Definition window_object (names : list (string * string)) (routes : list (string * list string))
                         (sigs : list (string * list (string * lit_t)))
                         (N : nat) (name : option string) (kw : list (string * pval)) : wres (list F * nat * F) :=
  if (N =? 0)%nat then WErr EAssert else
  match name with
  | None => WErr EValue
  | Some s => if mem s (keys names)
              then match create_window names routes sigs N name kw with
                   | WErr e => WErr e
                   | WOk w => WOk (w, N, enbw w)
                   end
              else WErr EValue
  end.
End WindowModel.
Arguments PF {F} x. Arguments PZ {F} z. Arguments PS {F} s. Arguments PNone {F}.
Arguments WOk {A} a. Arguments WErr {A} e.

(* ---------------------------------------------------------------- the documentation side
   (what DESIGN.md / the property statement call "documented"): the 29 names, the alias pairs, and
   the shape parameters each name accepts *)
Definition documented_names : list string :=
  ["bartlett_hann"; "blackman_harris"; "blackman_nuttall"; "bohman"; "blackman"; "chebwin"; "gaussian";
   "hamming"; "kaiser"; "lanczos"; "sinc"; "poisson"; "tukey"; "nuttall"; "parzen"; "flattop"; "riesz";
   "riemann"; "hann"; "hanning"; "poisson_hanning"; "rectangular"; "rectangle"; "bartlett"; "triangular";
   "cosine"; "sine"; "cauchy"; "taylor"].
Definition documented_aliases : list (string * string) :=
  [("hanning", "hann"); ("sinc", "lanczos"); ("rectangular", "rectangle"); ("triangular", "bartlett"); ("sine", "cosine")].
Definition documented_params (name : string) : list string :=
  if name =? "kaiser" then ["beta"]
  else if name =? "blackman" then ["alpha"]
  else if name =? "cauchy" then ["alpha"]
  else if name =? "gaussian" then ["alpha"]
  else if name =? "poisson" then ["alpha"]
  else if name =? "poisson_hanning" then ["alpha"]
  else if name =? "flattop" then ["mode"]
  else if name =? "chebwin" then ["attenuation"]
  else if name =? "tukey" then ["r"]
  else if name =? "taylor" then ["nbar"; "sll"]
  else [].

(* the literals a0..a4 of the cosine-sum generators as this model uses them (numerator, denominator);
   the translator re-reads them from the source on every run and [coeffs_ok] compares *)
Definition cq (n : Z) (d : positive) : Z * positive := (n, d).
Definition model_coeffs : list (string * list (string * (Z * positive))) :=
  [("window_nuttall", [("a0", cq 355768 1000000); ("a1", cq 487396 1000000); ("a2", cq 144232 1000000); ("a3", cq 12604 1000000)]);
   ("window_blackman_nuttall", [("a0", cq 3635819 10000000); ("a1", cq 4891775 10000000); ("a2", cq 1365995 10000000); ("a3", cq 106411 10000000)]);
   ("window_blackman_harris", [("a0", cq 35875 100000); ("a1", cq 48829 100000); ("a2", cq 14128 100000); ("a3", cq 1168 100000)]);
   ("window_flattop", [("a0", cq 21557895 100000000); ("a1", cq 41663158 100000000); ("a2", cq 277263158 1000000000);
                       ("a3", cq 83578947 1000000000); ("a4", cq 6947368 1000000000)]);
   ("window_bartlett_hann", [("a0", cq 62 100); ("a1", cq 48 100); ("a2", cq 38 100)])].
Definition mcoef {F : Type} {OF : Ops F} (g a : string) : F :=
  match lookup g model_coeffs with
  | Some l => match lookup a l with Some (n, d) => lit n d | None => Ops.zero end
  | None => Ops.zero
  end.
