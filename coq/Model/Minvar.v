(* Model of spectrum/minvar.py: minvar (Musicus' procedure on top of arburg).  Definitions only.

   The code (minvar.py:80-135):
     psi = zeros(NFFT)
     A, P, k = arburg(X, order-1);  A = [1] + A
     for K in 0..order-1:
         SUM = sum_{I < order-K} float(order-K-2I) * conj(A[I]) * A[I+K]
         SUM = SUM / P
         if K != 0: psi[NFFT-K] = conj(SUM)
         psi[K] = SUM                      (written AFTER psi[NFFT-K]: it wins when NFFT = 2K)
     PSD = sampling / real(fft(psi, NFFT))
     return PSD, A, k
   The two stores are modelled as sequential updates of the list, so the aliased grids
   NFFT < 2*order-1 (the pinned test uses NFFT=16, order=15) are the code's too.  psi[K] with
   K >= NFFT is numpy's IndexError: [None].  order <= 1 makes arburg raise: [None]. *)
Require Import Spectrum.Theory.Ops Spectrum.Theory.Sum Spectrum.Theory.Vec Spectrum.Theory.Dft
               Spectrum.Model.Levinson Spectrum.Model.Burg.

Section Minvar.
Context {F : Type} {OF : Ops F}.
Local Open Scope F_scope.

(* float(a - b) for naturals a, b (the weight order-K-2I is negative in the second half of the I loop) *)
Definition ofdiff (a b : nat) : F := if (b <=? a)%nat then ofnat (a - b) else - ofnat (b - a).

(* SUM of the inner loop for lag K (before the division by P); A carries its leading 1 *)
Definition mv_sum (m : nat) (A : list F) (K : nat) : F :=
  sumL (mk (m - K) (fun I => ofdiff (m - K) (2 * I) * conj (nthF A I) * nthF A (I + K))).

(* l[i] = v (in range; the model never calls it out of range) *)
Fixpoint upd (l : list F) (i : nat) (v : F) : list F :=
  match l, i with
  | [], _ => []
  | _ :: t, O => v :: t
  | x :: t, S i' => x :: upd t i' v
  end.

Definition psi_step (m nfft : nat) (A : list F) (P : F) (psi : list F) (K : nat) : list F :=
  let s := mv_sum m A K / P in
  let psi1 := if (K =? 0)%nat then psi else upd psi (nfft - K) (conj s) in
  upd psi1 K s.

Definition psi_loop (m nfft : nat) (A : list F) (P : F) : list F :=
  fold_left (psi_step m nfft A P) (seq 0 m) (mk nfft (fun _ => 0)).

(* minvar(X, order, sampling, NFFT) -> (PSD, A with leading 1, reflection coefficients) *)
Definition minvar (tw : Z -> F) (x : list F) (m : nat) (sampling : F) (nfft : nat)
  : option (list F * list F * list F) :=
  match arburg x (m - 1) no_stop with
  | None => None
  | Some (a, P, k) =>
      if (nfft <? m)%nat then None
      else let A := 1 :: a in
           Some (map (fun z => sampling / re z) (dft tw nfft (psi_loop m nfft A P)), A, k)
  end.

(* the same with the AR triple supplied from outside (correspondence: the implementation's own Burg output) *)
Definition minvar_from (tw : Z -> F) (a : list F) (P : F) (m : nat) (sampling : F) (nfft : nat) : list F :=
  map (fun z => sampling / re z) (dft tw nfft (psi_loop m nfft (1 :: a) P)).

(* the autocorrelation lags r[0..p] implied by (r0, reflection coefficients): inverse Levinson,
   r[j+1] = -k_{j+1} P_j - sum_{i<j} a_j[i] r[j-i]; state (r, a, P) *)
Definition acf_step (st : list F * list F * F) (k : F) : list F * list F * F :=
  let '(r, a, P) := st in
  let j := length a in
  (r ++ [- (k * P) - sumL (mk j (fun i => nthF a i * nthF r (j - i)))], stepup a k, P * (1 - k * conj k)).
Definition acf_of_refl (r0 : F) (ks : list F) : list F :=
  let '(r, _, _) := fold_left acf_step ks ([r0], [], r0) in r.
End Minvar.
