#!/bin/bash
# compile one file with project flags
cd /tmp/vw/p2-C05/coq && timeout ${T:-600} coqc -R . Spectrum -w -notation-overridden,-deprecated-hint-without-locality,-deprecated-instance-without-locality,-ambiguous-paths "$1" 2>&1 | head -${H:-40}
