"""C03 — Estimates are quadratic in signal amplitude."""
import json
import numpy as np
import vlib
from vlib import cz, czl, tolq
from props import _estimators as E

LEVEL_TEXT = ("Coq theorems in the abstract ordered *-field (every length, order, lag, NFFT; every non-zero scalar c; |c|^2 := c conj c): the models of "
              "CORRELATION, LEVINSON, arburg (any homogeneous order rule; FPE and the five logarithmic criteria are), speriodogram (1-D, 2-D, the "
              "Periodogram object under any sequence of operations), CORRELOGRAMPSD, aryule / lpc, arcovar / modcovar (lstsq specification: same "
              "solution set; executable solver: same output; relative imaginary-part assertion: same branch; pcovar/pmodcovar rho), minvar, pmtm "
              "(eigenspectra times c, identical weights and pass count for every pass bound, MultiTapering psd) and eigen / pmusic / pev over the SVD "
              "specification ((S,Vh) spec for FB(x) => (|c| S, Vh) spec for FB(c x); decisions unchanged; MUSIC unchanged, EV times |c|) are "
              "homogeneous; class level: for every pipeline table stored(k*S) = k*stored(S), and over the table GENERATED from the snapshot on this "
              "run every class is routed to a proved-homogeneous estimator and every AR/MA/ARMA class hands the estimated variance to arma2psd "
              "(linear in rho).  arma.ma, arma.arma_estimate and the parma / pma objects (the model of C15): same AR / MA coefficients, |c|^2 rho, "
              "same exception, stored PSD times |c|^2, for any covariance-method oracles that agree on the two systems they are handed (proved for "
              "the executable solver of Model/Ls.v; for C15's elimination oracle when no pivot vanishes); guard: residual not identically zero.  "
              "DaniellPeriodogram (new model Model/Daniell.v: bin-count parity decides the layout, bin 0 is never averaged in) is linear in the "
              "periodogram bins, hence homogeneous for ANY c.  "
              "Models are tied to the code by exact in-Coq correspondence at scaled inputs (here: CORRELATION, LEVINSON, arburg, "
              "aryule, arcovar, modcovar, speriodogram, arma_estimate, DaniellPeriodogram (also at binary64); the other models by the correspondence runs of C01 C14 C15 C16 C17 C19); every estimator "
              "(function and class form) is also covered by a property-directed search comparing estimate(c*x) with |c|^p * estimate(x).")
TRUSTED = ["Coq 8.16.1 kernel + vm_compute",
           "hand-written models coq/Model/{Corr,Levinson,Burg,Periodogram,Yule,Ls,Minvar,Mtm,Eigen,Arma2psd,ArmaEst,ArmaCall,Daniell}.v (tie = correspondence runs, here at "
           "scaled inputs for Corr/Levinson/Burg/Yule/Ls/Periodogram/ArmaEst/Daniell, in C15 for ArmaEst and its class pipeline, in C16/C17/C19 for Minvar/Eigen/Mtm)",
           "arcovar_marple / scipy lstsq inside arma_estimate are oracles of the model: the arma_estimate / parma theorems assume they return the same "
           "coefficients for a system and its |c|^2 multiple (true of any solver of the normal equations of a full-rank system)",
           "fail-closed AST translator tools/props/_pipelines.py and the interpreter coq/Model/PipelineLib.v (validated against real objects by C08)",
           "numpy.linalg.svd / scipy.linalg.lstsq / numpy.fft / dpss enter as specifications (Section variables with hypotheses), argmin of "
           "aic_eigen / mdl_eigen as an oracle argument",
           "log_criteria_homogeneous is stated over the standard-library reals (axioms: sig_forall_dec, sig_not_dec, "
           "functional_extensionality_dep, classic); all other theorems are axiom-free",
           "Python harness"]
UNPROVED = ["arcovar_marple / modcovar_marple as stand-alone recursions: search only (inside arma_estimate arcovar_marple is the oracle lsm)",
            "invariance of the argmin of aic_eigen / mdl_eigen (logarithms; an oracle argument of the Eigen model): search only",
            "that numpy's svd / lstsq return related factorisations for x and c*x (theorems are over their specifications); binary64 rounding"]
ASSUMPTIONS = ["exact arithmetic in the theorems",
               "non-degenerate stages as hypotheses of the theorems: non-zero Levinson / Burg denominators, no zero bin in real(fft(psi)) of minvar "
               "(proved on a proper grid), regular adaptive multitaper run (proved from sig2 > 0, 0 < lambda <= 1, S0 <> 0), eps > 0 and S_0 > 0 "
               "and no zero EV denominator bin (bin-by-bin version without it)"]
RULE = ("data: noise, tones in noise, integer (incl. 16-bit scale), AR-generated; real and complex; N 16..64; scalars |c| log-uniform in "
        "[1e-3,1e3] with random sign/phase; every functional estimator and every PSD class with orders in their domain; "
        "non-trivial = non-constant data and order >= 2 where an order exists; distinct = distinct (estimator, config, data, c); "
        "plus: every class with the operation history psd / p.data *= c / psd on ONE object, and the Fourier family on complex-typed data "
        "with zero imaginary part times a genuinely complex c")
GEN_NAMES = ['class_scale', 'class_estimator_routing', 'model_classes_rho_routed']

PRE = """Require Import Spectrum.Theory.Ops Spectrum.Theory.Vec Spectrum.Theory.Dft Spectrum.Model.Levinson Spectrum.Model.Burg Spectrum.Model.Corr
               Spectrum.Model.Yule Spectrum.Model.Ls Spectrum.Model.Periodogram Spectrum.Instances.QcC Spectrum.Instances.QcCTw.
From Coq Require Import QArith Qcanon.
Local Open Scope Z_scope.
Definition res_close (tol : Qc) (r : option (list QcC * QcC * list QcC)) (raised : bool) (ia : list QcC) (ip : QcC) (ik : list QcC) : bool :=
  match r with
  | None => raised
  | Some (a, p, k) => negb raised && qcc_close_rel tol (dy 1 0) a ia && qcc_close_rel tol (dy 1 0) [p] [ip] && qcc_close_rel tol (dy 1 0) k ik
  end.
(* the model at the scaled input c*x against the implementation at c*x, and the model's own scaling law *)
Definition burg_scaled tol (c : QcC) (x : list QcC) (order : nat) raised ia ip ik :=
  res_close tol (@arburg _ qcc_ops (@vscale _ qcc_ops c x) order no_stop) raised ia ip ik.
Definition lev_scaled tol (s : QcC) (r : list QcC) (order : nat) raised ia ip ik :=
  res_close tol (@levinson _ qcc_ops (@vscale _ qcc_ops s r) order false) raised ia ip ik.
Definition acorr_scaled tol (c : QcC) (x : list QcC) (ml : nat) (nm : cnorm) (ir : list QcC) :=
  match @acorr _ qcc_ops (@vscale _ qcc_ops c x) ml nm with None => false | Some r => qcc_close_rel tol (dy 1 0) r ir end.
Definition yule_scaled tol (c : QcC) (x : list QcC) (order : nat) (nm : cnorm) raised ia ip ik :=
  res_close tol (match @aryule _ qcc_ops (@vscale _ qcc_ops c x) order nm true with inl _ => None | inr st => Some st end) raised ia ip ik.
Definition tol4 : QcC := (Q2Qc (1 # 10000), Q2Qc 0).
Definition covar_scaled tol (s : Qc) (modified : bool) (c : QcC) (x : list QcC) (p : nat) (raised : bool) (ia : list QcC) (ie : QcC) :=
  match (if modified then @modcovar _ qcc_ops tol4 (@vscale _ qcc_ops c x) p else @arcovar _ qcc_ops tol4 (@vscale _ qcc_ops c x) p) with
  | None => raised
  | Some (a, e) => negb raised && qcc_close_rel tol (dy 1 0) a ia && qcc_close_rel tol s [e] [ie]
  end.
(* speriodogram on the exact 4-point grid, scale_by_freq off (2*pi is then not read) *)
Definition per_scaled tol (c : QcC) (x w : list QcC) (isreal : bool) (dt : pyval) (ipsd : list QcC) :=
  qcc_close_rel tol (dy 1 0) (@speriodogram _ qcc_ops tw4 (cz (0,0) (0,0)) (@vscale _ qcc_ops c x) w (Some 4%nat) isreal dt PyFalse (cz (1,0) (0,0))) ipsd.
"""

PRE_DANIELL = """Require Import Spectrum.Theory.Ops Spectrum.Theory.Vec Spectrum.Theory.Dft Spectrum.Model.Periodogram Spectrum.Model.Daniell
               Spectrum.Instances.QcC Spectrum.Instances.QcCTw.
From Coq Require Import QArith Qcanon.
Local Open Scope Z_scope.
Definition dan_smooth_case tol (psd : list QcC) (P : nat) (inew : list QcC) : bool :=
  qcc_close_rel tol (dy 1 0) (@daniell_smooth _ qcc_ops psd P) inew.
Definition dan_full_case tol (c : QcC) (x w : list QcC) (P : nat) (isreal : bool) (dt : pyval) (inew : list QcC) : bool :=
  qcc_close_rel tol (dy 1 0)
    (@daniell _ qcc_ops tw4 (cz (0,0) (0,0)) (@vscale _ qcc_ops c x) w P (Some 4%nat) isreal dt PyFalse (cz (1,0) (0,0))) inew.
"""
PRE_DANIELL_F = """From Coq Require Import PrimFloat.
Require Import Spectrum.Theory.Ops Spectrum.Theory.Vec Spectrum.Model.Daniell Spectrum.Instances.FloatC Spectrum.Instances.QcC.
Definition dan_smooth_float (tol : float) (psd : list float) (P : nat) (inew : list float) : bool :=
  f_close_rel tol 0x1p-1000%float (@daniell_smooth _ f_ops psd P) inew.
Local Open Scope float_scope.
"""


def rand_scalar(rng, cplx):
    mag = 10.0 ** rng.uniform(-3, 3)
    if cplx:
        return mag * np.exp(1j * rng.uniform(0, 2 * np.pi))
    return mag * (1 if rng.integers(0, 2) else -1)


def gen(rng, N, cplx):
    kind = str(rng.choice(['noise', 'tone', 'int', 'ar', 'int16'] + (['realc'] if cplx else [])))
    if kind == 'int16':
        x = rng.integers(-32767, 32768, size=N).astype(float) + (1j * rng.integers(-32767, 32768, size=N) if cplx else 0)
        return x, kind
    return E.gen_data(rng, N, cplx, kind)


# ------------------------------------------------------------------ functional estimators
def fn_outputs(name, x, cfg):
    """name -> {output: (array, power p such that out(c x) = |c|^p out(x))}; 'c1' means multiplied by c itself"""
    import spectrum
    from spectrum import (speriodogram, CORRELOGRAMPSD, CORRELATION, xcorr, arburg, aryule, LEVINSON, arcovar, modcovar,
                          arma_estimate, ma, minvar, eigen, pmtm, lpc)
    from spectrum.covar import arcovar_marple
    from spectrum.modcovar import modcovar_marple
    if name == 'speriodogram':
        return {'psd': (speriodogram(x, NFFT=cfg['NFFT'], window=cfg['window'], detrend=False, scale_by_freq=False), 2)}
    if name == 'CORRELOGRAMPSD':
        kw = {} if cfg.get('correlation_method') is None else {'correlation_method': cfg['correlation_method']}
        return {'psd': (CORRELOGRAMPSD(x, lag=cfg['lag'], NFFT=cfg['NFFT'], window=cfg['window'], norm=cfg['norm'], **kw), 2)}
    if name == 'CORRELATION':
        return {'r': (CORRELATION(x, maxlags=cfg['maxlags'], norm=cfg['norm']), 0 if cfg['norm'] == 'coeff' else 2)}
    if name == 'xcorr':
        r, lags = xcorr(x, maxlags=cfg['maxlags'], norm=cfg['norm'])
        return {'r': (r, 0 if cfg['norm'] == 'coeff' else 2), 'lags': (lags, 0)}
    if name == 'arburg':
        a, rho, k = arburg(x, cfg['order'], criteria=cfg.get('criteria'))
        return {'a': (a, 0), 'rho': (rho, 2), 'k': (k, 0)}
    if name == 'aryule':
        kw = {} if cfg.get('allow_singularity') is None else {'allow_singularity': cfg['allow_singularity']}
        a, P, k = aryule(x, cfg['order'], norm=cfg.get('norm', 'biased'), **kw)
        return {'a': (a, 0), 'P': (P, 2), 'k': (k, 0)}
    if name == 'arcovar':
        a, e = arcovar(x, cfg['order']); return {'a': (a, 0), 'e': (e, 2)}
    if name == 'modcovar':
        a, e = modcovar(x, cfg['order']); return {'a': (a, 0), 'e': (e, 2)}
    if name == 'arcovar_marple':
        af, pf, ab, pb, pbv = arcovar_marple(x, cfg['order']); return {'af': (af, 0), 'pf': (pf, 2), 'ab': (ab, 0), 'pb': (pb, 2)}
    if name == 'modcovar_marple':
        a, p, pv = modcovar_marple(x, cfg['order']); return {'a': (a, 0), 'p': (p, 2)}
    if name == 'arma_estimate':
        a, b, rho = arma_estimate(x, cfg['P'], cfg['Q'], cfg['lag']); return {'a': (a, 0), 'b': (b, 0), 'rho': (rho, 2)}
    if name == 'ma':
        b, rho = ma(x, cfg['Q'], cfg['M']); return {'b': (b, 0), 'rho': (rho, 2)}
    if name == 'minvar':
        psd, a, k = minvar(x, cfg['order'], NFFT=cfg['NFFT']); return {'psd': (psd, 2), 'a': (a, 0), 'k': (k, 0)}
    if name in ('music', 'ev'):
        psd, ev = eigen(x, cfg['IP'], NSIG=cfg.get('NSIG'), method=name, threshold=cfg.get('threshold'),
                        NFFT=cfg['NFFT'], criteria=cfg.get('criteria', 'aic'))
        return {'psd': (psd, 0 if name == 'music' else 1), 'singular_values': (ev, 1)}
    if name == 'pmtm':
        Sk, w, ev = pmtm(x, NW=cfg['NW'], k=cfg['k'], NFFT=cfg['NFFT'], method=cfg['method'])
        return {'Sk': (Sk, 'c1'), 'weights': (w, 0), 'eigenvalues': (ev, 0)}
    if name == 'lpc':
        a, e = lpc(x, cfg['order']); return {'a': (a, 0), 'e': (e, 2)}
    raise KeyError(name)


def fn_cfg(name, N, rng, cplx):
    NFFT = int(rng.choice([N, N + 1, 2 * N, 64, 67]))
    NFFT = max(NFFT, N)
    if name == 'speriodogram':
        return {'NFFT': NFFT, 'window': E.pick_window(rng, ['hann', 'hamming', 'rectangular', 'blackman', 'bartlett'])}
    if name == 'CORRELOGRAMPSD':
        lag = int(rng.integers(2, N // 2)); return {'lag': lag, 'NFFT': max(NFFT, 2 * lag + 2), 'window': E.pick_window(rng, ['hamming', 'hann', 'rectangular']),
                                                    'norm': str(rng.choice(['biased', 'unbiased'])),
                                                    'correlation_method': [None, 'xcorr', 'CORRELATION'][int(rng.integers(0, 3))]}
    if name in ('CORRELATION', 'xcorr'):
        return {'maxlags': int(rng.integers(0, N)), 'norm': str(rng.choice(['biased', 'unbiased', 'coeff'])) if name == 'xcorr' else
                rng.choice(['biased', 'unbiased', 'coeff', None])}
    if name == 'arburg':
        return {'order': int(rng.integers(1, min(N // 3, 12))), 'criteria': rng.choice([None, None, 'AIC', 'AICc', 'KIC', 'AKICc', 'FPE', 'MDL'])}
    if name == 'aryule':
        # every pair of option values (an omitted allow_singularity is its own case)
        return {'order': int(rng.integers(1, min(N // 3, 12))), 'norm': str(rng.choice(['biased', 'unbiased'])),
                'allow_singularity': [None, True, False][int(rng.integers(0, 3))]}
    if name in ('arcovar', 'modcovar', 'arcovar_marple', 'modcovar_marple'):
        return {'order': int(rng.integers(1, min(N // 4, 8)))}
    if name == 'arma_estimate':
        P = int(rng.integers(1, 5)); Q = int(rng.integers(1, 4)); lo = max(2 * P, Q) + 2; return {'P': P, 'Q': Q, 'lag': int(rng.integers(lo, max(lo, min(lo + 6, N - 2 * P + Q)) + 1))}   # lag >= 2P: see _estimators.default_cfg
    if name == 'ma':
        Q = int(rng.integers(1, 4)); return {'Q': Q, 'M': int(rng.integers(Q + 2, Q + 10))}
    if name == 'minvar':
        m = int(rng.integers(2, min(N // 4, 8))); return {'order': m, 'NFFT': max(NFFT, 2 * m)}
    if name in ('music', 'ev'):
        IP = int(rng.integers(3, min(N // 3, 8)))
        mode = str(rng.choice(['nsig', 'nsig', 'threshold', 'aic', 'mdl']))
        cfg = {'IP': IP, 'NFFT': NFFT}
        if mode == 'nsig':
            cfg['NSIG'] = int(rng.integers(1, IP))
        elif mode == 'threshold':
            cfg['threshold'] = float(rng.choice([1.5, 2.0, 4.0]))
        else:
            cfg['criteria'] = mode
        return cfg
    if name == 'pmtm':
        NW = float(rng.choice([2.0, 2.5, 3.0])); return {'NW': NW, 'k': int(rng.integers(1, int(2 * NW))), 'NFFT': NFFT, 'method': str(rng.choice(['unity', 'eigen', 'adapt']))}
    if name == 'lpc':
        return {'order': int(rng.integers(1, min(N // 3, 10)))}
    raise KeyError(name)


def _grid(**axes):
    import itertools
    keys = list(axes)
    return [dict(zip(keys, vals)) for vals in itertools.product(*[axes[k] for k in keys])]


# the enumerated option values of each functional estimator: every combination is visited once per run (a change may concern ONE pair only)
OPTION_GRID = {'aryule': _grid(norm=['biased', 'unbiased'], allow_singularity=[None, True, False]),
               'CORRELOGRAMPSD': _grid(norm=['biased', 'unbiased'], correlation_method=[None, 'xcorr', 'CORRELATION']),
               'CORRELATION': _grid(norm=['biased', 'unbiased', 'coeff', None]), 'xcorr': _grid(norm=['biased', 'unbiased', 'coeff']),
               'arburg': _grid(criteria=[None, 'AIC', 'AICc', 'KIC', 'AKICc', 'FPE', 'MDL']),
               'music': [{'NSIG': 2}, {'threshold': 2.0}, {'criteria': 'aic'}, {'criteria': 'mdl'}, {'threshold': 1.5}, {'threshold': 4.0}],
               'ev': [{'NSIG': 2}, {'threshold': 2.0}, {'criteria': 'aic'}, {'criteria': 'mdl'}, {'threshold': 1.5}, {'threshold': 4.0}],
               'pmtm': _grid(method=['unity', 'eigen', 'adapt'])}


FUNCS = ['speriodogram', 'CORRELOGRAMPSD', 'CORRELATION', 'xcorr', 'arburg', 'aryule', 'arcovar', 'modcovar', 'arcovar_marple',
         'modcovar_marple', 'arma_estimate', 'ma', 'minvar', 'music', 'ev', 'pmtm', 'lpc']


def compare(out0, out1, c, rtol):
    """failing output names: out1 (from c*x) against the required transformation of out0 (from x)"""
    bad = []
    for name, (v0, p) in out0.items():
        v1 = out1[name][0]
        v0 = np.atleast_1d(np.asarray(v0)); v1 = np.atleast_1d(np.asarray(v1))
        if v0.shape != v1.shape:
            bad.append((name, 'shape %s became %s' % (v0.shape, v1.shape))); continue
        if v0.size == 0:
            continue
        want = v0 * (c if p == 'c1' else abs(c) ** p)
        if not (np.all(np.isfinite(v1)) and np.all(np.isfinite(want))):
            if np.array_equal(np.isfinite(v1), np.isfinite(want)):
                continue
            bad.append((name, 'non-finite values')); continue
        if np.iscomplexobj(v1) and not np.iscomplexobj(want) and np.max(np.abs(np.imag(v1))) > rtol * np.max(np.abs(v1)):
            bad.append((name, 'became complex')); continue
        err = np.max(np.abs(v1 - want)); scale = max(np.max(np.abs(want)), 1e-300)
        if err > rtol * scale:
            bad.append((name, 'estimate(c*x) differs from |c|^%s * estimate(x): relative error %.3g' % (p, err / scale)))
    return bad


def one_function(name, x, cfg, c, rtol=1e-6):
    out0 = fn_outputs(name, x, cfg)
    out1 = fn_outputs(name, c * x, cfg)
    return compare(out0, out1, c, rtol)


def class_outputs(cls, x, cfg, NFFT, sampling, route='fresh', prev=None):
    p = E.build(cls, x, cfg, NFFT=NFFT, sampling=sampling, scale_by_freq=False, route=route, prev=prev)
    psd = np.array(p.psd)
    out = {'psd': (psd, 0 if cls == 'pmusic' else 1 if cls == 'pev' else 2)}
    for k, v in E.model_params(p).items():
        power = {'ar': 0, 'ma': 0, 'reflection': 0, 'rho': 2, 'weights': 0, 'eigenvalues': 1 if cls in ('pmusic', 'pev') else 0}[k]
        if cls == 'pminvar' and k == 'ar':
            power = 0
        out[k] = (v, power)
    return out


def one_class(cls, x, cfg, NFFT, sampling, c, rtol=1e-6, route='fresh'):
    out0 = class_outputs(cls, x, cfg, NFFT, sampling)
    out1 = class_outputs(cls, c * x, cfg, NFFT, sampling, route)
    return compare(out0, out1, c, rtol)


def object_outputs(cls, p):
    out = {'psd': (np.array(p.psd), 0 if cls == 'pmusic' else 1 if cls == 'pev' else 2)}
    for k, v in E.model_params(p).items():
        power = {'ar': 0, 'ma': 0, 'reflection': 0, 'rho': 2, 'weights': 0, 'eigenvalues': 1 if cls in ('pmusic', 'pev') else 0}[k]
        out[k] = (np.array(v), power)
    return out


def one_class_inplace(cls, x, cfg, NFFT, sampling, c, rtol=1e-6):
    """operation history on ONE object: read the PSD, rescale the data through the object (p.data *= c), read again"""
    p = E.build(cls, np.array(x), cfg, NFFT=NFFT, sampling=sampling, scale_by_freq=False)
    out0 = object_outputs(cls, p)
    p.data *= c
    if not np.allclose(np.asarray(p.data), c * np.asarray(x)):
        return [('data', 'p.data *= c did not rescale the data held by the object')]
    out1 = object_outputs(cls, p)
    return compare(out0, out1, c, rtol)



# ------------------------------------------------------------------ aic_eigen / mdl_eigen: the formulas of Proofs/CriteriaEigenR_C03.v
def eigen_criterion_model(s, N, which):
    """the Coq definitions aic_eigen_at / mdl_eigen_at, literally (lnratio of the tail s[k+1:], d = len(tail)+1 = n-k)"""
    s = np.asarray(s, dtype=float); n = len(s); out = []
    for k in range(0, n - 1):
        t = s[k + 1:]; d = float(len(t) + 1)
        lnratio = np.sum(np.log(t)) / d - np.log(np.sum(t) / d)
        if which == 'aic':
            out.append(-2.0 * (n - k) * N * lnratio + 2.0 * k * (2.0 * n - k))
        else:
            out.append(-(n - k) * N * lnratio + 0.5 * k * (2.0 * n - k) * np.log(N))
    return np.array(out)


def one_criterion(which, s, N, m, rtol=1e-8):
    """failures of: code == formula model; code(m*s) == code(s) + const (2 N ln m / N ln m) at every index (hence same argmin)"""
    from spectrum.criteria import aic_eigen, mdl_eigen
    f = aic_eigen if which == 'aic' else mdl_eigen
    a0 = np.array(f(s, N), dtype=float); a1 = np.array(f(m * s, N), dtype=float); mod = eigen_criterion_model(s, N, which)
    shift = (2.0 if which == 'aic' else 1.0) * N * np.log(m)
    scale = max(np.max(np.abs(mod)), abs(shift), 1.0)
    bad = []
    if not np.all(np.isfinite(a0)) or np.max(np.abs(a0 - mod)) > rtol * scale:
        bad.append(('model', '%s_eigen(s, N) differs from the formula the theorem eigen_criteria_shift is about' % which))
    if not np.all(np.isfinite(a1)) or np.max(np.abs(a1 - (mod + shift))) > rtol * scale:
        bad.append(('shift', '%s_eigen(m*s, N) is not %s_eigen(s, N) + %s N ln m at every index' % (which, which, '2' if which == 'aic' else '1')))
    return bad


def replay(rep):
    if rep.get('replay', {}).get('form') == 'routes':
        from props import _estimators as E_
        return E_.replay_routes(rep['replay'])
    r = rep['replay']; x = vlib.unhexv(r['x']); c = complex(*[float.fromhex(t) for t in r['c']])
    if r['datatype'] == 'real':
        x = np.real(x); c = c.real
    cfg = r.get('cfg')
    try:
        if r['form'] == 'criterion':
            return not one_criterion(r['estimator'], np.real(x), r['N'], float.fromhex(r['m']))
        if r['form'] == 'function':
            return not one_function(r['estimator'], x, cfg, c)
        if r['form'] == 'class-inplace':
            return not one_class_inplace(r['estimator'], x, cfg, r.get('NFFT'), r.get('sampling', 1.0), c)
        return not one_class(r['estimator'], x, cfg, r.get('NFFT'), r.get('sampling', 1.0), c, route=r.get('route', 'fresh'))
    except Exception:
        return False


def jcfg(cfg):
    return {k: (v if isinstance(v, (int, float, str)) or v is None else (str(v) if not isinstance(v, (np.integer, np.floating)) else v.item())) for k, v in cfg.items()}


def run(ctx):
    from spectrum import arburg, LEVINSON, CORRELATION
    rng = ctx.rng
    ctx.check_theorems('Properties/C03.v')
    # the estimate an object holds does not depend on the history that gave it its data and settings (every route of _estimators.via)
    from props import _estimators as E_
    E_.class_route_stream(ctx, E_.CLASSES, 'routes')

    # ---------------- class level: the theorems over the pipeline table GENERATED from the snapshot on this run
    import os
    from props import _pipelines as P
    src = os.path.join(vlib.SNAP, 'src', 'spectrum')
    try:
        tab = P.extract(src)
        table_v = P.gallina(tab)
    except P.Fail as e:
        table_v = None
        for n in GEN_NAMES:
            ctx.obligations.append((n, False, []))
        ctx.broken.append({'theorem': 'translator:pipelines (source outside the recognised shapes)', 'where': src, 'log': str(e)})
    if table_v is not None:
        thm = open(os.path.join(os.path.dirname(os.path.abspath(__file__)), '_c03_theorems.v.in')).read()
        ctx.check_generated('C03_pipelines', table_v + thm, GEN_NAMES)

    # ---------------- correspondence of the three theorem-bearing models at scaled inputs (exact, in Coq)
    cases = []; meta = []
    from props.C13 import lowbit
    for _ in range(ctx.q(60, 400)):
        cplx = bool(rng.integers(0, 2)); p = int(rng.integers(1, 4)); N = p + 3 + int(rng.integers(0, 5))
        x = lowbit(rng, N, cplx)
        c = (complex(rng.integers(-6, 7), rng.integers(-6, 7)) / 4.0) if cplx else float(rng.integers(-12, 13)) / 4.0
        if c == 0:
            c = 1.5
        xs = c * x
        which = str(rng.choice(['arburg', 'levinson', 'acorr']))
        if which == 'arburg':
            raised = False
            try:
                a, rho, k = arburg(xs, p)
            except ValueError:
                raised = True; a = []; rho = 0; k = []
            if not raised and not (np.all(np.isfinite(a)) and np.isfinite(rho)):
                ctx.count('regenerated_degenerate'); continue
            rho0 = np.sum(np.abs(xs) ** 2) / N
            kap = 1.0 if raised else max(1.0, rho0 / max(abs(rho), 1e-300))
            if kap > 1e4:
                ctx.count('regenerated_illconditioned'); continue
            cases.append('burg_scaled %s %s %s %d%%nat %s %s %s %s' % (tolq(1e-9 * kap), cz(c), czl(x), p, 'true' if raised else 'false', czl(a), cz(rho), czl(k)))
        elif which == 'levinson':
            r = np.array([np.sum(x[k:] * np.conj(x[:N - k])) for k in range(p + 1)])
            s = abs(c) ** 2
            if not cplx:
                r = np.real(r)
            raised = False
            try:
                a, P, k = LEVINSON(s * r, p)
            except ValueError:
                raised = True; a = []; P = 0; k = []
            kap = 1.0 if raised else max(1.0, abs(s * r[0]) / max(abs(P), 1e-300))
            if kap > 1e4:
                ctx.count('regenerated_illconditioned'); continue
            cases.append('lev_scaled %s %s %s %d%%nat %s %s %s %s' % (tolq(1e-9 * kap), cz(s), czl(r), p, 'true' if raised else 'false', czl(a), cz(P), czl(k)))
        else:
            ml = int(rng.integers(0, N)); nm = str(rng.choice(['biased', 'unbiased', 'coeff', 'none']))
            r = CORRELATION(xs, maxlags=ml, norm=None if nm == 'none' else nm)
            cases.append('acorr_scaled %s %s %s %d%%nat %s %s' % (tolq(1e-10), cz(c), czl(x), ml,
                         {'biased': 'Biased', 'unbiased': 'Unbiased', 'coeff': 'Coeff', 'none': 'NoNorm'}[nm], czl(r)))
        meta.append({'function': which, 'x': vlib.hexv(x), 'c': str(c), 'order': p})
        ctx.count('corr/%s/%s' % (which, 'complex' if cplx else 'real'))
        ctx.case(('corr', which, x.tobytes(), str(c), p), nontrivial=(p >= 2), sample={'function': which + ' at c*x', 'c': str(c), 'x': [str(t) for t in x], 'order': p})
    # the models the phase-2 theorems are about, at scaled inputs: aryule, arcovar / modcovar, speriodogram (exact 4-point grid)
    from spectrum import aryule, arcovar, modcovar, speriodogram
    from spectrum.window import Window
    guard = 0; want = len(cases) + ctx.q(45, 300)
    while len(cases) < want and guard < 5000:
        guard += 1
        cplx = bool(rng.integers(0, 2))
        c = (complex(rng.integers(-6, 7), rng.integers(-6, 7)) / 4.0) if cplx else float(rng.integers(-12, 13)) / 4.0
        if c == 0:
            c = -2.5
        if rng.integers(0, 4) == 0:
            c = c * 2.0 ** int(rng.choice([-10, 12, 20]))          # large / small amplitudes: still exact dyadic
        which = str(rng.choice(['aryule', 'arcovar', 'modcovar', 'speriodogram']))
        if which == 'aryule':
            p = int(rng.integers(1, 4)); N = p + 2 + int(rng.integers(0, 5)); x = lowbit(rng, N, cplx); xs = c * x
            nm = str(rng.choice(['biased', 'unbiased']))
            raised = False
            try:
                a, P_, k = aryule(xs, p, norm=nm)
            except (ValueError, AssertionError):
                raised = True; a = []; P_ = 0; k = []
            if not raised and not (np.all(np.isfinite(a)) and np.isfinite(P_) and abs(P_) > 0):
                ctx.count('regenerated_degenerate'); continue
            r0 = np.sum(np.abs(xs) ** 2) / N
            kap = 1.0 if raised else max(1.0, r0 / max(abs(P_), 1e-300))
            if kap > 1e4:
                ctx.count('regenerated_illconditioned'); continue
            cases.append('yule_scaled %s %s %s %d%%nat %s %s %s %s %s' % (tolq(1e-9 * kap), cz(c), czl(x), p, 'Biased' if nm == 'biased' else 'Unbiased',
                         'true' if raised else 'false', czl(a), cz(P_), czl(k)))
        elif which in ('arcovar', 'modcovar'):
            p = int(rng.integers(1, 4)); N = int(rng.integers(max(4, 2 * p + 1), 12)); x = lowbit(rng, N, cplx); xs = c * x
            mod = which == 'modcovar'
            T = np.array([[xs[n - j] for j in range(p + 1)] for n in range(p, N)])
            if mod:
                T = np.vstack([T, np.array([[np.conj(xs[n - p + j]) for j in range(p + 1)] for n in range(p, N)])])
            sv = np.linalg.svd(T[:, 1:], compute_uv=False)
            if sv[-1] <= 0 or (sv[0] / sv[-1]) ** 2 > 1e6:
                ctx.count('regenerated_illconditioned'); continue
            kap2 = float((sv[0] / sv[-1]) ** 2); en = float(np.vdot(T[:, 0], T[:, 0]).real)
            raised = False; a = []; e = 0.0
            try:
                a, e = (modcovar if mod else arcovar)(xs, p)
            except (AssertionError, ValueError, np.linalg.LinAlgError):
                raised = True
            cases.append('covar_scaled %s %s %s %s %s %d%%nat %s %s %s' % (tolq(1e-9 * kap2), tolq(en), 'true' if mod else 'false', cz(c), czl(x), p,
                         'true' if raised else 'false', czl(a), cz(e)))
        else:
            N = int(rng.integers(2, 5)); p = N; x = lowbit(rng, N, cplx); xs = c * x
            wname = str(rng.choice(['hamming', 'hann', 'rectangular', 'bartlett'])) if N > 2 else 'rectangular'
            dt = rng.choice(['none', 'true', 'mean'])
            psd = speriodogram(xs, NFFT=4, detrend={'none': None, 'true': True, 'mean': 'mean'}[str(dt)], scale_by_freq=False, window=wname)
            w = np.asarray(Window(N, wname).data, dtype=float)
            cases.append('per_scaled %s %s %s %s %s %s %s' % (tolq(1e-10), cz(c), czl(x), czl(w), 'false' if cplx else 'true',
                         {'none': 'PyNone', 'true': 'PyTrue', 'mean': 'PyStr'}[str(dt)], czl(psd)))
        meta.append({'function': which, 'x': vlib.hexv(np.asarray(x, dtype=complex)), 'c': str(c), 'order': p})
        ctx.count('corr/%s/%s' % (which, 'complex' if cplx else 'real'))
        ctx.case(('corr2', which, x.tobytes(), str(c), p), nontrivial=(p >= 2), sample={'function': which + ' at c*x', 'c': str(c), 'x': [str(t) for t in x], 'order': p})
    for i in ctx.coq_cases('c03_scaled', PRE, cases, shard=40, descr='arburg / LEVINSON / CORRELATION / aryule / arcovar / modcovar / speriodogram at scaled inputs vs the models at QcC'):
        ctx.corr_disagreement(meta[i]['function'], i, meta[i])

    # ---------------- property-directed search: every functional estimator
    nextreme = 2 * len(FUNCS)
    nrealc = len(FUNCS)
    for it in range(nextreme + nrealc + max(ctx.q(170, 1700), 7 * len(FUNCS))):
        name = FUNCS[it % len(FUNCS)]
        cplx = bool(rng.integers(0, 2)) if name != 'lpc' else False
        N = int(rng.integers(16, 65))
        if it < nextreme:
            # extreme-amplitude stream: 16-bit-scale samples times |c| = 1e3 (both data types for every estimator)
            cplx = (it >= len(FUNCS)) and name != 'lpc'
            N = int(rng.integers(32, 49))
            x = rng.integers(-32767, 32768, size=N).astype(float) + (1j * rng.integers(-32767, 32768, size=N) if cplx else 0); kind = 'int16-extreme'
            c = 1e3 * (np.exp(1j * rng.uniform(0, 2 * np.pi)) if cplx else 1.0)
        elif it < nextreme + nrealc and name != 'lpc':
            # real samples declared complex (imaginary part exactly zero) times a genuinely complex scalar, for every estimator
            cplx = True
            x, kind = E.gen_data(rng, N, True, 'realc')
            c = rand_scalar(rng, True)
        else:
            x, kind = gen(rng, N, cplx)
            c = rand_scalar(rng, cplx)
        cfg = fn_cfg(name, N, rng, cplx)
        if it >= nextreme + nrealc:
            # the first pass after the special streams walks the GRID of enumerated option values of the function (every pair of values once)
            g = OPTION_GRID.get(name, []); j = (it - nextreme - nrealc) // len(FUNCS)
            if j < len(g):
                cfg = {k: v for k, v in cfg.items() if k not in ('NSIG', 'threshold', 'criteria')} if name in ('music', 'ev') else cfg
                cfg.update(g[j]); kind = kind + '+grid'
                if 'threshold' in g[j]:
                    # a rule that compares data-dependent quantities with each other: amplitudes far apart (a comparison of a quadratic with
                    # a linear quantity flips only when |c| is far from 1)
                    c = c / abs(c) * [1e3, 1e-3, 1e5][j % 3]
        tag = 'complex' if cplx else 'real'
        ctx.count('search/function/%s/%s/%s' % (name, tag, kind))
        ctx.case(('fn', name, json.dumps(jcfg(cfg), sort_keys=True), x.tobytes(), str(c)), nontrivial=True,
                 sample={'estimator': name, 'cfg': jcfg(cfg), 'N': N, 'datatype': tag, 'kind': kind, 'c': str(c)})
        rep = {'form': 'function', 'estimator': name, 'cfg': jcfg(cfg), 'x': vlib.hexv(np.asarray(x, dtype=complex)), 'datatype': tag,
               'c': [float(np.real(c)).hex(), float(np.imag(c)).hex()]}
        try:
            out0 = fn_outputs(name, x, cfg)
        except Exception as e:
            ctx.count('search/function/%s/unscaled-raised' % name); continue
        try:
            out1 = fn_outputs(name, c * x, cfg)
        except Exception as e:
            ctx.violation('scale/%s/raises' % name, '%s raises %s: %s on c*x although it returns on x' % (name, type(e).__name__, str(e)[:80]), rep)
            continue
        for oname, what in compare(out0, out1, c, 1e-6):
            ctx.violation('scale/%s/%s' % (name, oname), '%s, output %s: %s' % (name, oname, what), rep)

    # ---------------- order selection must not see the amplitude: every criterion, white and coloured records (the decision at the FIRST
    # stage compares the order-1 value with the order-0 value: near-white data sit on that boundary), scalars at both ends of the range
    for it in range(6 * ctx.q(6, 24)):
        crit = ['AIC', 'AICc', 'KIC', 'AKICc', 'FPE', 'MDL'][it % 6]
        cplx = bool((it // 6) % 2); N = int(rng.integers(48, 97))
        x, kind = E.gen_data(rng, N, cplx, ['noise', 'noise', 'ar'][(it // 12) % 3])
        x = x / np.sqrt(np.mean(np.abs(x) ** 2))
        cfg = {'order': int(rng.integers(4, 11)), 'criteria': crit}
        mag = [1e3, 1e-3, 30.0, 1e-1][(it // 6) % 4]
        c = mag * (np.exp(1j * rng.uniform(0, 2 * np.pi)) if cplx else 1.0)
        tag = 'complex' if cplx else 'real'
        ctx.count('search/order-selection/%s/%s/%s' % (crit, tag, kind))
        ctx.case(('fncrit', crit, x.tobytes(), str(c), cfg['order']), nontrivial=True,
                 sample={'estimator': 'arburg', 'cfg': cfg, 'N': N, 'datatype': tag, 'c': str(c), 'kind': kind} if it < 2 else None)
        rep = {'form': 'function', 'estimator': 'arburg', 'cfg': cfg, 'x': vlib.hexv(np.asarray(x, dtype=complex)), 'datatype': tag,
               'c': [float(np.real(c)).hex(), float(np.imag(c)).hex()]}
        try:
            out0 = fn_outputs('arburg', x, cfg); out1 = fn_outputs('arburg', c * x, cfg)
        except Exception:
            ctx.count('search/order-selection/raised'); continue
        for oname, what in compare(out0, out1, c, 1e-6):
            ctx.violation('scale/arburg/%s' % oname, 'arburg (criteria=%s), output %s: %s' % (crit, oname, what), rep)

    # ---------------- large orders (a third of the record) at the ends of the amplitude range: overflow / underflow of products
    BIG = ['arburg', 'aryule', 'arcovar', 'modcovar', 'minvar', 'music', 'ev']
    for it in range(ctx.q(2, 8) * len(BIG)):
        name = BIG[it % len(BIG)]; cplx = bool((it // len(BIG)) % 2)
        N = int(rng.integers(200, 241))
        x, kind = E.gen_data(rng, N, cplx, 'tone')
        big = int(rng.integers(N // 3, N // 3 + 20)) if name in ('music', 'ev', 'arburg', 'aryule') else int(rng.integers(30, 45))
        if name in ('music', 'ev'):
            cfg = {'IP': big, 'NFFT': 256, 'criteria': str(rng.choice(['aic', 'mdl']))}
        elif name == 'minvar':
            cfg = {'order': big, 'NFFT': 256}
        elif name == 'arburg':
            cfg = {'order': big, 'criteria': None}
        else:
            cfg = {'order': big}
        mag = [1e3, 1e-3][(it // (2 * len(BIG))) % 2]
        c = mag * (np.exp(1j * rng.uniform(0, 2 * np.pi)) if cplx else 1.0)
        tag = 'complex' if cplx else 'real'
        ctx.count('search/function-large-order/%s/%s' % (name, tag))
        ctx.case(('fnbig', name, json.dumps(jcfg(cfg), sort_keys=True), x.tobytes(), str(c)), nontrivial=True,
                 sample={'estimator': name, 'cfg': jcfg(cfg), 'N': N, 'datatype': tag, 'c': str(c)})
        rep = {'form': 'function', 'estimator': name, 'cfg': jcfg(cfg), 'x': vlib.hexv(np.asarray(x, dtype=complex)), 'datatype': tag,
               'c': [float(np.real(c)).hex(), float(np.imag(c)).hex()]}
        try:
            out0 = fn_outputs(name, x, cfg)
        except Exception:
            ctx.count('search/function-large-order/%s/unscaled-raised' % name); continue
        try:
            out1 = fn_outputs(name, c * x, cfg)
        except Exception as e:
            ctx.violation('scale/%s/raises' % name, '%s raises %s: %s on c*x although it returns on x' % (name, type(e).__name__, str(e)[:80]), rep)
            continue
        for oname, what in compare(out0, out1, c, 1e-5):
            ctx.violation('scale/%s/%s' % (name, oname), '%s (order %d), output %s: %s' % (name, big, oname, what), rep)

    # ---------------- aic_eigen / mdl_eigen: the code is the formula of eigen_criteria_shift, and shifts by a constant under s -> m*s
    for it in range(ctx.q(60, 600)):
        which = ['aic', 'mdl'][it % 2]
        n = int(rng.integers(2, 12)) if it % 3 else int(rng.integers(60, 140))
        sv = np.sort(np.exp(rng.normal(0.0, 1.5, size=n)))[::-1].copy()
        N = int(2 * rng.integers(8, 101)); m = float(10.0 ** rng.uniform(-3, 3))
        if n >= 12 and it % 2 == 0:
            m = [1e3, 1e-3][(it // 2) % 2]            # ends of the amplitude range with many singular values: products over/underflow
        ctx.count('search/criterion/%s_eigen/%s' % (which, 'short' if n < 12 else 'long'))
        ctx.case(('crit', which, sv.tobytes(), N, m), nontrivial=(n >= 3), sample={'estimator': which + '_eigen', 'n': n, 'N': N, 'm': m})
        rep = {'form': 'criterion', 'estimator': which, 'x': vlib.hexv(np.asarray(sv, dtype=complex)), 'datatype': 'real', 'N': N,
               'm': m.hex(), 'c': [m.hex(), (0.0).hex()]}
        try:
            bad = one_criterion(which, sv, N, m)
        except Exception as e:
            bad = [('raises', '%s_eigen raises %s' % (which, type(e).__name__))]
        for kind, what in bad:
            ctx.violation('scale/%s_eigen/%s' % (which, kind), what, rep)

    # ---------------- every PSD class
    nextreme = 2 * len(E.CLASSES)
    nrealc = len(E.CLASSES)
    for it in range(nextreme + nrealc + ctx.q(96, 960)):
        cls = E.CLASSES[it % len(E.CLASSES)]
        cplx = bool(rng.integers(0, 2)); N = int(rng.integers(16, 65))
        if nextreme <= it < nextreme + nrealc:
            cplx = True
        x, kind = gen(rng, N, cplx) if not (nextreme <= it < nextreme + nrealc) else E.gen_data(rng, N, True, 'realc')
        if it < nextreme:
            cplx = it >= len(E.CLASSES); N = int(rng.integers(32, 49))
            x = rng.integers(-32767, 32768, size=N).astype(float) + (1j * rng.integers(-32767, 32768, size=N) if cplx else 0); kind = 'int16-extreme'
        cfg = E.default_cfg(cls, N, rng, cplx)
        if cls == 'pburg' and rng.integers(0, 2):
            cfg['criteria'] = str(rng.choice(['AIC', 'MDL', 'FPE', 'AICc', 'KIC', 'AKICc']))
        NFFT = int(rng.choice([N, N + 1, 2 * N, 64, 67])); NFFT = max(NFFT, N)
        sampling = float(rng.choice([1.0, 7.5, 1024.0]))
        c = rand_scalar(rng, cplx) if it >= nextreme else 1e3 * (np.exp(1j * rng.uniform(0, 2 * np.pi)) if cplx else 1.0)
        tag = 'complex' if cplx else 'real'
        route = E.pick_route(rng)             # the object holding c*x: fresh, or one that computed an estimate before and was re-assigned
        ctx.count('search/class/route/%s' % route)
        ctx.count('search/class/%s/%s/%s' % (cls, tag, kind))
        ctx.case(('cls', cls, json.dumps(jcfg(cfg), sort_keys=True), NFFT, sampling, x.tobytes(), str(c)), nontrivial=True,
                 sample={'estimator': cls, 'cfg': jcfg(cfg), 'N': N, 'NFFT': NFFT, 'datatype': tag, 'kind': kind, 'c': str(c)})
        rep = {'form': 'class', 'estimator': cls, 'cfg': jcfg(cfg), 'NFFT': NFFT, 'sampling': sampling,
               'x': vlib.hexv(np.asarray(x, dtype=complex)), 'datatype': tag, 'c': [float(np.real(c)).hex(), float(np.imag(c)).hex()], 'route': route}
        try:
            out0 = class_outputs(cls, x, cfg, NFFT, sampling)
        except Exception:
            ctx.count('search/class/%s/unscaled-raised' % cls); continue
        try:
            out1 = class_outputs(cls, c * x, cfg, NFFT, sampling, route)
        except Exception as e:
            ctx.violation('scale/%s/raises' % cls, '%s raises %s: %s on c*x although it returns on x' % (cls, type(e).__name__, str(e)[:80]), rep)
            continue
        for oname, what in compare(out0, out1, c, 1e-6):
            ctx.violation('scale/%s/%s' % (cls, oname), '%s, %s: %s' % (cls, oname, what), rep)

    # ---------------- every NAMED window once per class that takes one (a change may concern one name only)
    for wi, wname in enumerate(E.ALL_WINDOWS):
        for cls in ('Periodogram', 'pcorrelogram'):
            cplx = bool(wi % 2); N = 20 + wi % 9; x, kind = gen(rng, N, cplx)
            cfg = {'window': wname} if cls == 'Periodogram' else {'lag': 4 + wi % 5, 'window': wname}
            NFFT = [N, N + 3, 2 * N][wi % 3]; sampling = 1.0; c = rand_scalar(rng, cplx); tag = 'complex' if cplx else 'real'
            ctx.count('search/windows/%s' % cls)
            ctx.case(('cls-window', cls, wname, NFFT, x.tobytes(), str(c)), nontrivial=True,
                     sample={'estimator': cls + ' (every named window)', 'window': wname, 'N': N, 'NFFT': NFFT, 'c': str(c)} if wi == 9 else None)
            rep = {'form': 'class', 'estimator': cls, 'cfg': jcfg(cfg), 'NFFT': NFFT, 'sampling': sampling,
                   'x': vlib.hexv(np.asarray(x, dtype=complex)), 'datatype': tag, 'c': [float(np.real(c)).hex(), float(np.imag(c)).hex()], 'route': 'fresh'}
            try:
                out0 = class_outputs(cls, x, cfg, NFFT, sampling); out1 = class_outputs(cls, c * x, cfg, NFFT, sampling)
            except Exception as e:
                ctx.violation('scale/%s/raises/window_%s' % (cls, wname), '%s with window %r raises %s: %s' % (cls, wname, type(e).__name__, str(e)[:80]), rep)
                continue
            for oname, what in compare(out0, out1, c, 1e-6):
                ctx.violation('scale/%s/%s/window_%s' % (cls, oname, wname), '%s, window %r, %s: %s' % (cls, wname, oname, what), rep)

    # ---------------- arma_estimate (the model of C15, which the ma / arma_estimate / parma theorems are about) at scaled inputs:
    # c*x is built inside Coq from the low-bit data, the implementation is called on the numerically scaled array (dyadic c: exact)
    from props import _c03_arma_corr as AC

    def scaled(rng_, x, cplx):
        c = (complex(rng_.integers(-6, 7), rng_.integers(-6, 7)) / 4.0) if cplx else float(rng_.integers(-12, 13)) / 4.0
        if c == 0:
            c = 1.5
        if rng_.integers(0, 4) == 0:
            c = c * 2.0 ** int(rng_.choice([-10, 12]))
        return c * x, '(@vscale _ ops %s %s)' % (cz(c), czl(x)), {'c': str(c)}
    cases, meta = AC.gen(ctx, ctx.q(8, 80), scaled, 'scaled')
    for i in ctx.coq_cases('c03_arma_scaled', AC.pre(), cases, shard=4,
                           descr='arma_estimate at c*x (every outcome code, AR / MA / rho, oracle residual exactly zero) vs Model.ArmaEst.arma_estimate at QcC'):
        ctx.corr_disagreement('arma_estimate', i, meta[i])

    # ---------------- DaniellPeriodogram against Model/Daniell.v: (a) the smoother on the implementation's own speriodogram output,
    # binary64 bins read exactly (dyadic rationals, exact sums at QcC) and the same term run at binary64; (b) the whole function at
    # scaled low-bit inputs on the exact 4-point grid
    from spectrum import DaniellPeriodogram
    import warnings
    cases_q = []; cases_f = []; cases_g = []; meta_q = []; meta_g = []
    guard = 0
    while len(cases_q) < ctx.q(40, 300) and guard < 5000:
        guard += 1
        cplx = bool(rng.integers(0, 2)); N = int(rng.integers(6, 49)); P = int(rng.integers(1, 7))
        NFFT = [None, N, N + 3, 2 * N, 32, 33, 64][int(rng.integers(0, 7))]
        if NFFT is not None and NFFT < N:
            NFFT = N
        x, kind = gen(rng, N, cplx)
        sbf = bool(rng.integers(0, 2)); fs = float(rng.choice([1.0, 7.5, 1024.0])); dt = [None, 'mean', True][int(rng.integers(0, 3))]
        wname = E.pick_window(rng, ['hamming', 'hann', 'rectangular'])
        with warnings.catch_warnings():
            warnings.simplefilter('ignore')
            psd = speriodogram(x, NFFT=NFFT, detrend=dt, sampling=fs, scale_by_freq=sbf, window=wname)
            new, _freq = DaniellPeriodogram(x, P, NFFT=NFFT, detrend=dt, sampling=fs, scale_by_freq=sbf, window=wname)
        psd = np.asarray(psd, dtype=float); new = np.asarray(new, dtype=float)
        if not (np.all(np.isfinite(psd)) and np.all(np.isfinite(new))):
            ctx.count('regenerated_degenerate'); continue
        cases_q.append('dan_smooth_case %s %s %d%%nat %s' % (tolq(1e-12), czl(psd), P, czl(new)))
        cases_f.append('dan_smooth_float 0x1p-40 %s %d%%nat %s' % (vlib.fll(psd), P, vlib.fll(new)))
        meta_q.append({'function': 'DaniellPeriodogram (smoother)', 'x': vlib.hexv(np.asarray(x, dtype=complex)), 'P': P, 'NFFT': NFFT, 'bins': int(len(psd))})
        ctx.count('corr/daniell/%s/%s' % ('odd-bins' if len(psd) % 2 else 'even-bins', 'complex' if cplx else 'real'))
        ctx.case(('daniell', x.tobytes(), P, NFFT, sbf, fs, str(dt), wname), nontrivial=(len(new) >= 2),
                 sample={'function': 'DaniellPeriodogram smoother vs Model.Daniell', 'N': N, 'P': P, 'NFFT': NFFT, 'bins': int(len(psd)), 'out': int(len(new))})
    for _ in range(ctx.q(12, 100)):
        cplx = bool(rng.integers(0, 2)); N = int(rng.integers(2, 5)); P = int(rng.integers(1, 3)); x = lowbit(rng, N, cplx)
        c = (complex(rng.integers(-6, 7), rng.integers(-6, 7)) / 4.0) if cplx else float(rng.integers(-12, 13)) / 4.0
        if c == 0:
            c = -2.5
        wname = str(rng.choice(['hamming', 'hann', 'rectangular'])) if N > 2 else 'rectangular'
        dt = str(rng.choice(['none', 'true', 'mean']))
        with warnings.catch_warnings():
            warnings.simplefilter('ignore')
            new, _freq = DaniellPeriodogram(c * x, P, NFFT=4, detrend={'none': None, 'true': True, 'mean': 'mean'}[dt], scale_by_freq=False, window=wname)
        w = np.asarray(Window(N, wname).data, dtype=float)
        cases_g.append('dan_full_case %s %s %s %s %d%%nat %s %s %s' % (tolq(1e-10), cz(c), czl(x), czl(w), P, 'false' if cplx else 'true',
                       {'none': 'PyNone', 'true': 'PyTrue', 'mean': 'PyStr'}[dt], czl(np.asarray(new, dtype=float))))
        meta_g.append({'function': 'DaniellPeriodogram at c*x (4-point grid)', 'x': vlib.hexv(np.asarray(x, dtype=complex)), 'c': str(c), 'P': P})
        ctx.count('corr/daniell_grid/%s' % ('complex' if cplx else 'real'))
        ctx.case(('daniell4', x.tobytes(), str(c), P, wname, dt), nontrivial=True, sample={'function': 'DaniellPeriodogram at c*x, NFFT=4', 'c': str(c), 'P': P})
    for i in ctx.coq_cases('c03_daniell', PRE_DANIELL, cases_q + cases_g, shard=60,
                           descr='DaniellPeriodogram: smoother on the implementation\'s bins (exact sums at QcC) and the whole function at scaled inputs on the 4-point grid vs Model/Daniell.v'):
        ctx.corr_disagreement('DaniellPeriodogram', i, (meta_q + meta_g)[i])
    for i in ctx.coq_cases('c03_daniell_float', PRE_DANIELL_F, cases_f, shard=100, descr='the smoother of Model/Daniell.v run at binary64 vs DaniellPeriodogram'):
        ctx.corr_disagreement('DaniellPeriodogram', i, meta_q[i])

    # ---------------- operation history: the PSD of an object is computed, the data are rescaled THROUGH the object (p.data *= c hands the
    # object's own array back to the data setter), the PSD and the model parameters are read again
    for it in range(ctx.q(2, 10) * len(E.CLASSES)):
        cls = E.CLASSES[it % len(E.CLASSES)]
        cplx = bool(rng.integers(0, 2)); N = int(rng.integers(16, 65))
        x, kind = gen(rng, N, cplx)
        cfg = E.default_cfg(cls, N, rng, cplx)
        NFFT = int(rng.choice([N, N + 1, 2 * N, 64, 67])); NFFT = max(NFFT, N)
        sampling = float(rng.choice([1.0, 7.5, 1024.0]))
        c = rand_scalar(rng, cplx)
        tag = 'complex' if cplx else 'real'
        ctx.count('search/history/%s/%s' % (cls, tag))
        ctx.case(('hist', cls, json.dumps(jcfg(cfg), sort_keys=True), NFFT, sampling, x.tobytes(), str(c)), nontrivial=True,
                 sample={'estimator': cls, 'history': 'psd; data *= c; psd', 'cfg': jcfg(cfg), 'N': N, 'NFFT': NFFT, 'datatype': tag, 'c': str(c)})
        rep = {'form': 'class-inplace', 'estimator': cls, 'cfg': jcfg(cfg), 'NFFT': NFFT, 'sampling': sampling,
               'x': vlib.hexv(np.asarray(x, dtype=complex)), 'datatype': tag, 'c': [float(np.real(c)).hex(), float(np.imag(c)).hex()]}
        try:
            bad = one_class_inplace(cls, x, cfg, NFFT, sampling, c)
        except Exception as e:
            ctx.count('search/history/%s/raised' % cls); continue
        for oname, what in bad:
            ctx.violation('scale-inplace/%s/%s' % (cls, oname), '%s after p.data *= c, %s: %s' % (cls, oname, what), rep)

    # ---------------- complex-typed data whose imaginary part is identically zero (a real record cast to complex, an ifft output) times a
    # genuinely complex scalar: the Fourier family must treat both as complex data (same layout, |c|^2)
    for it in range(ctx.q(12, 60)):
        N = int(rng.integers(16, 65))
        xr, kind = gen(rng, N, False)
        x = np.asarray(xr, dtype=complex)
        c = rand_scalar(rng, True)
        if abs(c.imag) < 1e-3 * abs(c):
            c = c * np.exp(0.7j)
        rep_c = [float(np.real(c)).hex(), float(np.imag(c)).hex()]
        if it % 2 == 0:
            name = ['speriodogram', 'CORRELOGRAMPSD'][(it // 2) % 2]
            cfg = fn_cfg(name, N, rng, True)
            ctx.count('search/zero-imag/function/%s' % name)
            ctx.case(('zi', name, json.dumps(jcfg(cfg), sort_keys=True), x.tobytes(), str(c)), nontrivial=True,
                     sample={'estimator': name, 'cfg': jcfg(cfg), 'N': N, 'datatype': 'complex dtype, zero imaginary part', 'c': str(c)})
            rep = {'form': 'function', 'estimator': name, 'cfg': jcfg(cfg), 'x': vlib.hexv(x), 'datatype': 'complex', 'c': rep_c}
            try:
                bad = one_function(name, x, cfg, c)
            except Exception as e:
                bad = [('raises', 'raised %s: %s' % (type(e).__name__, str(e)[:80]))]
            for oname, what in bad:
                ctx.violation('scale/%s/%s' % (name, oname), '%s, %s (complex dtype, zero imaginary part): %s' % (name, oname, what), rep)
        else:
            cls = ['Periodogram', 'pcorrelogram'][(it // 2) % 2]
            cfg = E.default_cfg(cls, N, rng, True)
            NFFT = int(rng.choice([N, N + 1, 2 * N, 64, 67])); NFFT = max(NFFT, N)
            ctx.count('search/zero-imag/class/%s' % cls)
            ctx.case(('zi', cls, json.dumps(jcfg(cfg), sort_keys=True), NFFT, x.tobytes(), str(c)), nontrivial=True,
                     sample={'estimator': cls, 'cfg': jcfg(cfg), 'N': N, 'NFFT': NFFT, 'datatype': 'complex dtype, zero imaginary part', 'c': str(c)})
            rep = {'form': 'class', 'estimator': cls, 'cfg': jcfg(cfg), 'NFFT': NFFT, 'sampling': 1.0, 'x': vlib.hexv(x), 'datatype': 'complex', 'c': rep_c}
            try:
                bad = one_class(cls, x, cfg, NFFT, 1.0, c)
            except Exception as e:
                bad = [('raises', 'raised %s: %s' % (type(e).__name__, str(e)[:80]))]
            for oname, what in bad:
                ctx.violation('scale/%s/%s' % (cls, oname), '%s, %s (complex dtype, zero imaginary part): %s' % (cls, oname, what), rep)
