"""Object factory and independent functional drivers for the thirteen PSD classes (used by C08; reusable).

  draw_cfg(rng, cname, N)                -> constructor parameters (orders, lag, window, taper method ...), JSON-able
  make(cname, data, cfg, sampling, NFFT, sbf) -> a fresh object of the class (nothing computed yet)
  functional_spectrum(cname, data, cfg, NFFT) -> what the functional estimator computes at sampling = 1 without
      frequency scaling, obtained by calling the library's FUNCTIONS directly (arburg + arma2psd(T=1), minvar(sampling=1),
      eigen, pmtm + taper average, ...), never through the class under test.
"""
import numpy as np

CLASS_NAMES = ['Periodogram', 'pcorrelogram', 'pburg', 'pyule', 'pcovar', 'pmodcovar', 'parma', 'pma', 'pminvar',
               'pmusic', 'pev', 'MultiTapering', 'pdaniell']
GROUP = {'pburg': 'model', 'pyule': 'model', 'pcovar': 'model', 'pmodcovar': 'model', 'parma': 'model', 'pma': 'model',
         'Periodogram': 'fixed', 'pcorrelogram': 'fixed', 'MultiTapering': 'fixed', 'pmusic': 'fixed', 'pev': 'fixed',
         'pdaniell': 'fixed', 'pminvar': 'minvar'}
# pdaniell stores a decimated spectrum; for complex data the psd setter then overwrites NFFT with its length, so only a
# freshly constructed object can be compared with 'df = sampling/NFFT' (the later recomputations belong to C05/C07)
FRESH_ONLY = {('pdaniell', 'complex')}


def draw_cfg(rng, cname, N):
    c = {}
    if cname == 'Periodogram':
        c['window'] = str(rng.choice(['hann', 'hamming', 'rectangular', 'blackman']))
    elif cname == 'pcorrelogram':
        c['window'] = str(rng.choice(['hamming', 'hann', 'rectangular'])); c['lag'] = int(rng.integers(2, max(3, N // 3)))
    elif cname in ('pburg', 'pyule', 'pcovar', 'pmodcovar'):
        c['order'] = int(rng.integers(1, 5))
        if cname == 'pburg' and rng.integers(0, 3) == 0:
            # an order-selection criterion with a generous maximum order: the criterion, not the maximum, decides
            c['criteria'] = str(rng.choice(['AIC', 'MDL', 'FPE', 'AICc', 'KIC', 'AKICc'])); c['order'] = int(rng.integers(6, max(7, min(14, N // 3))))
        if cname == 'pyule':
            c['norm'] = str(rng.choice(['biased', 'unbiased']))
    elif cname == 'parma':
        c['P'] = int(rng.integers(1, 4)); c['Q'] = int(rng.integers(1, 3)); c['lag'] = int(rng.integers(6, 9))
    elif cname == 'pma':
        c['Q'] = int(rng.integers(1, 4)); c['M'] = c['Q'] + int(rng.integers(2, 5))
    elif cname == 'pminvar':
        c['order'] = int(rng.integers(2, 6))
    elif cname in ('pmusic', 'pev'):
        c['IP'] = int(rng.integers(4, 8)); c['NSIG'] = int(rng.integers(1, 3))
    elif cname == 'pdaniell':
        c['window'] = str(rng.choice(['hann', 'hamming', 'rectangular'])); c['P'] = int(rng.integers(1, 3))
    elif cname == 'MultiTapering':
        c['NW'] = float(rng.choice([2.0, 2.5, 3.0])); c['k'] = int(rng.integers(2, 5)); c['method'] = str(rng.choice(['eigen', 'unity', 'adapt']))
    return c


def make(cname, data, cfg, sampling, NFFT, sbf):
    import spectrum as S
    from spectrum.mtm import MultiTapering
    kw = dict(NFFT=NFFT, sampling=sampling)
    if sbf is not None:
        kw['scale_by_freq'] = sbf
    if cname == 'Periodogram':
        return S.Periodogram(data, window=cfg['window'], **kw)
    if cname == 'pcorrelogram':
        return S.pcorrelogram(data, lag=cfg['lag'], window=cfg['window'], **kw)
    if cname == 'pburg':
        return S.pburg(data, cfg['order'], criteria=cfg.get('criteria'), **kw)
    if cname == 'pyule':
        return S.pyule(data, cfg['order'], norm=cfg['norm'], **kw)
    if cname == 'pcovar':
        return S.pcovar(data, cfg['order'], **kw)
    if cname == 'pmodcovar':
        return S.pmodcovar(data, cfg['order'], **kw)
    if cname == 'parma':
        return S.parma(data, cfg['P'], cfg['Q'], cfg['lag'], **kw)
    if cname == 'pma':
        return S.pma(data, cfg['Q'], cfg['M'], **kw)
    if cname == 'pminvar':
        return S.pminvar(data, cfg['order'], **kw)
    if cname == 'pmusic':
        return S.pmusic(data, cfg['IP'], NSIG=cfg['NSIG'], **kw)
    if cname == 'pev':
        return S.pev(data, cfg['IP'], NSIG=cfg['NSIG'], **kw)
    if cname == 'pdaniell':
        return S.pdaniell(data, cfg['P'], window=cfg['window'], **kw)
    if cname == 'MultiTapering':
        return MultiTapering(data, NW=cfg['NW'], k=cfg['k'], method=cfg['method'], **kw)
    raise KeyError(cname)


def functional_spectrum(cname, data, cfg, NFFT):
    import spectrum as S
    from spectrum.arma import arma2psd, arma_estimate, ma
    data = np.asarray(data); N = len(data)
    if cname == 'Periodogram':
        return np.asarray(S.speriodogram(data, NFFT=NFFT, detrend=None, sampling=1., scale_by_freq=False, window=cfg['window']))
    if cname == 'pcorrelogram':
        return np.asarray(S.CORRELOGRAMPSD(data, None, lag=cfg['lag'], window=cfg['window'], NFFT=NFFT))
    if cname == 'pburg':
        ar, rho, _ = S.arburg(data, cfg['order'], cfg.get('criteria'))
        return arma2psd(A=ar, B=None, rho=rho, T=1., NFFT=NFFT)
    if cname == 'pyule':
        ar, rho, _ = S.aryule(data, cfg['order'], norm=cfg['norm'])
        return arma2psd(A=ar, B=None, rho=rho, T=1., NFFT=NFFT)
    if cname == 'pcovar':
        ar, e = S.arcovar(data, cfg['order'])
        return arma2psd(A=ar, B=None, rho=e / float(N - cfg['order']), T=1., NFFT=NFFT)
    if cname == 'pmodcovar':
        ar, e = S.modcovar(data, cfg['order'])
        return arma2psd(A=ar, B=None, rho=e / (2. * (N - cfg['order'])), T=1., NFFT=NFFT)
    if cname == 'parma':
        a, b, rho = arma_estimate(data, cfg['P'], cfg['Q'], cfg['lag'])
        return arma2psd(A=a, B=b, rho=rho, T=1., NFFT=NFFT)
    if cname == 'pma':
        b, rho = ma(data, cfg['Q'], cfg['M'])
        return arma2psd(A=None, B=b, rho=rho, T=1., NFFT=NFFT)
    if cname == 'pminvar':
        return np.asarray(S.minvar(data, cfg['order'], sampling=1., NFFT=NFFT)[0])
    if cname in ('pmusic', 'pev'):
        from spectrum.eigenfre import eigen
        return np.asarray(eigen(data, cfg['IP'], NSIG=cfg['NSIG'], NFFT=NFFT, threshold=None, criteria='aic', verbose=False,
                                method='music' if cname == 'pmusic' else 'ev')[0])
    if cname == 'pdaniell':
        return np.asarray(S.DaniellPeriodogram(data, cfg['P'], NFFT=NFFT, detrend=None, sampling=1., scale_by_freq=False, window=cfg['window'])[0])
    if cname == 'MultiTapering':
        from spectrum.mtm import pmtm
        Skc, w, _ = pmtm(data, cfg['NW'], cfg['k'], NFFT=NFFT, method=cfg['method'], show=False)
        Sk = abs(Skc) ** 2
        if cfg['method'] == 'adapt':
            return np.mean(Sk.transpose() * w, axis=1)
        return np.mean(Sk * w, axis=0)
    raise KeyError(cname)


def draw_data(rng, N, cplx, style=None):
    """a tone plus noise (so that every estimator is well posed), optionally integer valued / large dynamic range"""
    style = style or str(rng.choice(['tone', 'tone', 'two', 'int', 'big']))
    t = np.arange(N); f = rng.uniform(0.08, 0.42)
    if cplx:
        x = np.exp(2j * np.pi * f * t) + 0.4 * (rng.standard_normal(N) + 1j * rng.standard_normal(N))
    else:
        x = np.cos(2 * np.pi * f * t + rng.uniform(0, 3)) + 0.4 * rng.standard_normal(N)
    if style == 'two':
        g = rng.uniform(0.08, 0.42)
        x = x + 0.7 * (np.exp(2j * np.pi * g * t) if cplx else np.cos(2 * np.pi * g * t))
    elif style == 'int':
        x = np.round(x * 8)
        if cplx:
            x = x.astype(complex)
        else:
            x = x.astype(float)
    elif style == 'big':
        x = x * 10.0 ** int(rng.integers(-4, 5))
    return x, style
