"""Functional estimators are functions of the VALUES they are given.  Shared search helper used by several properties:
a realistic way to break "for every input" clauses is state that survives between calls — a cache keyed by object identity,
an input array modified in place, a result that aliases an input or a cached array.  None of it shows on a single call with
fresh arrays, so every property that quantifies over inputs also runs its functions through this protocol."""
import copy
import numpy as np


def _arrays(t):
    return [i for i, a in enumerate(t) if isinstance(a, np.ndarray)]


def _flat(r):
    """all numeric leaves of a result (tuple / list / array / scalar) as complex arrays"""
    if isinstance(r, (tuple, list)):
        out = []
        for t in r:
            out += _flat(t)
        return out
    if r is None:
        return []
    try:
        return [np.atleast_1d(np.asarray(r, dtype=complex))]
    except Exception:
        return []


def _same(r1, r2, rtol=1e-10):
    a = _flat(r1); b = _flat(r2)
    if len(a) != len(b):
        return False
    for u, v in zip(a, b):
        if u.shape != v.shape:
            return False
        if u.size == 0:
            continue
        fu = np.isfinite(u); fv = np.isfinite(v)
        if not np.array_equal(fu, fv):
            return False
        if np.any(fu) and np.max(np.abs(u[fu] - v[fu])) > rtol * max(np.max(np.abs(v[fv])), 1e-300):
            return False
    return True


def purity_failures(name, f, args1, args2):
    """f(*args): args1 and args2 are tuples of the same shapes/dtypes (ndarrays and scalars).
    Returns [(kind, what)] for: input modified in place; second call differs; result changes when an earlier result was
    modified in place by its owner (aliasing / cached arrays handed out); stale result when the SAME input arrays are
    overwritten in place with other values."""
    bad = []
    a = tuple(x.copy() if isinstance(x, np.ndarray) else copy.deepcopy(x) for x in args1)
    ref = f(*[x.copy() if isinstance(x, np.ndarray) else copy.deepcopy(x) for x in args1])
    ref = copy.deepcopy(ref)
    r1 = f(*a)
    for i in _arrays(a):
        if not np.array_equal(a[i], args1[i], equal_nan=True):
            bad.append(('input_modified', '%s modifies its argument %d in place' % (name, i)))
    if not _same(r1, ref):
        bad.append(('not_repeatable', '%s returns something else on a second call with the same values' % name))
    if bad:
        return bad
    # the owner of a result may do what it wants with it
    for u in (r1 if isinstance(r1, (tuple, list)) else [r1]):
        if isinstance(u, np.ndarray) and u.size and u.flags.writeable:
            try:
                u *= 3
                u += 1
            except Exception:
                pass
    r1b = f(*a)
    for i in _arrays(a):
        if not np.array_equal(a[i], args1[i], equal_nan=True):
            bad.append(('result_aliases_input', 'a result of %s shares memory with its argument %d' % (name, i)))
    if not _same(r1b, ref):
        bad.append(('result_aliased', '%s hands out arrays it keeps using (modifying an earlier result changes a later one)' % name))
    if bad:
        return bad
    # the same buffers, refilled in place
    for i in _arrays(a):
        a[i][...] = args2[i]
    r2 = f(*a)
    want = f(*[x.copy() if isinstance(x, np.ndarray) else copy.deepcopy(x) for x in args2])
    if not _same(r2, want):
        bad.append(('stale_on_reuse', '%s called on buffers that were overwritten in place returns the result of their earlier content' % name))
    return bad


def layout_failures(name, f, args):
    """the same VALUES presented through other memory layouts / containers: a non-contiguous view, a Fortran-ordered
    2-D array, a read-only array.  Returns [(kind, what)]."""
    bad = []
    ref = f(*[x.copy() if isinstance(x, np.ndarray) else copy.deepcopy(x) for x in args])
    ref = copy.deepcopy(ref)

    def variant(kind):
        out = []
        for x in args:
            if not isinstance(x, np.ndarray):
                out.append(copy.deepcopy(x)); continue
            if kind == 'strided':
                if x.ndim == 1:
                    big = np.zeros(2 * len(x) + 1, dtype=x.dtype); big[1::2] = x; out.append(big[1::2])
                else:
                    big = np.zeros((x.shape[0], 2 * x.shape[1]), dtype=x.dtype); big[:, ::2] = x; out.append(big[:, ::2])
            elif kind == 'component':
                if np.iscomplexobj(x):
                    out.append(x.copy())
                else:
                    z = (x + 1j * (x[::-1] if x.ndim == 1 else x)).astype(complex); out.append(z.real)      # a view into a complex buffer
            elif kind == 'readonly':
                y = x.copy(); y.flags.writeable = False; out.append(y)
        return out
    for kind in ('strided', 'component', 'readonly'):
        try:
            r = f(*variant(kind))
        except Exception as e:
            bad.append(('layout_' + kind, '%s raises %s: %s on a %s array holding the same values' % (name, type(e).__name__, str(e)[:60], kind)))
            continue
        if not _same(r, ref):
            bad.append(('layout_' + kind, '%s returns something else for the same values in a %s array' % (name, kind)))
    return bad


def dtype_failures(name, f, args, single=True):
    """the same integer VALUES as int16 / int32 / int64 arrays, Python lists of ints, and (single=True) float32 / complex64
    arrays: results must agree with the float64 / complex128 run (single precision: to 2e-3).  args must hold
    integer-valued arrays with |values| < 2**14.  Returns [(kind, what)]."""
    bad = []
    base = [x.astype(complex if np.iscomplexobj(x) else float) if isinstance(x, np.ndarray) else copy.deepcopy(x) for x in args]
    ref = copy.deepcopy(f(*[b.copy() if isinstance(b, np.ndarray) else b for b in base]))
    real_only = all(not np.iscomplexobj(x) for x in args if isinstance(x, np.ndarray))
    kinds = (['int16', 'int32', 'int64', 'intlist'] if real_only else []) + (['single'] if single else [])
    for kind in kinds:
        v = []
        for x in base:
            if not isinstance(x, np.ndarray):
                v.append(copy.deepcopy(x))
            elif kind == 'intlist':
                v.append([int(t) for t in x] if x.ndim == 1 else x.astype(np.int64))
            elif kind == 'single':
                v.append(x.astype(np.complex64 if np.iscomplexobj(x) else np.float32))
            else:
                if np.max(np.abs(x)) > np.iinfo(kind).max // 2:
                    v = None; break          # the values themselves do not fit this integer type
                v.append(x.astype(kind))
        if v is None:
            continue
        try:
            r = f(*v)
        except Exception as e:
            bad.append(('dtype_' + kind, '%s raises %s: %s on %s input holding the same values' % (name, type(e).__name__, str(e)[:60], kind)))
            continue
        if not _same(r, ref, rtol=2e-3 if kind == 'single' else 1e-9):
            bad.append(('dtype_' + kind, '%s returns something else for the same values given as %s' % (name, kind)))
    return bad


# ----------------------------------------------------------------------------- registry and driver
def _registry():
    import spectrum as S
    from spectrum.covar import arcovar_marple
    from spectrum.modcovar import modcovar_marple
    from spectrum.toeplitz import HERMTOEP, TOEPLITZ
    from spectrum.burg import _arburg2
    from spectrum import linear_prediction as LP
    from spectrum.levinson import levup, levdown, rlevinson

    def data(rng, n, cplx, ints):
        if ints:
            x = rng.integers(-300, 301, size=n)
            return (x + 1j * rng.integers(-300, 301, size=n)) if cplx else x.astype(float)
        return rng.standard_normal(n) + (1j * rng.standard_normal(n) if cplx else 0)

    def one(n=40):
        return lambda rng, cplx, ints: (data(rng, n, cplx, ints),)

    def acorr_args(rng, cplx, ints):
        x = data(rng, 24, cplx, ints); N = len(x)
        r = np.array([np.sum(x[k:] * np.conj(x[:N - k])) for k in range(5)]) / (1 if ints else N)
        return ((np.real(r) if not cplx else r),)

    def pd_system(rng, cplx, ints):
        (r,) = acorr_args(rng, True, ints)
        z = data(rng, len(r), True, ints)
        return (r[1:].copy(), z)

    def refl(rng, cplx, ints):
        k = (rng.integers(-12, 13, size=5) + (1j * rng.integers(-12, 13, size=5) if cplx else 0)) / 16.0
        return (k.astype(complex if cplx else float),)

    R = {
        'CORRELATION': (lambda x: S.CORRELATION(x, maxlags=6, norm='biased'), one(), 'both'),
        'CORRELATION_xy': (lambda x, y: S.CORRELATION(x, y, maxlags=6, norm='unbiased'), lambda rng, c, i: (data(rng, 30, c, i), data(rng, 30, c, i)), 'both'),
        'xcorr': (lambda x: S.xcorr(x, maxlags=6, norm='biased'), one(), 'both'),
        'corrmtx_covariance': (lambda x: S.corrmtx(x, 3, 'covariance'), one(), 'both'),
        'corrmtx_modified': (lambda x: S.corrmtx(x, 3, 'modified'), one(), 'both'),
        'corrmtx_autocorrelation': (lambda x: S.corrmtx(x, 3, 'autocorrelation'), one(), 'both'),
        'speriodogram': (lambda x: S.speriodogram(x, NFFT=64, window='hamming', detrend=False), one(), 'both'),
        'speriodogram_detrend': (lambda x: S.speriodogram(x, NFFT=64, window='hann', detrend=True), one(), 'both'),
        'CORRELOGRAMPSD': (lambda x: S.CORRELOGRAMPSD(x, lag=8, NFFT=64), one(), 'both'),
        'LEVINSON': (lambda r: S.LEVINSON(r, 4), acorr_args, 'both'),
        'HERMTOEP': (lambda t, z: HERMTOEP(50000.0, t, z), pd_system, 'complex'),
        'TOEPLITZ': (lambda t, z: TOEPLITZ(50000.0 + 0j, t, np.conj(t) * 0.5, z), pd_system, 'complex'),
        'aryule': (lambda x: S.aryule(x, 4), one(), 'both'),
        'lpc': (lambda x: S.lpc(x, 3), one(), 'real'),
        'arburg': (lambda x: S.arburg(x, 4), one(), 'both'),
        'arburg_criteria': (lambda x: S.arburg(x, 8, 'AIC'), one(), 'both'),
        '_arburg2': (lambda x: _arburg2(x, 3), one(), 'both'),
        'arcovar': (lambda x: S.arcovar(x, 3), one(), 'both'),
        'modcovar': (lambda x: S.modcovar(x, 3), one(), 'both'),
        'arcovar_marple': (lambda x: arcovar_marple(x, 3)[:4], one(), 'both'),
        'modcovar_marple': (lambda x: modcovar_marple(x, 3)[:2], one(), 'both'),
        'ma': (lambda x: S.ma(x, 2, 6), one(), 'both'),
        'arma_estimate': (lambda x: S.arma_estimate(x, 2, 2, 8), one(), 'both'),
        'arma_estimate_P5': (lambda x: S.arma_estimate(x, 5, 2, 12), one(48), 'both'),
        'minvar': (lambda x: S.minvar(x, 4, NFFT=32), one(), 'both'),
        'eigen_music': (lambda x: S.eigen(x, 5, NSIG=2, NFFT=32, method='music'), one(), 'both'),
        'eigen_ev': (lambda x: S.eigen(x, 5, NSIG=2, NFFT=32, method='ev'), one(), 'both'),
        'pmtm_eigen': (lambda x: S.pmtm(x, NW=2.5, k=3, NFFT=64, method='eigen'), one(), 'both'),
        'pmtm_adapt': (lambda x: S.pmtm(x, NW=2.5, k=3, NFFT=64, method='adapt'), one(), 'both'),
        'arma2psd': (lambda a, b: S.arma2psd(A=a, B=b, rho=2.0, T=0.5, NFFT=32), lambda rng, c, i: (refl(rng, c, i)[0], refl(rng, c, i)[0][:3]), 'both'),
        'rc2poly': (lambda k: LP.rc2poly(k, 2.0), refl, 'both'),
        'rc2ac': (lambda k: LP.rc2ac(k, 2.0), refl, 'both'),
        'rc2lar': (lambda k: LP.rc2lar(k), refl, 'real'),
        'lar2rc': (lambda g: LP.lar2rc(g), refl, 'real'),
        'rc2is': (lambda k: LP.rc2is(k), refl, 'real'),
        'is2rc': (lambda s: LP.is2rc(s), refl, 'real'),
        'poly2rc': (lambda k: LP.poly2rc(LP.rc2poly(k, 1.0)[0], 1.0), refl, 'both'),
        'ac2poly': (lambda r: LP.ac2poly(r), acorr_args, 'both'),
        'ac2rc': (lambda r: LP.ac2rc(r), acorr_args, 'both'),
        'poly2lsf': (lambda k: LP.poly2lsf(LP.rc2poly(k, 1.0)[0]), lambda rng, c, i: refl(rng, False, i), 'real'),
        'dpss': (lambda n: S.dpss(int(n), 2.5, 4), lambda rng, c, i: (64,), 'none'),
        'create_window_kaiser': (lambda n: S.create_window(int(n), 'kaiser', beta=5.0), lambda rng, c, i: (33,), 'none'),
        'create_window_hann': (lambda n: S.create_window(int(n), 'hann'), lambda rng, c, i: (32,), 'none'),
    }
    return R


DTYPE_SKIP = {'rc2poly', 'rc2ac', 'rc2lar', 'lar2rc', 'rc2is', 'is2rc', 'poly2rc', 'poly2lsf', 'arma2psd', 'dpss', 'create_window_kaiser', 'create_window_hann',
              'HERMTOEP', 'TOEPLITZ'}          # arguments that are not integer-valued by nature (coefficients in (-1,1)) or scalars


def protocol(name, seed):
    """all failures of one function under the purity / layout / dtype protocols; deterministic in (name, seed)"""
    f, mk, kinds = _registry()[name]
    bad = []
    for cplx in ([False, True] if kinds == 'both' else [kinds == 'complex']):
        rng = np.random.default_rng([seed, int(cplx)])
        tag = 'complex' if cplx else 'real'
        a1 = mk(rng, cplx, False); a2 = mk(rng, cplx, False)
        try:
            bad += [('%s/%s' % (k, tag), w) for k, w in purity_failures(name, f, a1, a2)]
            if kinds != 'none':
                bad += [('%s/%s' % (k, tag), w) for k, w in layout_failures(name, f, a1)]
                if name not in DTYPE_SKIP:
                    bad += [('%s/%s' % (k, tag), w) for k, w in dtype_failures(name, f, mk(rng, cplx, True))]
        except Exception as e:
            bad.append(('protocol_raises/' + tag, '%s raised %s: %s under the call protocol' % (name, type(e).__name__, str(e)[:80])))
    return bad


def run_protocol(ctx, names, prefix='values_only'):
    """driver used by the checks: violations keyed <prefix>/<function>/<kind>/<datatype>; replay via replay_protocol"""
    for name in names:
        seed = int(ctx.rng.integers(0, 2 ** 31))
        ctx.count('%s/%s' % (prefix, name)); ctx.case((prefix, name, seed), nontrivial=True)
        for kind, what in protocol(name, seed):
            ctx.violation('%s/%s/%s' % (prefix, name, kind), what, {'protocol': 'values_only', 'name': name, 'seed': seed})


def replay_protocol(r):
    return not protocol(r['name'], r['seed'])
